//! C14 — the language server keeps the same document text as the editor.
//!
//! Every case is one LSP session against the REAL `trust-lsp` binary (built from /repo's working
//! tree with `--features verif-hooks`) over stdio JSON-RPC:
//!
//! * an *editor* (module `editor`: a buffer of UTF-16 code units with LSP line rules, written
//!   independently of both the server and the Lean specification) produces `didOpen`, a sequence of
//!   `didChange` notifications (ranges in UTF-16 units; insert/delete/replace/full text, several
//!   changes per notification, CRLF, astral-plane characters, also positions no editor sends) and
//!   `didClose`/re-open;
//! * after every notification the server's copy is read with the hook request
//!   `trust-lsp/verifDocumentText` and written as the `impl` line (`ed=` says whether it equals the
//!   editor's buffer); the Lean driver answers with the model of `apply_content_changes` and with
//!   the editor-side specification on UTF-16 units;
//! * `tok`/`eof` ops tie `offset_to_line_col` and the token length computation to the model through
//!   `semanticTokens/full` and `formatting` (byte ranges come from `trust_ide::semantic_tokens` on
//!   the same text);
//! * hook-free oracles (lines `# oracle <name> ok|FAIL|KNOWN ...`, evaluated by checks/c14.py):
//!   answers after the incremental history == answers of a fresh server that got the editor's final
//!   text in one `didOpen` (documentSymbol, semanticTokens/full, pull diagnostics, formatting); every
//!   position in every answer is a valid position of the editor's text (UTF-16, not inside a
//!   surrogate pair); symbol ranges spell the symbol's name; tokens spell something of their class;
//!   `prepareRename` round-trips a position inside an identifier; `semanticTokens/range` is the
//!   filtered full answer.

use crate::rng::Rng;
use crate::util::{hex, Out};
use crate::Args;
use serde_json::{json, Value};
use std::io::{BufRead, BufReader, Write};
use std::process::{Child, ChildStdin, Command, Stdio};
use std::sync::mpsc::{channel, Receiver};
use std::time::Duration;
use trust_hir::db::FileId;
use trust_hir::{Database, SourceDatabase};

// ------------------------------------------------------------------------------------------------
// LSP client over stdio
// ------------------------------------------------------------------------------------------------

mod lsp {
    use super::*;

    /// Normal answers take milliseconds; a handler that panicked leaves the server silent.
    const REQUEST_TIMEOUT_S: u64 = 30;

    pub struct Lsp {
        child: Child,
        stdin: Option<ChildStdin>,
        rx: Receiver<Value>,
        next_id: i64,
        pub notes: Vec<Value>,
        /// a request went unanswered: do not wait for this process again
        dead: bool,
        stopped: bool,
    }

    fn read_message(r: &mut impl BufRead) -> Option<Value> {
        let mut len: Option<usize> = None;
        loop {
            let mut line = String::new();
            if r.read_line(&mut line).ok()? == 0 {
                return None;
            }
            let t = line.trim();
            if t.is_empty() {
                break;
            }
            if let Some(v) = t.to_ascii_lowercase().strip_prefix("content-length:") {
                len = v.trim().parse().ok();
            }
        }
        let mut body = vec![0u8; len?];
        r.read_exact(&mut body).ok()?;
        serde_json::from_slice(&body).ok()
    }

    impl Lsp {
        /// `root`: a workspace folder (pull mode only); the call returns after the background
        /// indexing pass that `initialized` starts has finished (the server then asks the client
        /// to refresh diagnostics).
        pub fn start(bin: &str, pull: bool, root: Option<&str>) -> Result<Lsp, String> {
            let mut child = Command::new(bin)
                .stdin(Stdio::piped())
                .stdout(Stdio::piped())
                .stderr(Stdio::null())
                .spawn()
                .map_err(|e| format!("spawn {bin}: {e}"))?;
            let stdin = child.stdin.take().unwrap();
            let stdout = child.stdout.take().unwrap();
            let (tx, rx) = channel();
            std::thread::spawn(move || {
                let mut r = BufReader::new(stdout);
                while let Some(v) = read_message(&mut r) {
                    if tx.send(v).is_err() {
                        break;
                    }
                }
            });
            let mut l = Lsp { child, stdin: Some(stdin), rx, next_id: 0, notes: Vec::new(), dead: false, stopped: false };
            let caps = if pull {
                json!({"workspace": {"diagnostic": {"refreshSupport": true}},
                       "textDocument": {"diagnostic": {}}})
            } else {
                json!({})
            };
            let root_uri = root.map(|r| Value::String(format!("file://{r}"))).unwrap_or(Value::Null);
            l.request("initialize", json!({"processId": null, "rootUri": root_uri, "capabilities": caps}))?;
            l.notify("initialized", json!({}))?;
            if root.is_some() {
                l.wait_for("workspace/diagnostic/refresh")?;
            }
            Ok(l)
        }

        fn incoming(&mut self, m: Value) -> Result<(), String> {
            if let Some(rid) = m.get("id") {
                // server -> client request: answer null
                let reply = json!({"jsonrpc": "2.0", "id": rid.clone(), "result": null});
                self.send(&reply)?;
            }
            self.notes.push(m);
            Ok(())
        }

        /// Read until the server sends a request or notification `method`.
        pub fn wait_for(&mut self, method: &str) -> Result<(), String> {
            loop {
                if self.dead {
                    return Err(format!("waiting for {method}: server is dead"));
                }
                let m = match self.rx.recv_timeout(Duration::from_secs(REQUEST_TIMEOUT_S)) {
                    Ok(m) => m,
                    Err(e) => {
                        self.dead = true;
                        return Err(format!("waiting for {method}: {e}"));
                    }
                };
                let hit = m.get("method").and_then(Value::as_str) == Some(method);
                if m.get("method").is_some() {
                    self.incoming(m)?;
                }
                if hit {
                    return Ok(());
                }
            }
        }

        fn send(&mut self, v: &Value) -> Result<(), String> {
            let body = serde_json::to_vec(v).unwrap();
            let head = format!("Content-Length: {}\r\n\r\n", body.len());
            let stdin = self.stdin.as_mut().ok_or("stdin closed")?;
            stdin.write_all(head.as_bytes()).map_err(|e| e.to_string())?;
            stdin.write_all(&body).map_err(|e| e.to_string())?;
            stdin.flush().map_err(|e| e.to_string())
        }

        pub fn notify(&mut self, method: &str, params: Value) -> Result<(), String> {
            self.send(&json!({"jsonrpc": "2.0", "method": method, "params": params}))
        }

        /// Result of the request; a JSON-RPC error becomes `{"rpc-error": code}`.
        pub fn request(&mut self, method: &str, params: Value) -> Result<Value, String> {
            self.next_id += 1;
            let id = self.next_id;
            self.send(&json!({"jsonrpc": "2.0", "id": id, "method": method, "params": params}))?;
            loop {
                if self.dead {
                    return Err(format!("no answer to {method}: server is dead"));
                }
                let m = match self.rx.recv_timeout(Duration::from_secs(REQUEST_TIMEOUT_S)) {
                    Ok(m) => m,
                    Err(e) => {
                        self.dead = true;
                        return Err(format!("no answer to {method}: {e}"));
                    }
                };
                if m.get("method").is_some() {
                    self.incoming(m)?;
                    continue;
                }
                if m.get("id").and_then(Value::as_i64) == Some(id) {
                    if let Some(e) = m.get("error") {
                        return Ok(json!({"rpc-error": e.get("code").cloned().unwrap_or(Value::Null)}));
                    }
                    return Ok(m.get("result").cloned().unwrap_or(Value::Null));
                }
            }
        }

        /// Orderly end of the session (idempotent).
        pub fn shutdown(&mut self) {
            if self.stopped {
                return;
            }
            self.stopped = true;
            if self.dead {
                let _ = self.child.kill();
                let _ = self.child.wait();
                return;
            }
            let _ = self.request("shutdown", Value::Null);
            let _ = self.notify("exit", Value::Null);
            // tokio's stdin reader keeps the process alive until the pipe is closed
            self.stdin = None;
            for _ in 0..400 {
                if let Ok(Some(_)) = self.child.try_wait() {
                    return;
                }
                std::thread::sleep(Duration::from_millis(5));
            }
            let _ = self.child.kill();
            let _ = self.child.wait();
        }

        pub fn stop(mut self) {
            self.shutdown();
        }
    }
}

// ------------------------------------------------------------------------------------------------
// The editor: a buffer of UTF-16 code units, LSP line rules (\n, \r\n, \r)
// ------------------------------------------------------------------------------------------------

mod editor {
    #[derive(Clone, Debug, PartialEq)]
    pub struct Editor {
        pub u: Vec<u16>,
    }

    /// (start offset, length without terminator, terminator length) of every line.
    pub type LineTable = Vec<(usize, usize, usize)>;

    impl Editor {
        pub fn from_str(s: &str) -> Editor {
            Editor { u: s.encode_utf16().collect() }
        }
        pub fn text(&self) -> String {
            String::from_utf16(&self.u).expect("editor buffer is well-formed UTF-16")
        }
        pub fn lines(&self) -> LineTable {
            let u = &self.u;
            let mut out = Vec::new();
            let (mut start, mut i) = (0usize, 0usize);
            while i < u.len() {
                if u[i] == 10 {
                    out.push((start, i - start, 1));
                    i += 1;
                    start = i;
                } else if u[i] == 13 {
                    let t = if i + 1 < u.len() && u[i + 1] == 10 { 2 } else { 1 };
                    out.push((start, i - start, t));
                    i += t;
                    start = i;
                } else {
                    i += 1;
                }
            }
            out.push((start, u.len() - start, 0));
            out
        }
        /// Unit offset of a position the editor has; `None` for a position it does not have.
        pub fn offset(&self, line: u32, col: u32) -> Option<usize> {
            let lines = self.lines();
            let (start, len, _) = *lines.get(line as usize)?;
            if col as usize <= len {
                Some(start + col as usize)
            } else {
                None
            }
        }
        pub fn boundary(&self, k: usize) -> bool {
            k >= self.u.len() || !(0xDC00..0xE000).contains(&self.u[k])
        }
        pub fn has_lone_cr(&self) -> bool {
            let u = &self.u;
            (0..u.len()).any(|i| u[i] == 13 && !(i + 1 < u.len() && u[i + 1] == 10))
        }
        /// Position (line, col) of a unit offset.
        pub fn position(&self, k: usize) -> (u32, u32) {
            let lines = self.lines();
            let mut best = 0usize;
            for (i, (start, _, _)) in lines.iter().enumerate() {
                if *start <= k {
                    best = i;
                }
            }
            (best as u32, (k - lines[best].0) as u32)
        }
        /// Replace [a, b) — the editor's own edit.
        pub fn splice(&mut self, a: usize, b: usize, text: &str) {
            let t: Vec<u16> = text.encode_utf16().collect();
            self.u.splice(a..b, t);
        }
    }
}
use editor::Editor;

// ------------------------------------------------------------------------------------------------
// Changes
// ------------------------------------------------------------------------------------------------

#[derive(Clone, Debug)]
enum Chg {
    Range { sl: u32, sc: u32, el: u32, ec: u32, text: String },
    Full { text: String },
}

impl Chg {
    fn to_json(&self) -> Value {
        match self {
            Chg::Range { sl, sc, el, ec, text } => json!({
                "range": {"start": {"line": sl, "character": sc}, "end": {"line": el, "character": ec}},
                "text": text}),
            Chg::Full { text } => json!({ "text": text }),
        }
    }
    fn to_op(&self) -> String {
        match self {
            Chg::Range { sl, sc, el, ec, text } => {
                format!("R {sl} {sc} {el} {ec} {}", hex(text.as_bytes()))
            }
            Chg::Full { text } => format!("F {}", hex(text.as_bytes())),
        }
    }
}

/// The editor applies a list of changes to its buffer; `false` = not something an editor produces
/// (the buffer is then left in an unspecified state).
fn editor_apply(ed: &mut Editor, changes: &[Chg]) -> bool {
    if changes.is_empty() {
        return false;
    }
    for c in changes {
        match c {
            Chg::Full { text } => *ed = Editor::from_str(text),
            Chg::Range { sl, sc, el, ec, text } => {
                let (Some(a), Some(b)) = (ed.offset(*sl, *sc), ed.offset(*el, *ec)) else {
                    return false;
                };
                if a > b || !ed.boundary(a) || !ed.boundary(b) {
                    return false;
                }
                ed.splice(a, b, text);
            }
        }
    }
    true
}

// ------------------------------------------------------------------------------------------------
// Generators
// ------------------------------------------------------------------------------------------------

#[derive(Clone, Copy, PartialEq, Debug)]
enum Cat {
    Ascii,
    Latin1,
    Cjk,
    Emoji,
    Mixed,
}

#[derive(Clone, Copy, PartialEq, Debug)]
enum Eol {
    Lf,
    Crlf,
    MixedEol,
    LoneCr,
}

const ASCII: &[&str] = &["a", "b", "Z", "0", "9", "_", " ", " ", "x", "q", "-", "+", ".", ",", "\t"];
const LATIN1: &[&str] = &["é", "ü", "ß", "ñ", "À", "ÿ", "¡", "\u{80}", "\u{7f}", "\u{7ff}", "µ"];
const CJK: &[&str] = &[
    "漢", "字", "日", "本", "語", "한", "글", "\u{800}", "\u{ffff}", "\u{fffd}", "\u{feff}", "\u{2028}",
    "\u{e000}", "\u{d7ff}", "ก", "\u{e49}", "e\u{301}",
];
const ASTRAL: &[&str] = &[
    "😀", "🚀", "𝒳", "𐍈", "\u{10000}", "\u{10ffff}", "👨\u{200d}👩\u{200d}👧", "🇩🇪", "𠮷", "\u{1f44d}\u{1f3fd}",
];

fn uni(r: &mut Rng, cat: Cat, max: u64) -> String {
    let n = r.below(max + 1);
    let mut s = String::new();
    for _ in 0..n {
        let pool: &[&str] = match cat {
            Cat::Ascii => ASCII,
            Cat::Latin1 => {
                if r.chance(1, 2) {
                    LATIN1
                } else {
                    ASCII
                }
            }
            Cat::Cjk => {
                if r.chance(1, 2) {
                    CJK
                } else {
                    ASCII
                }
            }
            Cat::Emoji => {
                if r.chance(1, 2) {
                    ASTRAL
                } else {
                    ASCII
                }
            }
            Cat::Mixed => match r.below(4) {
                0 => ASCII,
                1 => LATIN1,
                2 => CJK,
                _ => ASTRAL,
            },
        };
        s.push_str(*r.pick(pool));
    }
    s
}

/// Non-empty decoration from the category (so that lines really contain what the tag promises).
fn uni1(r: &mut Rng, cat: Cat) -> String {
    let mut s = uni(r, cat, 3);
    let pool: &[&str] = match cat {
        Cat::Ascii => ASCII,
        Cat::Latin1 => LATIN1,
        Cat::Cjk => CJK,
        Cat::Emoji => ASTRAL,
        Cat::Mixed => match r.below(3) {
            0 => LATIN1,
            1 => CJK,
            _ => ASTRAL,
        },
    };
    s.push_str(*r.pick(pool));
    s.push_str(&uni(r, cat, 2));
    s
}

fn eol_str(r: &mut Rng, eol: Eol) -> &'static str {
    match eol {
        Eol::Lf => "\n",
        Eol::Crlf => "\r\n",
        Eol::MixedEol => {
            if r.bool() {
                "\n"
            } else {
                "\r\n"
            }
        }
        Eol::LoneCr => match r.below(4) {
            0 => "\r",
            1 => "\r\n",
            _ => "\n",
        },
    }
}

/// Lines of a Structured Text unit whose comments and string literals carry the category's
/// characters — several of them in front of code on the same line.
fn st_lines(r: &mut Rng, cat: Cat, k: u64) -> Vec<String> {
    let mut v = Vec::new();
    match r.below(5) {
        0 => {
            v.push(format!("TYPE E{k} : (A{k}, (* {} *) B{k}, C{k}); END_TYPE", uni1(r, cat)));
        }
        1 => {
            v.push(format!("(* {} *) FUNCTION F{k} : INT", uni1(r, cat)));
            v.push(format!("VAR_INPUT a : INT; (* {} *) b : INT; END_VAR", uni1(r, cat)));
            v.push(format!("F{k} := a + b; // {}", uni1(r, cat)));
            v.push("END_FUNCTION".into());
        }
        2 => {
            v.push(format!("FUNCTION_BLOCK FB{k} (* {} *)", uni1(r, cat)));
            v.push("VAR".into());
            v.push(format!("  s : STRING := '{}'; n : INT;", uni1(r, cat)));
            v.push("END_VAR".into());
            v.push(format!("s := '{}'; n := n + {};", uni1(r, cat), r.below(100)));
            v.push("END_FUNCTION_BLOCK".into());
        }
        _ => {
            v.push(format!("PROGRAM P{k}"));
            v.push("VAR".into());
            let nv = 1 + r.below(3);
            for i in 0..nv {
                match r.below(3) {
                    0 => v.push(format!("  (* {} *) v{i} : INT; (* {} *)", uni1(r, cat), uni(r, cat, 3))),
                    1 => v.push(format!("  s{i} : STRING := '{}'; v{i} : INT := {};", uni1(r, cat), r.below(50))),
                    _ => v.push(format!("  w{i} : WSTRING := \"{}\"; v{i} : DINT;", uni1(r, cat))),
                }
            }
            v.push("END_VAR".into());
            let ns = 1 + r.below(4);
            for _ in 0..ns {
                let i = r.below(nv);
                let j = r.below(nv);
                match r.below(5) {
                    0 => v.push(format!("(* {} *) v{i} := v{j} + {};", uni1(r, cat), r.below(9))),
                    1 => v.push(format!("v{i} := {}; // {}", r.below(1000), uni1(r, cat))),
                    2 => v.push(format!(
                        "IF v{i} > {} THEN (* {} *) v{j} := {}; END_IF;",
                        r.below(9),
                        uni1(r, cat),
                        r.below(9)
                    )),
                    3 => v.push(format!("v{i} := LEN('{}') + v{j}; v{j} := 1;", uni1(r, cat))),
                    _ => v.push(format!("v{i} := v{j}; (* {} *) v{j} := undefined_{i}; ", uni1(r, cat))),
                }
            }
            v.push("END_PROGRAM".into());
        }
    }
    v
}

fn gen_text(r: &mut Rng, cat: Cat, eol: Eol, out_kind: &mut &'static str) -> String {
    let mut lines: Vec<String> = Vec::new();
    let kind = r.below(20);
    if kind == 0 {
        *out_kind = "doc-tiny";
        let tiny = ["", "\n", "😀", "😀x", "x", "é\n", "\r\n", "a\r\nb", "漢字"];
        return (*r.pick(&tiny)).to_string();
    } else if kind <= 3 {
        *out_kind = "doc-prose";
        let n = 1 + r.below(8);
        for _ in 0..n {
            lines.push(uni(r, cat, 12));
        }
    } else if kind == 5 || kind == 6 {
        // runs of look-alike lines: equal in the relative token encoding
        *out_kind = "doc-runs";
        let deco = if r.chance(1, 3) { format!("(* {} *) ", uni1(r, cat)) } else { String::new() };
        let names = ["a", "b", "c", "d", "e", "f", "g"];
        let nd = 3 + r.below(5) as usize;
        let ns = 3 + r.below(5) as usize;
        lines.push("PROGRAM Runs".into());
        lines.push("VAR".into());
        for i in 0..nd {
            lines.push(format!("    {deco}{} : INT;", names[i % names.len()]));
        }
        lines.push("END_VAR".into());
        let digit = r.below(10);
        for i in 0..ns {
            lines.push(format!("{deco}{} := {digit};", names[i % nd.min(names.len())]));
        }
        lines.push("END_PROGRAM".into());
    } else if kind == 4 {
        *out_kind = "doc-long";
        let n = 8 + r.below(20);
        for k in 0..n {
            lines.extend(st_lines(r, cat, k));
        }
    } else {
        *out_kind = "doc-st";
        let n = 1 + r.below(3);
        for k in 0..n {
            lines.extend(st_lines(r, cat, k));
            if r.chance(1, 4) {
                lines.push(String::new());
            }
        }
    }
    let mut s = String::new();
    let n = lines.len();
    for (i, l) in lines.into_iter().enumerate() {
        s.push_str(&l);
        if i + 1 < n || r.chance(3, 4) {
            s.push_str(eol_str(r, eol));
        }
    }
    s
}

/// A position of the editor's buffer: (line, col) with col on a character boundary; biased towards
/// columns that have a non-ASCII character before them on the line.
fn pick_pos(r: &mut Rng, ed: &Editor) -> (u32, u32) {
    let lines = ed.lines();
    let interesting: Vec<usize> = lines
        .iter()
        .enumerate()
        .filter(|(_, (s, l, _))| ed.u[*s..*s + *l].iter().any(|&x| x >= 0x80))
        .map(|(i, _)| i)
        .collect();
    let li = if !interesting.is_empty() && r.chance(2, 3) {
        *r.pick(&interesting)
    } else {
        r.below(lines.len() as u64) as usize
    };
    let (start, len, _) = lines[li];
    let first_non_ascii = (0..len).find(|&i| ed.u[start + i] >= 0x80);
    let mut col = match first_non_ascii {
        Some(f) if r.chance(3, 4) => f + r.below((len - f) as u64 + 1) as usize,
        _ => r.below(len as u64 + 1) as usize,
    };
    if r.chance(1, 8) {
        col = len;
    }
    if r.chance(1, 12) {
        col = 0;
    }
    if !ed.boundary(start + col) {
        col += 1; // second half of a pair: move past it
    }
    (li as u32, col as u32)
}

fn insert_text(r: &mut Rng, cat: Cat, eol: Eol) -> String {
    match r.below(10) {
        0 => String::new(),
        1 => eol_str(r, eol).to_string(),
        2 => format!("{}{}{}", uni(r, cat, 3), eol_str(r, eol), uni(r, cat, 3)),
        3 => format!("v0 := v0 + {};", r.below(10)),
        4 => format!("(* {} *)", uni1(r, cat)),
        5 => uni1(r, cat),
        _ => uni(r, cat, 4),
    }
}

/// Delete a whole line, or insert a copy of it in front of itself.
fn gen_line_change(r: &mut Rng, ed: &Editor) -> (Chg, &'static str) {
    let lines = ed.lines();
    let nl = lines.len() as u32;
    let l = r.below(nl as u64) as u32;
    let (start, len, term) = lines[l as usize];
    if l + 1 < nl && r.bool() {
        (Chg::Range { sl: l, sc: 0, el: l + 1, ec: 0, text: String::new() }, "chg-delete-line")
    } else {
        let copy = String::from_utf16_lossy(&ed.u[start..start + len + term]);
        let copy = if term == 0 { format!("{copy}\n") } else { copy };
        (Chg::Range { sl: l, sc: 0, el: l, ec: 0, text: copy }, "chg-duplicate-line")
    }
}

#[derive(PartialEq, Clone, Copy, Debug)]
enum Validity {
    Valid,
    Invalid(&'static str),
}

/// One change against the current buffer.  `allow_invalid`: also positions no editor sends.
fn gen_change(r: &mut Rng, ed: &Editor, cat: Cat, eol: Eol, allow_invalid: bool) -> (Chg, Validity, &'static str) {
    let lines = ed.lines();
    let nl = lines.len() as u32;
    if allow_invalid && r.chance(1, 45) {
        let (l, c) = pick_pos(r, ed);
        let (_, len, _) = lines[l as usize];
        let text = insert_text(r, cat, eol);
        return match r.below(6) {
            0 => (
                Chg::Range { sl: l, sc: len as u32 + 1 + r.below(3) as u32, el: l, ec: len as u32 + 5, text },
                Validity::Invalid("col-beyond-eol"),
                "chg-invalid-col",
            ),
            1 => (
                Chg::Range { sl: nl, sc: 0, el: nl, ec: 0, text },
                Validity::Invalid("line-beyond-last"),
                "chg-invalid-line",
            ),
            2 => (
                Chg::Range { sl: l, sc: c, el: nl + r.below(1000) as u32, ec: 0, text },
                Validity::Invalid("end-line-beyond-last"),
                "chg-invalid-endline",
            ),
            3 => {
                // inside a surrogate pair if the buffer has one
                let inside: Vec<usize> = (0..ed.u.len()).filter(|&k| !ed.boundary(k)).collect();
                if inside.is_empty() {
                    (
                        Chg::Range { sl: l, sc: c, el: l, ec: u32::MAX, text },
                        Validity::Invalid("col-max"),
                        "chg-invalid-colmax",
                    )
                } else {
                    let k = *r.pick(&inside);
                    let (pl, pc) = ed.position(k);
                    if r.bool() {
                        (
                            Chg::Range { sl: pl, sc: pc, el: pl, ec: pc, text },
                            Validity::Invalid("inside-pair"),
                            "chg-invalid-inside-pair",
                        )
                    } else {
                        (
                            Chg::Range { sl: pl, sc: pc - 1, el: pl, ec: pc, text },
                            Validity::Invalid("end-inside-pair"),
                            "chg-invalid-inside-pair",
                        )
                    }
                }
            }
            4 => {
                let (l2, c2) = pick_pos(r, ed);
                let a = ed.offset(l, c).unwrap();
                let b = ed.offset(l2, c2).unwrap();
                if a == b {
                    (
                        Chg::Range { sl: l + 1, sc: 0, el: l, ec: 0, text },
                        if l + 1 < nl { Validity::Invalid("reversed") } else { Validity::Invalid("line-beyond-last") },
                        "chg-invalid-reversed",
                    )
                } else if a > b {
                    (Chg::Range { sl: l, sc: c, el: l2, ec: c2, text }, Validity::Invalid("reversed"), "chg-invalid-reversed")
                } else {
                    (Chg::Range { sl: l2, sc: c2, el: l, ec: c, text }, Validity::Invalid("reversed"), "chg-invalid-reversed")
                }
            }
            _ => (
                Chg::Range { sl: u32::MAX, sc: u32::MAX, el: u32::MAX, ec: u32::MAX, text },
                Validity::Invalid("line-max"),
                "chg-invalid-linemax",
            ),
        };
    }
    let w = r.below(100);
    let range = |a: (u32, u32), b: (u32, u32), text: String| Chg::Range { sl: a.0, sc: a.1, el: b.0, ec: b.1, text };
    if w < 30 {
        let p = pick_pos(r, ed);
        (range(p, p, insert_text(r, cat, eol)), Validity::Valid, "chg-insert")
    } else if w < 45 {
        // delete / replace inside one line
        let p = pick_pos(r, ed);
        let (start, len, _) = lines[p.0 as usize];
        let mut c2 = p.1 as usize + r.below((len - p.1 as usize) as u64 + 1) as usize;
        if !ed.boundary(start + c2) {
            c2 += 1;
        }
        let text = if r.bool() { String::new() } else { insert_text(r, cat, eol) };
        (range(p, (p.0, c2 as u32), text), Validity::Valid, "chg-inline")
    } else if w < 60 {
        // replace between two positions (may span lines)
        let p = pick_pos(r, ed);
        let q = pick_pos(r, ed);
        let (a, b) = if ed.offset(p.0, p.1) <= ed.offset(q.0, q.1) { (p, q) } else { (q, p) };
        // keep most of the document: shrink long spans
        let (a, b) = if b.0 > a.0 + 2 { (a, (a.0, a.1)) } else { (a, b) };
        (range(a, b, insert_text(r, cat, eol)), Validity::Valid, "chg-replace")
    } else if w < 68 {
        let p = pick_pos(r, ed);
        (range(p, p, eol_str(r, eol).to_string()), Validity::Valid, "chg-split-line")
    } else if w < 74 {
        // join: delete the terminator of a line
        let l = r.below(nl as u64) as u32;
        if l + 1 < nl {
            let (_, len, _) = lines[l as usize];
            (range((l, len as u32), (l + 1, 0), String::new()), Validity::Valid, "chg-join-lines")
        } else {
            let p = pick_pos(r, ed);
            (range(p, p, String::new()), Validity::Valid, "chg-noop")
        }
    } else if w < 80 {
        // delete a whole line with its terminator
        let l = r.below(nl as u64) as u32;
        if l + 1 < nl {
            (range((l, 0), (l + 1, 0), String::new()), Validity::Valid, "chg-delete-line")
        } else {
            let (_, len, _) = lines[l as usize];
            (range((l, 0), (l, len as u32), String::new()), Validity::Valid, "chg-delete-line")
        }
    } else if w < 85 {
        // append at the very end
        let (_, len, _) = lines[nl as usize - 1];
        let p = (nl - 1, len as u32);
        (range(p, p, insert_text(r, cat, eol)), Validity::Valid, "chg-append")
    } else if w < 91 {
        // the historical witness shape: replace the ASCII character that follows an astral one
        let mut cands = Vec::new();
        for (li, (s, len, _)) in lines.iter().enumerate() {
            let mut seen = false;
            for i in 0..*len {
                let x = ed.u[s + i];
                if (0xD800..0xE000).contains(&x) {
                    seen = true;
                } else if seen && x < 0x80 && x > 0x20 {
                    cands.push((li as u32, i as u32));
                }
            }
        }
        if cands.is_empty() {
            let p = pick_pos(r, ed);
            (range(p, p, "😀".to_string()), Validity::Valid, "chg-insert")
        } else {
            let p = *r.pick(&cands);
            (range(p, (p.0, p.1 + 1), format!("{}", r.below(10))), Validity::Valid, "chg-after-astral")
        }
    } else if w < 95 {
        let mut k: &'static str = "";
        (Chg::Full { text: gen_text(r, cat, eol, &mut k) }, Validity::Valid, "chg-full")
    } else if w < 97 {
        // replace the whole document through a range
        let (_, len, _) = lines[nl as usize - 1];
        let mut k: &'static str = "";
        (range((0, 0), (nl - 1, len as u32), gen_text(r, cat, eol, &mut k)), Validity::Valid, "chg-replace-all")
    } else {
        let p = pick_pos(r, ed);
        (range(p, p, String::new()), Validity::Valid, "chg-noop")
    }
}

// ------------------------------------------------------------------------------------------------
// Fixed corpus (case numbers 0..CORPUS are the same for every seed)
// ------------------------------------------------------------------------------------------------

struct Fixed {
    name: &'static str,
    text: &'static str,
    /// `None`: no workspace (virtual URI).  `Some(d)`: the document is `main.st` in a temporary
    /// workspace folder and `d` is the file's content when the server starts (`None` = no file).
    disk: Option<Option<&'static str>>,
    steps: Vec<Step>,
}

/// One step of a history.
#[derive(Clone, Debug)]
enum Step {
    /// one `didChange` notification
    Change(Vec<Chg>),
    /// the editor saves: buffer -> disk, `didSave`, and the watcher's CHANGED/CREATED event
    Save,
    /// somebody else rewrites the file; the watcher reports CREATED/CHANGED
    Rewrite(String),
    /// somebody else deletes the file; the watcher reports DELETED
    Delete,
    /// a CHANGED event although the file cannot be read
    Spurious,
    Close,
    Open(String),
    /// `didOpen` with an explicit version number (editors number every newly opened buffer from 1)
    OpenAt(i32, String),
    /// willRenameFiles + move + didRenameFiles + the watcher's DELETED/CREATED pair; URI number
    Rename(usize),
}

fn notes(v: Vec<Vec<Chg>>) -> Vec<Step> {
    v.into_iter().map(Step::Change).collect()
}

fn rg(sl: u32, sc: u32, el: u32, ec: u32, t: &str) -> Chg {
    Chg::Range { sl, sc, el, ec, text: t.to_string() }
}

fn corpus() -> Vec<Fixed> {
    vec![
        // the defect repaired by /repo 62a2cfe: an edit after an astral character on the line
        Fixed {
            name: "witness-emoji-comment",
            text: "PROGRAM P\nVAR x : INT; END_VAR\n(* 😀 *) x := 1;\nEND_PROGRAM\n",
            disk: None, steps: notes(vec![vec![rg(2, 14, 2, 15, "2")], vec![rg(2, 14, 2, 15, "3"), rg(2, 15, 2, 15, "4")]]),
        },
        Fixed {
            name: "witness-emoji-string",
            text: "PROGRAM P\nVAR s : STRING; x : INT; END_VAR\ns := '😀'; x := 1;\nEND_PROGRAM\n",
            disk: None, steps: notes(vec![vec![rg(2, 16, 2, 17, "2")]]),
        },
        Fixed { name: "design-emoji-x", text: "😀x", disk: None, steps: notes(vec![vec![rg(0, 2, 0, 2, "y")], vec![rg(0, 4, 0, 4, "z")]]) },
        // inside the pair: the server resolves to the next boundary
        Fixed { name: "inside-pair", text: "😀x", disk: None, steps: notes(vec![vec![rg(0, 1, 0, 1, "y")]]) },
        // BMP non-ASCII: UTF-8 length differs, UTF-16 does not
        Fixed {
            name: "latin1-cjk",
            text: "x := 'üé'; y := 1;\r\n(* 漢字 *) z := 2;\r\n",
            disk: None, steps: notes(vec![vec![rg(0, 16, 0, 17, "7")], vec![rg(1, 14, 1, 15, "8")], vec![rg(0, 18, 1, 0, "")]]),
        },
        // several changes in one notification, positions relative to the evolving text
        Fixed {
            name: "multi-change",
            text: "a😀b\nc𝒳d\n",
            disk: None, steps: notes(vec![vec![rg(0, 3, 0, 3, "🚀"), rg(0, 5, 0, 6, ""), rg(1, 3, 1, 4, "D"), rg(0, 0, 1, 0, "")]]),
        },
        // end of document without final newline; then a line that does not exist
        Fixed {
            name: "append-and-beyond",
            text: "x",
            disk: None, steps: notes(vec![vec![rg(0, 1, 0, 1, "\ny")], vec![rg(1, 1, 1, 1, "!")], vec![rg(2, 0, 2, 0, "never")], vec![rg(1, 2, 1, 2, "?")]]),
        },
        // column beyond the end of a CRLF line: the server clamps to the `\n`, i.e. after the `\r`
        Fixed { name: "crlf-clamp", text: "ab\r\ncd\r\n", disk: None, steps: notes(vec![vec![rg(0, 9, 0, 9, "X")]]) },
        // KNOWN FINDING (lone CR is a line end for the editor, not for the server)
        Fixed { name: "lone-cr", text: "a\rb", disk: None, steps: notes(vec![vec![rg(1, 0, 1, 0, "X")]]) },
        Fixed { name: "lone-cr-2", text: "a\rb\nc", disk: None, steps: notes(vec![vec![rg(1, 1, 1, 1, "X")]]) },
        // a dirty open document and a file event for its URI (the editor's buffer stays the truth):
        // the disk text has an error, the editor fixes it (unsaved), another tool rewrites the file
        Fixed {
            name: "disk-event-open-dirty",
            text: "PROGRAM Main\nVAR\n    x : INT;\nEND_VAR\nx := missing_value;\nEND_PROGRAM\n",
            disk: Some(Some("PROGRAM Main\nVAR\n    x : INT;\nEND_VAR\nx := missing_value;\nEND_PROGRAM\n")),
            steps: vec![
                Step::Change(vec![rg(4, 5, 4, 18, "1")]),
                Step::Rewrite("PROGRAM Main\nVAR\n    x : INT;\nEND_VAR\nx := other_missing_value + 😀;\nEND_PROGRAM\n".into()),
            ],
        },
        // the same followed by more typing, a save, a close (closed documents take the disk text)
        Fixed {
            name: "disk-events-save-close",
            text: "PROGRAM Main\nVAR x : INT; END_VAR\nx := 1;\nEND_PROGRAM\n",
            disk: Some(Some("PROGRAM Main\nVAR x : INT; END_VAR\nx := 1;\nEND_PROGRAM\n")),
            steps: vec![
                Step::Change(vec![rg(2, 5, 2, 6, "2")]),
                Step::Rewrite("(* 😀 *)\n".into()),
                Step::Change(vec![rg(2, 5, 2, 6, "3")]),
                Step::Save,
                Step::Spurious,
                Step::Close,
                Step::Rewrite("PROGRAM Other\nEND_PROGRAM\n".into()),
                Step::Delete,
                Step::Rewrite("PROGRAM Again\nEND_PROGRAM\n".into()),
                Step::Open("PROGRAM Again\nEND_PROGRAM\n".into()),
                Step::Change(vec![rg(0, 13, 0, 13, "2")]),
            ],
        },
        // a new file that exists only in the editor, then on disk
        Fixed {
            name: "unsaved-new-file",
            text: "PROGRAM New\nEND_PROGRAM\n",
            disk: Some(None),
            steps: vec![Step::Change(vec![rg(0, 11, 0, 11, "er")]), Step::Save, Step::Change(vec![rg(0, 13, 0, 13, "!")]),
                        Step::Rewrite("PROGRAM Elsewhere\nEND_PROGRAM\n".into())],
        },
        // an open dirty buffer is renamed (the POU follows the file name), the watcher reports the
        // move with the stale disk text, the editor keeps editing under the new URI; then back,
        // and onto the path of a sibling file
        Fixed {
            name: "rename-open-dirty",
            text: "PROGRAM main\nVAR x : INT; END_VAR\nx := 1;\nEND_PROGRAM\n",
            disk: Some(Some("PROGRAM main\nVAR x : INT; END_VAR\nx := 1;\nEND_PROGRAM\n")),
            steps: vec![
                Step::Change(vec![rg(2, 5, 2, 6, "2")]),
                Step::Rename(3),
                Step::Change(vec![rg(2, 5, 2, 6, "3")]),
                Step::Rename(0),
                Step::Change(vec![rg(2, 5, 2, 6, "4")]),
                Step::Rename(1),
                Step::Change(vec![rg(2, 5, 2, 6, "5")]),
                Step::Close,
                Step::Rename(4),
                Step::Rewrite("PROGRAM Other\nEND_PROGRAM\n".into()),
            ],
        },
        // semanticTokens/full/delta: one of several look-alike lines is deleted / duplicated
        Fixed {
            name: "delta-lookalike-lines",
            text: "PROGRAM P\nVAR\n    a : INT;\n    b : INT;\n    c : INT;\nEND_VAR\na := 1;\nb := 1;\nc := 1;\nEND_PROGRAM\n",
            disk: None,
            steps: notes(vec![
                vec![rg(3, 0, 4, 0, "")],
                vec![rg(6, 0, 7, 0, "")],
                vec![rg(2, 0, 2, 0, "    d : INT;\n")],
                vec![rg(6, 0, 6, 0, "a := 1;\na := 1;\n")],
                vec![rg(6, 0, 8, 0, "")],
            ]),
        },
        // the defect repaired by /repo 9240ec7: the file is deleted while the document is open and
        // the server used to drop the document
        Fixed {
            name: "deleted-while-open",
            text: "PROGRAM Main\nEND_PROGRAM\n",
            disk: Some(Some("PROGRAM Main\nEND_PROGRAM\n")),
            steps: vec![Step::Change(vec![rg(0, 12, 0, 12, "2")]), Step::Delete, Step::Change(vec![rg(0, 13, 0, 13, "3")])],
        },
        // the editor's token base is older than the server's newest result: answers are dropped
        // (cancelled requests), another view asks in between, deltas are chained (the shapes of
        // `delta_step` in a fixed order) while one line after the other changes its tokens
        Fixed {
            name: "delta-dropped-answers",
            text: "PROGRAM P\nVAR\n    a : INT;\n    b : INT;\nEND_VAR\na := 1;\nb := 2;\na := b;\nEND_PROGRAM\n",
            disk: None,
            steps: notes(vec![
                vec![rg(5, 0, 5, 0, "(* c *) ")],
                vec![rg(6, 5, 6, 6, "a + 1")],
                vec![rg(7, 0, 8, 0, "")],
                vec![rg(2, 0, 2, 0, "    c : INT;\n")],
                vec![rg(6, 0, 6, 0, "c := a;\n")],
                vec![rg(8, 0, 8, 0, "// 😀\n")],
                vec![rg(6, 0, 7, 0, "")],
                vec![rg(6, 7, 6, 7, "  ")],
                vec![rg(3, 0, 4, 0, "")],
                vec![rg(7, 5, 7, 10, "'x'")],
                vec![rg(0, 0, 0, 0, "(* head *)\n")],
                vec![rg(7, 0, 7, 0, "b := 3;\n")],
            ]),
        },
        // a buffer is closed and the URI opened again with another text and the SAME version
        // number (every newly opened buffer starts at 1; the file changed outside, or the buffer
        // was closed without saving); the editor still names the result id it got for the URI
        Fixed {
            name: "reopen-restarts-version",
            text: "PROGRAM P\nVAR x : INT; END_VAR\nx := missing_a;\nEND_PROGRAM\n",
            disk: None,
            steps: vec![
                Step::Close,
                Step::OpenAt(1, "PROGRAM P\nVAR x : INT; END_VAR\n\n\nx := 1;\nx := missing_b + missing_c;\nEND_PROGRAM\n".into()),
                Step::Change(vec![rg(4, 5, 4, 6, "2")]),
                Step::Close,
                Step::OpenAt(2, "PROGRAM Q\nEND_PROGRAM\n".into()),
                Step::Close,
                Step::OpenAt(1, "PROGRAM P\nVAR x : INT; END_VAR\nx := missing_a;\nEND_PROGRAM\n".into()),
                Step::Close,
                Step::OpenAt(1, "x := ;\n".into()),
            ],
        },
        // the repaired defect C14-uri-scheme-shares-path-key (regression case): handled by `scheme_probe`
        Fixed { name: "uri-scheme-probe", text: "", disk: None, steps: vec![] },
    ]
}

// ------------------------------------------------------------------------------------------------
// One case
// ------------------------------------------------------------------------------------------------

struct CaseOut {
    lines: Vec<String>,
    stats: Vec<String>,
    error: Option<String>,
}

fn doc_state(l: &mut lsp::Lsp, uri: &str) -> Result<Option<(String, i64)>, String> {
    let v = l.request("trust-lsp/verifDocumentText", json!({ "uri": uri }))?;
    if v.is_null() {
        return Ok(None);
    }
    let text = v.get("text").and_then(Value::as_str).ok_or("hook: no text")?.to_string();
    let version = v.get("version").and_then(Value::as_i64).ok_or("hook: no version")?;
    Ok(Some((text, version)))
}

/// `impl` line after a notification: the server's copy and whether it equals the editor's.
fn impl_line(state: &Option<(String, i64)>, ed: &EdState) -> String {
    let verdict = match (&ed, state) {
        (EdState::Undefined, _) => "na",
        (EdState::Closed, _) => "same",
        (EdState::Open(_, _), None) => "differ",
        (EdState::Open(e, v), Some((text, sv))) => {
            if e.text() == *text && *v as i64 == *sv {
                "same"
            } else {
                "differ"
            }
        }
    };
    match state {
        None => format!("impl null ed={verdict}"),
        Some((text, v)) => format!("impl v={v} text={} ed={verdict}", hex(text.as_bytes())),
    }
}

#[derive(Clone)]
enum EdState {
    Closed,
    Open(Editor, i32),
    /// the editor-side specification has rejected an event of this case
    Undefined,
}

fn decode_tokens(data: &Value) -> Option<Vec<(u32, u32, u32, u32)>> {
    let arr = data.as_array()?;
    if arr.len() % 5 != 0 {
        return None;
    }
    let mut out = Vec::new();
    let (mut line, mut col) = (0u32, 0u32);
    for ch in arr.chunks(5) {
        let dl = ch[0].as_u64()? as u32;
        let ds = ch[1].as_u64()? as u32;
        if dl > 0 {
            line += dl;
            col = ds;
        } else {
            col += ds;
        }
        out.push((line, col, ch[2].as_u64()? as u32, ch[3].as_u64()? as u32));
    }
    Some(out)
}

/// Byte ranges of the semantic tokens of `text`, computed with the library the server uses.
fn library_tokens(text: &str) -> Vec<(u32, u32)> {
    let text = text.to_string();
    std::panic::catch_unwind(move || {
        let mut db = Database::default();
        let file = FileId(0);
        db.set_source_text(file, text);
        trust_ide::semantic_tokens(&db, file)
            .into_iter()
            .map(|t| (u32::from(t.range.start()), u32::from(t.range.end())))
            .collect::<Vec<_>>()
    })
    .unwrap_or_default()
}

fn canon(v: &Value) -> Value {
    match v {
        Value::Object(m) => {
            let mut out = serde_json::Map::new();
            let mut keys: Vec<&String> = m.keys().collect();
            keys.sort();
            for k in keys {
                if k == "resultId" {
                    continue;
                }
                out.insert(k.clone(), canon(&m[k]));
            }
            Value::Object(out)
        }
        Value::Array(a) => Value::Array(a.iter().map(canon).collect()),
        other => other.clone(),
    }
}

fn collect_positions(v: &Value, out: &mut Vec<(u64, u64)>) {
    match v {
        Value::Object(m) => {
            if let (Some(l), Some(c)) = (m.get("line").and_then(Value::as_u64), m.get("character").and_then(Value::as_u64)) {
                out.push((l, c));
            }
            for x in m.values() {
                collect_positions(x, out);
            }
        }
        Value::Array(a) => a.iter().for_each(|x| collect_positions(x, out)),
        _ => {}
    }
}

struct Answers {
    symbols: Value,
    tokens: Value,
    diagnostics: Value,
    formatting: Value,
    /// foldingRange, inlayHint (whole document), codeLens, documentLink
    extras: Vec<(&'static str, Value)>,
}

fn ask_all(l: &mut lsp::Lsp, uri: &str, pull: bool) -> Result<Answers, String> {
    let td = json!({"textDocument": {"uri": uri}});
    let symbols = canon(&l.request("textDocument/documentSymbol", td.clone())?);
    let tokens = canon(&l.request("textDocument/semanticTokens/full", td.clone())?);
    let diagnostics = if pull { canon(&l.request("textDocument/diagnostic", td.clone())?) } else { Value::Null };
    let formatting = canon(&l.request(
        "textDocument/formatting",
        json!({"textDocument": {"uri": uri}, "options": {"tabSize": 4, "insertSpaces": true}}),
    )?);
    let whole = json!({"start": {"line": 0, "character": 0}, "end": {"line": 1_000_000, "character": 0}});
    let mut extras = Vec::new();
    for (name, method, params) in [
        ("folding", "textDocument/foldingRange", td.clone()),
        ("inlay", "textDocument/inlayHint", json!({"textDocument": {"uri": uri}, "range": whole})),
        ("codelens", "textDocument/codeLens", td.clone()),
        ("links", "textDocument/documentLink", td.clone()),
    ] {
        extras.push((name, canon(&l.request(method, params)?)));
    }
    Ok(Answers { symbols, tokens, diagnostics, formatting, extras })
}

fn short(v: &Value) -> String {
    let s = v.to_string();
    let cap = if std::env::var("C14_FULL").is_ok() { usize::MAX } else { 300 };
    hex(s.as_bytes().get(..s.len().min(cap)).unwrap_or(s.as_bytes()))
}

fn is_ident_like(s: &str) -> bool {
    !s.is_empty() && s.chars().all(|c| c.is_ascii_alphanumeric() || c == '_')
}

/// Oracles that need only the answers and the reference text (the editor's buffer).
fn answer_oracles(lines: &mut Vec<String>, stats: &mut Vec<String>, reference: &Editor, a: &Answers) {
    let table = reference.lines();
    let valid = |l: u64, c: u64| -> bool {
        match table.get(l as usize) {
            Some((s, len, _)) => (c as usize) <= *len && reference.boundary(s + c as usize),
            None => false,
        }
    };
    // 1. every position of every answer is a position of the editor's text
    for (name, v) in [("symbols", &a.symbols), ("diagnostics", &a.diagnostics), ("formatting", &a.formatting)] {
        let mut ps = Vec::new();
        collect_positions(v, &mut ps);
        stats.push(format!("positions-checked-{name}:{}", ps.len()));
        match ps.iter().find(|(l, c)| !valid(*l, *c)) {
            Some((l, c)) => lines.push(format!("# oracle positions-{name} FAIL line={l} col={c} answer={}", short(v))),
            None => lines.push(format!("# oracle positions-{name} ok n={}", ps.len())),
        }
    }
    for (name, v) in &a.extras {
        let mut ps = Vec::new();
        collect_positions(v, &mut ps);
        stats.push(format!("positions-checked-{name}:{}", ps.len()));
        let mut bad = ps.iter().find(|(l, c)| !valid(*l, *c)).map(|(l, c)| format!("line={l} col={c}"));
        if *name == "folding" {
            if let Some(arr) = v.as_array() {
                for f in arr {
                    for key in ["startLine", "endLine"] {
                        if f[key].as_u64().is_some_and(|l| l as usize >= table.len()) {
                            bad = Some(format!("{key}={} beyond the last line", f[key]));
                        }
                    }
                }
            }
        }
        match bad {
            Some(b) => lines.push(format!("# oracle positions-{name} FAIL {b} answer={}", short(v))),
            None => lines.push(format!("# oracle positions-{name} ok n={}", ps.len())),
        }
    }
    // 2. a full-document formatting edit ends exactly at the end of the editor's text
    if let Some(edits) = a.formatting.as_array() {
        if edits.len() == 1 {
            let e = &edits[0]["range"]["end"];
            let last = table.len() - 1;
            let want = (last as u64, table[last].1 as u64);
            let got = (e["line"].as_u64().unwrap_or(u64::MAX), e["character"].as_u64().unwrap_or(u64::MAX));
            let s = &edits[0]["range"]["start"];
            if s["line"].as_u64() == Some(0) && s["character"].as_u64() == Some(0) {
                if got == want {
                    lines.push("# oracle formatting-end ok".into());
                } else {
                    lines.push(format!("# oracle formatting-end FAIL got={got:?} want={want:?}"));
                }
            }
        }
    }
    // 3. symbol ranges spell the symbol's name
    if let Some(syms) = a.symbols.as_array() {
        let mut bad = None;
        let mut n = 0;
        for s in syms {
            let name = s["name"].as_str().unwrap_or("");
            let plain = name.split(" (").next().unwrap_or("");
            let r = &s["location"]["range"];
            let (Some(sl), Some(sc), Some(el), Some(ec)) = (
                r["start"]["line"].as_u64(),
                r["start"]["character"].as_u64(),
                r["end"]["line"].as_u64(),
                r["end"]["character"].as_u64(),
            ) else {
                continue;
            };
            let (Some(x), Some(y)) = (reference.offset(sl as u32, sc as u32), reference.offset(el as u32, ec as u32)) else {
                continue; // reported by the positions oracle
            };
            if x > y {
                bad = Some(format!("reversed range for {name}"));
                break;
            }
            let got = String::from_utf16_lossy(&reference.u[x..y]);
            n += 1;
            if !got.eq_ignore_ascii_case(plain) {
                bad = Some(format!("name={} range-text={}", hex(plain.as_bytes()), hex(got.as_bytes())));
                break;
            }
        }
        stats.push(format!("symbol-names-checked:{n}"));
        match bad {
            Some(b) => lines.push(format!("# oracle symbol-names FAIL {b}")),
            None => lines.push(format!("# oracle symbol-names ok n={n}")),
        }
    }
    // 4. tokens: positions, lengths and what they spell
    if let Some(toks) = a.tokens.get("data").and_then(decode_tokens) {
        let mut bad = None;
        let mut n = 0;
        for (l, c, len, ty) in &toks {
            let Some(x) = reference.offset(*l, *c) else {
                bad = Some(format!("token start ({l},{c}) is not a position of the text"));
                break;
            };
            let y = x + *len as usize;
            if y > reference.u.len() || !reference.boundary(x) || !reference.boundary(y) {
                bad = Some(format!("token ({l},{c},len {len}) splits a character or runs past the end"));
                break;
            }
            let text = String::from_utf16_lossy(&reference.u[x..y]);
            n += 1;
            let ok = match ty {
                // string, wide string, time/date literals (T#5s, D#2020-01-01, ...)
                8 => {
                    text.starts_with('\'')
                        || text.starts_with('"')
                        || (text.chars().next().is_some_and(|ch| ch.is_ascii_alphabetic())
                            && text.is_ascii()
                            && !text.chars().any(char::is_whitespace))
                }
                9 => text.starts_with("(*") || text.starts_with("//") || text.starts_with("/*"),
                10 => !text.is_empty() && !text.chars().any(|ch| ch.is_whitespace() || ch.is_alphanumeric()),
                0..=6 | 11 | 12 => is_ident_like(&text),
                7 => text.chars().next().is_some_and(|ch| ch.is_ascii_alphanumeric()) && !text.chars().any(char::is_whitespace),
                _ => true,
            };
            if !ok {
                bad = Some(format!("token ({l},{c},len {len},type {ty}) spells {}", hex(text.as_bytes())));
                break;
            }
        }
        stats.push(format!("token-texts-checked:{n}"));
        match bad {
            Some(b) => lines.push(format!("# oracle token-texts FAIL {b}")),
            None => lines.push(format!("# oracle token-texts ok n={n}")),
        }
    }
}

/// `tok`/`eof` ops: the server's token positions against the model of `offset_to_line_col`.
fn token_ops(lines: &mut Vec<String>, stats: &mut Vec<String>, server_text: &str, a: &Answers, r: &mut Rng) {
    let lib = library_tokens(server_text);
    let Some(toks) = a.tokens.get("data").and_then(decode_tokens) else {
        lines.push(format!("# oracle tokens-shape FAIL answer={}", short(&a.tokens)));
        return;
    };
    if lib.len() != toks.len() {
        lines.push(format!("# oracle tokens-count FAIL library={} server={}", lib.len(), toks.len()));
        return;
    }
    lines.push(format!("# oracle tokens-count ok n={}", toks.len()));
    // all tokens of short answers, a random window of long ones
    let n = toks.len();
    let (from, to) = if n <= 80 { (0, n) } else { let f = r.below((n - 80) as u64) as usize; (f, f + 80) };
    for i in from..to {
        let (a0, b0) = lib[i];
        let (l, c, len, _) = toks[i];
        lines.push(format!("tok {a0} {b0}"));
        lines.push(format!("impl {l} {c} {len}"));
    }
    stats.push(format!("tok-ops:{}", to - from));
    if let Some(edits) = a.formatting.as_array() {
        if edits.len() == 1 {
            let e = &edits[0]["range"]["end"];
            if let (Some(l), Some(c)) = (e["line"].as_u64(), e["character"].as_u64()) {
                lines.push("eof".into());
                lines.push(format!("impl {l} {c}"));
                stats.push("eof-ops:1".into());
            }
        }
    }
}

/// `prepareRename` at a column inside an identifier token must answer that token's range
/// (position_to_offset, then offset_to_position twice);
/// `semanticTokens/range` must be the filtered full answer.
fn position_request_oracles(
    l: &mut lsp::Lsp,
    uri: &str,
    lines: &mut Vec<String>,
    stats: &mut Vec<String>,
    reference: &Editor,
    a: &Answers,
    r: &mut Rng,
) -> Result<(), String> {
    let Some(toks) = a.tokens.get("data").and_then(decode_tokens) else { return Ok(()) };
    // identifiers that have a non-ASCII character before them on the line come first
    let table = reference.lines();
    let mut idents: Vec<&(u32, u32, u32, u32)> = toks.iter().filter(|t| t.3 == 2 && t.2 > 0).collect();
    idents.sort_by_key(|t| {
        let (s, _, _) = table.get(t.0 as usize).copied().unwrap_or((0, 0, 0));
        let before = reference.u.get(s..s + t.1 as usize).map(|x| x.iter().any(|&u| u >= 0x80)).unwrap_or(false);
        !before
    });
    let mut checked = 0;
    let mut bad = None;
    for t in idents.iter().take(3) {
        let (tl, tc, tlen, _) = **t;
        // strictly inside the identifier (what trust_ide answers at the end column of a token
        // is a matter of the IDE layer, not of position conversion)
        let col = tc + r.below(tlen as u64) as u32;
        let ans = l.request(
            "textDocument/prepareRename",
            json!({"textDocument": {"uri": uri}, "position": {"line": tl, "character": col}}),
        )?;
        if ans.is_null() || ans.get("rpc-error").is_some() {
            stats.push("prepare-rename-null:1".into());
            continue;
        }
        let rng = if ans.get("range").is_some() { &ans["range"] } else { &ans };
        let got = (
            rng["start"]["line"].as_u64(),
            rng["start"]["character"].as_u64(),
            rng["end"]["line"].as_u64(),
            rng["end"]["character"].as_u64(),
        );
        let want = (Some(tl as u64), Some(tc as u64), Some(tl as u64), Some((tc + tlen) as u64));
        checked += 1;
        if got != want {
            bad = Some(format!("at ({tl},{col}) got={got:?} want={want:?}"));
            break;
        }
    }
    stats.push(format!("prepare-rename-checked:{checked}"));
    match bad {
        Some(b) => lines.push(format!("# oracle prepare-rename FAIL {b}")),
        None => lines.push(format!("# oracle prepare-rename ok n={checked}")),
    }
    // semanticTokens/range over whole lines [l1, l2)
    let nl = table.len() as u64;
    let l1 = r.below(nl);
    let l2 = l1 + r.below(nl - l1 + 1);
    let ans = l.request(
        "textDocument/semanticTokens/range",
        json!({"textDocument": {"uri": uri},
               "range": {"start": {"line": l1, "character": 0}, "end": {"line": l2.min(nl - 1), "character": if l2 >= nl { table[nl as usize - 1].1 as u64 } else { 0 }}}}),
    )?;
    if let Some(got) = ans.get("data").and_then(decode_tokens) {
        let end_line = l2.min(nl - 1) as u32;
        let end_col = if l2 >= nl { table[nl as usize - 1].1 as u32 } else { 0 };
        let want: Vec<(u32, u32, u32, u32)> = toks
            .iter()
            .filter(|t| (t.0, t.1) >= (l1 as u32, 0) && (t.0, t.1) < (end_line, end_col))
            .cloned()
            .collect();
        // the same tokens re-based at the range start (what the server does today)
        let rebased: Vec<(u32, u32, u32, u32)> = want
            .iter()
            .map(|t| (t.0 - l1 as u32, t.1, t.2, t.3))
            .collect();
        if got == want {
            lines.push(format!("# oracle tokens-range ok n={} from-line={l1}", got.len()));
        } else if got == rebased {
            lines.push(format!("# oracle tokens-range KNOWN range-origin n={} from-line={l1}", got.len()));
        } else {
            lines.push(format!(
                "# oracle tokens-range FAIL lines=[{l1},{l2}) got={} want={}",
                hex(format!("{got:?}").as_bytes()),
                hex(format!("{want:?}").as_bytes())
            ));
        }
    }
    Ok(())
}

struct Plan {
    tags: Vec<String>,
    cat: Cat,
    eol: Eol,
    text: String,
    version: i32,
    pull: bool,
    burst: bool,
    fixed: Option<Vec<Step>>,
    notes: u64,
    /// file-backed document in a temporary workspace folder: the initial content of the file
    disk: Option<Option<String>>,
    /// the editor keeps its semantic tokens current with `semanticTokens/full/delta`
    delta: bool,
    /// a document made of runs of look-alike lines: whole lines are deleted and duplicated
    runs: bool,
}

/// A second program that calls into the sibling files of the workspace, so that answers about the
/// open document depend on what the server believes the other files contain.
const USES_LIB: &str = "PROGRAM UsesLib\nVAR r : INT; END_VAR\nr := LibFn0(1) + LibFn1(2);\nEND_PROGRAM\n";

fn sibling_text(j: usize, variant: u64) -> String {
    match variant % 3 {
        0 => format!("FUNCTION LibFn{j} : INT\nVAR_INPUT a : INT; END_VAR\nLibFn{j} := a + {variant};\nEND_FUNCTION\n"),
        1 => format!("(* 😀 *) FUNCTION LibFn{j} : INT\nVAR_INPUT a : INT; END_VAR\nLibFn{j} := a;\nEND_FUNCTION\n"),
        _ => format!("FUNCTION LibOther{j}_{variant} : INT\nVAR_INPUT a : INT; b : INT; END_VAR\nLibOther{j}_{variant} := a;\nEND_FUNCTION\n"),
    }
}

fn plan_case(seed: u64, n: u64, max_notes: u64) -> (Plan, Rng) {
    let fixed = corpus();
    let mut r = Rng::for_case(seed, n);
    if (n as usize) < fixed.len() {
        let f = &fixed[n as usize];
        let lone = f.text.contains('\r') && Editor::from_str(f.text).has_lone_cr();
        let mut tags = vec!["corpus".to_string(), format!("corpus-{}", f.name)];
        if lone {
            tags.push("lonecr".into());
        }
        if f.disk.is_some() {
            tags.push("workspace".into());
        }
        let plan = Plan {
            tags,
            cat: Cat::Mixed,
            eol: Eol::Lf,
            text: f.text.to_string(),
            version: 1,
            pull: true,
            burst: false,
            fixed: Some(f.steps.clone()),
            notes: f.steps.len() as u64,
            disk: f.disk.map(|d| d.map(str::to_string)),
            delta: true,
            runs: false,
        };
        return (plan, r);
    }
    let cat = *r.pick(&[Cat::Ascii, Cat::Latin1, Cat::Cjk, Cat::Emoji, Cat::Emoji, Cat::Mixed, Cat::Mixed]);
    let eol = match r.below(40) {
        0 => Eol::LoneCr,
        1..=12 => Eol::Crlf,
        13..=16 => Eol::MixedEol,
        _ => Eol::Lf,
    };
    let mut kind: &'static str = "";
    let mut text = gen_text(&mut r, cat, eol, &mut kind);
    let mut tags = vec![format!("cat-{cat:?}").to_lowercase(), format!("eol-{eol:?}").to_lowercase(), kind.to_string()];
    if eol == Eol::LoneCr {
        tags.push("lonecr".into());
    }
    let workspace = r.chance(7, 20);
    let pull = workspace || r.chance(4, 5);
    let burst = !workspace && r.chance(1, 5);
    tags.push(if pull { "mode-pull".into() } else { "mode-push".into() });
    if burst {
        tags.push("burst".into());
    }
    let mut disk = None;
    if workspace {
        tags.push("workspace".into());
        if r.chance(2, 3) && eol != Eol::LoneCr {
            text.push_str(USES_LIB);
        }
        // the file on disk: what the editor opens, an older version of it, or nothing (new file)
        disk = Some(match r.below(6) {
            0 => None,
            1 => {
                let mut k: &'static str = "";
                Some(gen_text(&mut r, cat, eol, &mut k))
            }
            _ => Some(text.clone()),
        });
    }
    let version = if r.chance(1, 10) { r.range(-3, 1000) as i32 } else { 1 };
    let notes = 1 + r.below(max_notes);
    let runs = kind == "doc-runs";
    let delta = !burst && (runs || r.chance(2, 5));
    if delta {
        tags.push("delta-client".into());
    }
    (Plan { tags, cat, eol, text, version, pull, burst, fixed: None, notes, disk, delta, runs }, r)
}

/// Sessions that ended with a dead or silent server; after a few of them the run stops early (the
/// check has already failed and every further one would cost a timeout).
static TRANSPORT_ERRORS: std::sync::atomic::AtomicUsize = std::sync::atomic::AtomicUsize::new(0);
const MAX_TRANSPORT_ERRORS: usize = 3;

fn run_case(bin: &str, seed: u64, n: u64, max_notes: u64) -> CaseOut {
    if TRANSPORT_ERRORS.load(std::sync::atomic::Ordering::SeqCst) >= MAX_TRANSPORT_ERRORS {
        return CaseOut { lines: Vec::new(), stats: vec!["cases-skipped-after-transport-errors:1".into()], error: None };
    }
    // A session whose server stays SILENT for REQUEST_TIMEOUT_S is run once more from scratch (the
    // input is deterministic): a silence that does not reproduce is recorded (stat
    // `sessions-retried-after-timeout`, line `# note retried-after-timeout`) and bounded by the
    // check, not judged; a silence that reproduces, and any DEAD server (crash, first time), is a
    // failing input.
    let mut first_timeout: Option<String> = None;
    loop {
        let mut out = attempt_case(bin, seed, n, max_notes);
        match (&out.error, &first_timeout) {
            (Some(e), None) if e.contains("timed out") => {
                first_timeout = Some(e.clone());
                continue;
            }
            _ => {}
        }
        if let Some(e) = &first_timeout {
            out.stats.push("sessions-retried-after-timeout:1".into());
            let at = out.lines.len().saturating_sub(1);
            out.lines.insert(at, format!("# note retried-after-timeout {}", hex(e.as_bytes())));
        }
        if let Some(e) = &out.error {
            TRANSPORT_ERRORS.fetch_add(1, std::sync::atomic::Ordering::SeqCst);
            // a dead or silent server is an observable of the implementation
            let at = out.lines.len().saturating_sub(1);
            out.lines.insert(at, format!("# oracle session FAIL {}", hex(e.as_bytes())));
        }
        return out;
    }
}

fn attempt_case(bin: &str, seed: u64, n: u64, max_notes: u64) -> CaseOut {
    let (plan, mut r) = plan_case(seed, n, max_notes);
    let mut lines = vec![format!("case {n}")];
    let mut stats: Vec<String> = plan.tags.iter().map(|t| format!("{t}:1")).collect();
    for t in &plan.tags {
        lines.push(format!("tag {t}"));
    }
    // the temporary workspace folder of a file-backed case
    let root = plan.disk.as_ref().map(|_| {
        let base = std::env::temp_dir().join(format!("c14ws-{}-{seed}-{n}", std::process::id()));
        let _ = std::fs::remove_dir_all(&base);
        std::fs::create_dir_all(&base).expect("create workspace");
        base.canonicalize().expect("canonical workspace path")
    });
    let res = if plan.tags.iter().any(|t| t == "corpus-uri-scheme-probe") {
        scheme_probe(bin, &mut lines, &mut stats)
    } else {
        session(bin, n, &plan, root.as_deref(), &mut r, &mut lines, &mut stats)
    };
    if let Some(root) = &root {
        let _ = std::fs::remove_dir_all(root);
    }
    let error = res.err();
    lines.push("end".into());
    CaseOut { lines, stats, error }
}


/// Regression case of the repaired defect C14-uri-scheme-shares-path-key: two documents whose URIs
/// differ in the scheme, the query or the fragment but have the same absolute path used to be
/// keyed by the path alone (`state/path.rs` `uri_to_path` -> `Url::to_file_path`, which does not
/// look at the scheme) and shared one analysed text.  Required now, for every variant: each of the
/// two open documents holds the text it was opened with AND is answered from it — the answers
/// about either URI equal those of a fresh server that got only that document.  (The two texts
/// have the same byte layout, so the old behaviour is named exactly when it comes back.)
fn scheme_probe(bin: &str, lines: &mut Vec<String>, stats: &mut Vec<String>) -> Result<(), String> {
    const A: &str = "PROGRAM Alpha\nVAR x : INT; END_VAR\nx := 1;\nEND_PROGRAM\n";
    const B: &str = "PROGRAM Bravo\nVAR y : INT; END_VAR\ny := q;\nEND_PROGRAM\n";
    const FILE: &str = "file:///c14/probe.st";
    let ask = |l: &mut lsp::Lsp, uri: &str| -> Result<Value, String> {
        let td = json!({"textDocument": {"uri": uri}});
        Ok(json!({
            "symbols": canon(&l.request("textDocument/documentSymbol", td.clone())?),
            "diagnostics": canon(&l.request("textDocument/diagnostic", td.clone())?),
            "hover": canon(&l.request("textDocument/hover", json!({"textDocument": {"uri": uri}, "position": {"line": 2, "character": 0}}))?),
        }))
    };
    let open = |l: &mut lsp::Lsp, uri: &str, text: &str| -> Result<(), String> {
        l.notify(
            "textDocument/didOpen",
            json!({"textDocument": {"uri": uri, "languageId": "structured-text", "version": 1, "text": text}}),
        )
    };
    // the same URI in every answer, so that answers about different URIs can be compared
    let anon = |v: &Value, uri: &str| -> Value {
        serde_json::from_str(&v.to_string().replace(uri, "URI")).unwrap_or(Value::Null)
    };
    let fresh = |uri: &str, text: &str| -> Result<Value, String> {
        let mut f = lsp::Lsp::start(bin, true, None)?;
        let res = open(&mut f, uri, text).and_then(|_| ask(&mut f, uri));
        f.stop();
        res.map(|v| anon(&v, uri))
    };
    let want_a = fresh(FILE, A)?;
    let stolen = fresh(FILE, B)?;
    if want_a == stolen {
        lines.push("# oracle uri-scheme FAIL the probe texts are not told apart by the answers".into());
        return Ok(());
    }
    for (name, other) in [
        ("git-scheme", "git:/c14/probe.st?ref=HEAD"),
        ("notebook-cell", "vscode-notebook-cell:/c14/probe.st#W0sZmlsZQ%3D%3D"),
        ("file-with-query", "file:///c14/probe.st?revision=2"),
        ("file-with-fragment", "file:///c14/probe.st#L3"),
        ("untitled", "untitled:/c14/probe.st"),
    ] {
        let want_b = fresh(other, B)?;
        // both orders: the document opened last used to win
        for file_first in [true, false] {
            let mut l = lsp::Lsp::start(bin, true, None)?;
            let res = (|| -> Result<(Option<(String, i64)>, Option<(String, i64)>, Value, Value), String> {
                if file_first {
                    open(&mut l, FILE, A)?;
                    open(&mut l, other, B)?;
                } else {
                    open(&mut l, other, B)?;
                    open(&mut l, FILE, A)?;
                }
                let ta = doc_state(&mut l, FILE)?;
                let tb = doc_state(&mut l, other)?;
                Ok((ta, tb, ask(&mut l, FILE)?, ask(&mut l, other)?))
            })();
            l.stop();
            let (ta, tb, got_a, got_b) = res?;
            let (got_a, got_b) = (anon(&got_a, FILE), anon(&got_b, other));
            stats.push("uri-scheme-probes:1".into());
            let order = if file_first { "file-first" } else { "file-last" };
            if ta.as_ref().map(|x| x.0.as_str()) != Some(A) || tb.as_ref().map(|x| x.0.as_str()) != Some(B) {
                lines.push(format!("# oracle uri-scheme FAIL {name} {order}: the documents do not hold the texts they were opened with"));
            } else if got_a == want_a && got_b == want_b {
                lines.push(format!("# oracle uri-scheme ok {name} {order}"));
            } else if got_a == stolen {
                lines.push(format!("# oracle uri-scheme FAIL {name} {order}: answers about {FILE} are computed from the text of {other} (the two URIs share one source key)"));
            } else if got_a != want_a {
                lines.push(format!("# oracle uri-scheme FAIL {name} {order}: about {FILE} got={} want={}", short(&got_a), short(&want_a)));
            } else {
                lines.push(format!("# oracle uri-scheme FAIL {name} {order}: about {other} got={} want={}", short(&got_b), short(&want_b)));
            }
        }
    }
    Ok(())
}

/// File names of a workspace case; the index is the URI number of the line protocol.  The case
/// starts on `main.st`; `lib0.st`/`lib1.st` are the sibling files; the rest are rename targets.
const NAMES: [&str; 5] = ["main.st", "lib0.st", "lib1.st", "renamed.st", "Other.st"];

/// The files of a workspace case as the harness left them on disk.
struct Ws {
    root: std::path::PathBuf,
    files: Vec<Option<String>>,
    /// URI number of the document the case follows
    cur: usize,
}

impl Ws {
    fn path(&self, id: usize) -> std::path::PathBuf {
        self.root.join(NAMES[id])
    }
    fn uri(&self, id: usize) -> String {
        format!("file://{}", self.path(id).display())
    }
    fn main(&self) -> &Option<String> {
        &self.files[self.cur]
    }
    fn write(&mut self, id: usize, text: &str) {
        std::fs::write(self.path(id), text).expect("write file");
        self.files[id] = Some(text.to_string());
    }
    fn write_main(&mut self, text: &str) {
        self.write(self.cur, text);
    }
    fn delete(&mut self, id: usize) {
        let _ = std::fs::remove_file(self.path(id));
        self.files[id] = None;
    }
    fn delete_main(&mut self) {
        self.delete(self.cur);
    }
    /// URI numbers of the sibling files (the followed document may have been renamed onto one)
    fn siblings(&self) -> Vec<usize> {
        [1usize, 2].into_iter().filter(|&i| i != self.cur).collect()
    }
}

/// Mutable state of one session.
struct Sess<'a> {
    l: lsp::Lsp,
    uri: String,
    lines: &'a mut Vec<String>,
    stats: &'a mut Vec<String>,
    ed: EdState,
    server: Option<(String, i64)>,
    /// buffer against which the next change is generated (= editor's while it is defined)
    gen_buf: Editor,
    ws: Option<Ws>,
    lone_cr_seen: bool,
    deleted_while_open: bool,
    /// ops of other URIs whose watcher event has not been sent yet
    pending: Vec<(usize, String)>,
    /// the `semanticTokens/full/delta` client: the result id and token array the editor holds
    delta: bool,
    held: Option<Held>,
    /// token requests (full and delta) the server has answered for a document it tracks: the
    /// model numbers its result ids the same way
    tok_reqs: usize,
    /// corpus cases walk through the shapes of `delta_step` in a fixed order
    fixed_shapes: bool,
    shape_no: usize,
    /// the pull-diagnostics client: the result id the editor names and the items it shows
    pull: bool,
    diag_held: Option<(String, Value)>,
}

/// What the editor holds of a `semanticTokens` answer it consumed: the result id, the number of
/// the request that produced it, the token array.
#[derive(Clone)]
struct Held {
    id: String,
    req: usize,
    data: Vec<u32>,
}

/// One token request of a `delta_step`, in the order of the wire.
enum TokEv {
    Full(Vec<u32>),
    Delta { base_req: usize, shown: String, applied: Option<Vec<u32>>, base_len: usize },
}

fn u32s(v: &Value) -> Vec<u32> {
    v.as_array().map(|a| a.iter().filter_map(|x| x.as_u64().map(|n| n as u32)).collect()).unwrap_or_default()
}

fn csv(v: &[u32]) -> String {
    if v.is_empty() {
        "-".into()
    } else {
        v.iter().map(|x| x.to_string()).collect::<Vec<_>>().join(",")
    }
}

impl Sess<'_> {
    fn observe(&mut self) -> Result<(), String> {
        self.server = doc_state(&mut self.l, &self.uri)?;
        self.lines.push(impl_line(&self.server, &self.ed));
        Ok(())
    }
    /// State of another URI (never open in the editor).
    fn observe_at(&mut self, id: usize, op: &str) -> Result<(), String> {
        let uri = self.ws.as_ref().expect("workspace case").uri(id);
        self.lines.push(format!("at {id} {op}"));
        let st = doc_state(&mut self.l, &uri)?;
        let ed = if matches!(self.ed, EdState::Undefined) { EdState::Undefined } else { EdState::Closed };
        self.lines.push(impl_line(&st, &ed));
        Ok(())
    }
    /// `semanticTokens/full`, recorded as `tokf` by the caller (the server caches every answer,
    /// whether the editor uses it or not).
    fn tok_full(&mut self) -> Result<Option<Held>, String> {
        let full = self.l.request("textDocument/semanticTokens/full", json!({"textDocument": {"uri": self.uri}}))?;
        if full.get("data").is_none() {
            return Ok(None);
        }
        let req = self.tok_reqs;
        self.tok_reqs += 1;
        let id = full.get("resultId").and_then(Value::as_str).unwrap_or("").to_string();
        Ok(Some(Held { id, req, data: u32s(&full["data"]) }))
    }
    /// A full answer somebody else asked for (`ask_all`): the server cached it.
    fn note_full(&mut self, ans: &Value) {
        if ans.get("data").is_some() {
            self.lines.push(format!("tokf {}", csv(&u32s(&ans["data"]))));
            self.tok_reqs += 1;
        }
    }
    /// The editor keeps its tokens up to date with `semanticTokens/full/delta`.  One refresh is a
    /// short sequence of requests at the current text (`shape`): a delta against the result the
    /// editor holds, whose answer it applies or DROPS (a request cancelled by the next key stroke:
    /// the server has cached the result all the same), full requests of another view before or
    /// after it, the full answer adopted as the new base or not, deltas chained without any full
    /// request.  So the editor's base is often older than the newest result the server computed.
    /// Oracle (the property's own statement): the edits of EVERY delta answer, applied to the
    /// array of the result id the request named, give the server's full answer for the current
    /// text (a full answer instead of edits is always fine).  Every request is also an op for the
    /// model of the server's cache (`tokf`, `tokd`).
    fn delta_step(&mut self, r: &mut Rng, force_verified: bool) -> Result<(), String> {
        if !self.delta || self.server.is_none() {
            return Ok(());
        }
        if self.held.is_none() {
            if let Some(h) = self.tok_full()? {
                self.lines.push(format!("tokf {}", csv(&h.data)));
                self.held = Some(h);
            }
            return Ok(());
        }
        const CYCLE: [u64; 10] = [0, 10, 7, 13, 16, 17, 12, 15, 3, 8];
        let shape = if force_verified {
            0
        } else if self.fixed_shapes {
            self.shape_no += 1;
            CYCLE[(self.shape_no - 1) % CYCLE.len()]
        } else {
            r.below(20)
        };
        // (a full request first, delta requests: is the answer consumed, a full request after,
        //  the editor adopts that full answer)
        let (full_first, deltas, full_after, adopt): (bool, &[bool], bool, bool) = match shape {
            0..=6 => (false, &[true], true, true),     // lock step
            7..=9 => (false, &[true], true, false),    // the later full answer belongs to another view
            10 | 11 => (false, &[false], true, false), // the delta answer is dropped
            12 => (false, &[false, true], true, false), // dropped, asked again against the same base
            13 | 14 => (true, &[true], false, false),  // another view asked first
            15 => (false, &[false], false, false),     // dropped, nothing else
            _ => (false, &[true], false, false),       // delta chain without a full request
        };
        self.stats.push(format!("delta-shape-{}:1", match shape { 0..=6 => "lockstep", 7..=9 => "other-view-after", 10 | 11 => "dropped", 12 => "dropped-reasked", 13 | 14 => "other-view-first", 15 => "dropped-only", _ => "chain" }));
        let td = json!({"uri": self.uri});
        let mut evs: Vec<TokEv> = Vec::new();
        let mut cur: Option<Vec<u32>> = None;
        if full_first {
            if let Some(h) = self.tok_full()? {
                cur = Some(h.data.clone());
                evs.push(TokEv::Full(h.data));
            }
        }
        for &consume in deltas {
            let Some(base) = self.held.clone() else { break };
            let ans = self.l.request(
                "textDocument/semanticTokens/full/delta",
                json!({"textDocument": td, "previousResultId": base.id}),
            )?;
            if ans.is_null() {
                self.lines.push("# oracle tokens-delta FAIL null answer for a document the server tracks".into());
                self.held = None;
                return Ok(());
            }
            let req = self.tok_reqs;
            self.tok_reqs += 1;
            let mut applied = Some(base.data.clone());
            let shown;
            if let Some(edits) = ans.get("edits").and_then(Value::as_array) {
                let mut parts = Vec::new();
                for e in edits {
                    let start = e["start"].as_u64().unwrap_or(0) as usize;
                    let del = e["deleteCount"].as_u64().unwrap_or(0) as usize;
                    let data = u32s(&e["data"]);
                    parts.push(format!("{start} {del} {}", csv(&data)));
                    applied = match applied {
                        Some(mut now) if start <= now.len() && start + del <= now.len() => {
                            now.splice(start..start + del, data);
                            Some(now)
                        }
                        _ => None,
                    };
                }
                shown = if parts.is_empty() { "none".to_string() } else { parts.join(" ; ") };
                self.stats.push("delta-answers-edits:1".into());
            } else {
                applied = Some(u32s(&ans["data"]));
                shown = "full".into();
                self.stats.push("delta-answers-full:1".into());
            }
            if consume {
                let id = ans.get("resultId").and_then(Value::as_str).map(str::to_string);
                self.held = match (id, &applied) {
                    (Some(id), Some(now)) => Some(Held { id, req, data: now.clone() }),
                    _ => None,
                };
            } else {
                self.stats.push("delta-answers-dropped:1".into());
            }
            evs.push(TokEv::Delta { base_req: base.req, shown, applied, base_len: base.data.len() });
        }
        if full_after {
            if let Some(h) = self.tok_full()? {
                cur = Some(h.data.clone());
                evs.push(TokEv::Full(h.data.clone()));
                if adopt {
                    self.held = Some(h);
                }
            }
        }
        // without a full answer at this text the chain is judged by a later refresh (the last
        // refresh of a session is always a verified one)
        let verified = cur.is_some();
        if !verified {
            self.stats.push("delta-steps-unverified:1".into());
            cur = evs.iter().rev().find_map(|e| match e {
                TokEv::Delta { applied: Some(a), .. } => Some(a.clone()),
                _ => None,
            });
        }
        for e in evs {
            match e {
                TokEv::Full(data) => self.lines.push(format!("tokf {}", csv(&data))),
                TokEv::Delta { base_req, shown, applied, base_len } => {
                    match (&applied, &cur) {
                        (None, _) => self.lines.push(format!(
                            "# oracle tokens-delta FAIL an edit ({shown}) lies outside the {base_len} numbers of the result the request named (request #{base_req})"
                        )),
                        (Some(now), Some(want)) if verified && now != want => self.lines.push(format!(
                            "# oracle tokens-delta FAIL base=request#{base_req} ({} tokens) answer=[{}] gives {} tokens, the full answer for the current text has {}",
                            base_len / 5,
                            if shown.len() > 120 { &shown[..120] } else { &shown },
                            now.len() / 5,
                            want.len() / 5
                        )),
                        (Some(_), Some(want)) if verified => self.lines.push(format!("# oracle tokens-delta ok n={}", want.len() / 5)),
                        _ => {}
                    }
                    if let Some(want) = &cur {
                        // tie of the cache protocol and of `semantic_tokens_delta_edits` to the model
                        self.lines.push(format!("tokd {base_req} {}", csv(want)));
                        self.lines.push(format!("impl {shown}"));
                        self.stats.push("delta-ops:1".into());
                    }
                }
            }
        }
        Ok(())
    }
    /// The editor pulls diagnostics (`textDocument/diagnostic`) naming the result id it holds for
    /// the URI — also across close / re-open — and keeps what it shows when the server answers
    /// `unchanged`.  Oracle: what it shows then is what a pull that names no previous result
    /// answers for the current text (and, at the end, what a fresh server answers).
    fn diag_step(&mut self, r: &mut Rng, force: bool) -> Result<(), String> {
        if !self.pull || self.server.is_none() || matches!(self.ed, EdState::Closed) {
            return Ok(());
        }
        if !force && !r.chance(1, 2) {
            return Ok(());
        }
        let anonymous = !force && r.chance(1, 8);
        let prev = match &self.diag_held {
            Some((id, _)) if !anonymous => Some(id.clone()),
            _ => None,
        };
        let mut params = json!({"textDocument": {"uri": self.uri}});
        if let Some(p) = &prev {
            params["previousResultId"] = json!(p);
        }
        let ans = self.l.request("textDocument/diagnostic", params)?;
        match ans.get("kind").and_then(Value::as_str) {
            Some("unchanged") => {
                self.stats.push("pull-unchanged:1".into());
                let Some((_, shown)) = self.diag_held.clone().filter(|_| prev.is_some()) else {
                    self.lines.push("# oracle pull-unchanged FAIL answered unchanged to a pull that names no previous result".into());
                    return Ok(());
                };
                let reference =
                    canon(&self.l.request("textDocument/diagnostic", json!({"textDocument": {"uri": self.uri}}))?);
                if reference.get("items") == Some(&shown) {
                    self.lines.push(format!("# oracle pull-unchanged ok n={}", shown.as_array().map(Vec::len).unwrap_or(0)));
                } else {
                    self.lines.push(format!(
                        "# oracle pull-unchanged FAIL previousResultId={} answered unchanged; the editor keeps showing={} current-text={}",
                        prev.unwrap_or_default(),
                        short(&shown),
                        short(reference.get("items").unwrap_or(&Value::Null))
                    ));
                }
                if let (Some(id), Some(h)) = (ans.get("resultId").and_then(Value::as_str), self.diag_held.as_mut()) {
                    h.0 = id.to_string();
                }
            }
            Some("full") => {
                self.stats.push("pull-full:1".into());
                let items = canon(ans.get("items").unwrap_or(&Value::Null));
                self.diag_held = ans.get("resultId").and_then(Value::as_str).map(|id| (id.to_string(), items));
            }
            _ => {
                self.stats.push("pull-other:1".into());
                self.diag_held = None;
            }
        }
        Ok(())
    }
    fn open(&mut self, text: &str, version: i32) -> Result<(), String> {
        self.l.notify(
            "textDocument/didOpen",
            json!({"textDocument": {"uri": self.uri, "languageId": "structured-text", "version": version, "text": text}}),
        )?;
        self.lines.push(format!("open {version} {}", hex(text.as_bytes())));
        self.ed = match self.ed {
            EdState::Closed => EdState::Open(Editor::from_str(text), version),
            _ => EdState::Undefined,
        };
        self.gen_buf = Editor::from_str(text);
        self.lone_cr_seen |= self.gen_buf.has_lone_cr();
        self.observe()
    }
    fn close(&mut self) -> Result<(), String> {
        self.l.notify("textDocument/didClose", json!({"textDocument": {"uri": self.uri}}))?;
        self.lines.push("close".into());
        self.ed = match self.ed {
            EdState::Open(..) => EdState::Closed,
            _ => EdState::Undefined,
        };
        self.stats.push("ev-close:1".into());
        self.observe()
    }
    /// One `didChange`; `quiet`: the state after it is not observed (burst).
    fn change(&mut self, changes: &[Chg], version: i32, quiet: bool) -> Result<(), String> {
        self.l.notify(
            "textDocument/didChange",
            json!({"textDocument": {"uri": self.uri, "version": version},
                   "contentChanges": changes.iter().map(Chg::to_json).collect::<Vec<_>>()}),
        )?;
        let ops = changes.iter().map(Chg::to_op).collect::<Vec<_>>().join(" ");
        self.stats.push(format!("changes-per-notification-{}:1", changes.len()));
        // the guard of the agreement theorems (`Spec.lfChanges`): every intermediate buffer that a
        // ranged change of this notification addresses, not only the buffer after the notification
        if let EdState::Open(e, _) = &self.ed {
            let mut scratch = e.clone();
            for c in changes {
                if matches!(c, Chg::Range { .. }) && scratch.has_lone_cr() {
                    self.lone_cr_seen = true;
                }
                if !editor_apply(&mut scratch, std::slice::from_ref(c)) {
                    break;
                }
            }
        }
        self.ed = match std::mem::replace(&mut self.ed, EdState::Undefined) {
            EdState::Open(mut e, _) => {
                if editor_apply(&mut e, changes) {
                    EdState::Open(e, version)
                } else {
                    EdState::Undefined
                }
            }
            _ => EdState::Undefined,
        };
        if let EdState::Open(e, _) = &self.ed {
            self.lone_cr_seen |= e.has_lone_cr();
        }
        if quiet {
            self.lines.push(format!("chgq {version} {} {ops}", changes.len()).trim_end().to_string());
            if let EdState::Open(e, _) = &self.ed {
                self.gen_buf = e.clone();
            }
            return Ok(());
        }
        self.lines.push(format!("chg {version} {} {ops}", changes.len()).trim_end().to_string());
        self.observe()?;
        // next change is generated against the editor's buffer, or, once the editor-side
        // specification is undefined, against the server's text
        if let EdState::Open(e, _) = &self.ed {
            self.gen_buf = e.clone();
        } else if let Some((t, _)) = &self.server {
            self.gen_buf = Editor::from_str(t);
        }
        Ok(())
    }
    fn watched(&mut self, changes: &[(String, u8)]) -> Result<(), String> {
        let arr: Vec<Value> = changes.iter().map(|(u, t)| json!({"uri": u, "type": t})).collect();
        self.l.notify("workspace/didChangeWatchedFiles", json!({ "changes": arr }))?;
        // several events for one file in one notification: the server reads the disk when it
        // handles each of them, so what is observable is the effect of the last one
        let pending = std::mem::take(&mut self.pending);
        for (k, (id, op)) in pending.iter().enumerate() {
            if pending[k + 1..].iter().any(|(later, _)| later == id) {
                continue;
            }
            self.observe_at(*id, op)?;
        }
        Ok(())
    }
    /// A change of a sibling file on disk that rides in the same watcher notification.
    fn sibling_event(&mut self, r: &mut Rng) -> Option<(String, u8)> {
        let ws = self.ws.as_mut()?;
        let sibs = ws.siblings();
        let id = *r.pick(&sibs);
        let uri = ws.uri(id);
        if ws.files[id].is_some() && r.chance(1, 3) {
            ws.delete(id);
            self.pending.push((id, "wdel".into()));
            self.stats.push("ev-sibling-deleted:1".into());
            Some((uri, 3))
        } else {
            let existed = ws.files[id].is_some();
            let text = sibling_text(id - 1, r.below(9));
            ws.write(id, &text);
            self.pending.push((id, format!("wchg {}", hex(text.as_bytes()))));
            self.stats.push("ev-sibling-written:1".into());
            Some((uri, if existed { 2 } else { 1 }))
        }
    }
    /// `workspace/willRenameFiles` + the move on disk + `workspace/didRenameFiles` (+ the
    /// watcher's DELETED/CREATED pair): the document is followed to URI number `to`.
    fn rename(&mut self, to: usize, will: bool, watcher: bool, r: &mut Rng) -> Result<(), String> {
        let (old, old_uri, new_uri) = {
            let ws = self.ws.as_ref().expect("workspace case");
            (ws.cur, ws.uri(ws.cur), ws.uri(to))
        };
        if old == to {
            return Ok(());
        }
        let files = json!({"files": [{"oldUri": old_uri, "newUri": new_uri}]});
        if will && self.server.is_some() {
            let ans = self.l.request("workspace/willRenameFiles", files.clone())?;
            // the answer renames the POU inside the still open buffer: its positions are positions
            // of the editor's text, and the editor applies it
            let mut edits: Vec<(u32, u32, u32, u32, String)> = Vec::new();
            let mut collect = |arr: &Value| {
                for e in arr.as_array().into_iter().flatten() {
                    let rg = &e["range"];
                    if let (Some(a), Some(b), Some(c), Some(d), Some(t)) = (
                        rg["start"]["line"].as_u64(),
                        rg["start"]["character"].as_u64(),
                        rg["end"]["line"].as_u64(),
                        rg["end"]["character"].as_u64(),
                        e["newText"].as_str(),
                    ) {
                        edits.push((a as u32, b as u32, c as u32, d as u32, t.to_string()));
                    }
                }
            };
            if let Some(ch) = ans.get("changes").and_then(|c| c.get(&old_uri)) {
                collect(ch);
            }
            for dc in ans.get("documentChanges").and_then(Value::as_array).into_iter().flatten() {
                if dc["textDocument"]["uri"].as_str() == Some(old_uri.as_str()) {
                    collect(&dc["edits"]);
                }
            }
            self.stats.push(format!("will-rename-edits:{}", edits.len()));
            if let (EdState::Open(e, v), false) = (&self.ed, edits.is_empty()) {
                let bad = edits.iter().find(|x| {
                    let (a, b) = (e.offset(x.0, x.1), e.offset(x.2, x.3));
                    !matches!((a, b), (Some(p), Some(q)) if p <= q && e.boundary(p) && e.boundary(q))
                });
                match bad {
                    Some(x) => self.lines.push(format!("# oracle positions-will-rename FAIL ({},{})-({},{})", x.0, x.1, x.2, x.3)),
                    None => {
                        self.lines.push(format!("# oracle positions-will-rename ok n={}", edits.len()));
                        // text edits of one answer refer to the same text: apply from the end
                        edits.sort_by(|x, y| (y.0, y.1).cmp(&(x.0, x.1)));
                        let changes: Vec<Chg> = edits
                            .iter()
                            .map(|x| Chg::Range { sl: x.0, sc: x.1, el: x.2, ec: x.3, text: x.4.clone() })
                            .collect();
                        let version = v.wrapping_add(1);
                        self.change(&changes, version, false)?;
                    }
                }
            }
        }
        // the client moves the file, then tells the server
        let disk_new = {
            let ws = self.ws.as_mut().expect("workspace case");
            if ws.files[old].is_some() {
                std::fs::rename(ws.path(old), ws.path(to)).expect("move file");
                ws.files[to] = ws.files[old].take();
            }
            ws.cur = to;
            ws.files[to].clone()
        };
        self.l.notify("workspace/didRenameFiles", files)?;
        self.uri = new_uri.clone();
        // a renamed document is a new document for the editor's per-URI bookkeeping
        self.held = None;
        self.diag_held = None;
        self.lines.push(format!("ren {to} {}", disk_new.as_ref().map(|t| hex(t.as_bytes())).unwrap_or_else(|| "!".into())));
        self.stats.push(format!("ev-rename{}:1", if matches!(self.ed, EdState::Open(..)) { "-open" } else { "-closed" }));
        if to == 1 || to == 2 {
            self.stats.push("ev-rename-onto-sibling:1".into());
        }
        self.observe()?;
        self.observe_at(old, "peek")?;
        if watcher {
            // what the file watcher makes of the move
            // (ops are queued in the order of the events on the wire)
            self.pending.push((old, "wdel".into()));
            let with = if r.chance(1, 4) { self.sibling_event(r) } else { None };
            let mut ev = vec![(old_uri, 3u8), (new_uri, 1u8)];
            ev.extend(with);
            self.watched(&ev)?;
            self.lines.push(format!("wchg {}", disk_new.map(|t| hex(t.as_bytes())).unwrap_or_else(|| "!".into())));
            self.observe()?;
        }
        Ok(())
    }
    /// Somebody rewrites the document's file; the watcher reports it.
    fn rewrite(&mut self, text: &str, with: Option<(String, u8)>) -> Result<(), String> {
        let ws = self.ws.as_mut().expect("workspace case");
        let typ = if ws.main().is_some() { 2 } else { 1 };
        ws.write_main(text);
        let mut ev = vec![(self.uri.clone(), typ)];
        ev.extend(with);
        self.watched(&ev)?;
        self.lines.push(format!("wchg {}", hex(text.as_bytes())));
        self.stats.push("ev-main-rewritten:1".into());
        if matches!(&self.ed, EdState::Open(e, _) if e.text() != text) {
            self.stats.push("ev-main-rewritten-while-open-and-different:1".into());
        }
        self.observe()
    }
    fn delete(&mut self, with: Option<(String, u8)>) -> Result<(), String> {
        self.ws.as_mut().expect("workspace case").delete_main();
        let mut ev = vec![(self.uri.clone(), 3)];
        ev.extend(with);
        self.watched(&ev)?;
        self.lines.push("wdel".into());
        self.stats.push("ev-main-deleted:1".into());
        if matches!(self.ed, EdState::Open(..)) {
            self.deleted_while_open = true;
            self.stats.push("ev-main-deleted-while-open:1".into());
        }
        self.observe()
    }
    /// A CHANGED event although the file is not there.
    fn spurious(&mut self) -> Result<(), String> {
        let ws = self.ws.as_mut().expect("workspace case");
        if ws.main().is_some() {
            let text = ws.main().clone().unwrap();
            self.watched(&[(self.uri.clone(), 2)])?;
            self.lines.push(format!("wchg {}", hex(text.as_bytes())));
        } else {
            self.watched(&[(self.uri.clone(), 2)])?;
            self.lines.push("wchg !".into());
        }
        self.stats.push("ev-main-spurious:1".into());
        self.observe()
    }
    /// The editor saves: buffer -> disk, `didSave`, then (usually) the watcher's event.
    fn save(&mut self, watcher: bool) -> Result<(), String> {
        let EdState::Open(e, _) = &self.ed else { return Ok(()) };
        let text = e.text();
        let ws = self.ws.as_mut().expect("workspace case");
        let typ = if ws.main().is_some() { 2 } else { 1 };
        ws.write_main(&text);
        self.l.notify("textDocument/didSave", json!({"textDocument": {"uri": self.uri}, "text": text}))?;
        self.lines.push("save".into());
        self.stats.push("ev-save:1".into());
        self.observe()?;
        if watcher {
            self.watched(&[(self.uri.clone(), typ)])?;
            self.lines.push(format!("wchg {}", hex(text.as_bytes())));
            self.observe()?;
        }
        Ok(())
    }
    fn token_tie(&mut self, pull: bool, r: &mut Rng) -> Result<(), String> {
        // another view asks for full tokens: the server's newest result is no longer the one
        // the delta client holds
        if let Some((t, _)) = self.server.clone() {
            let a = ask_all(&mut self.l, &self.uri, pull)?;
            self.note_full(&a.tokens);
            token_ops(self.lines, self.stats, &t, &a, r);
        }
        Ok(())
    }
}

fn session(
    bin: &str,
    n: u64,
    plan: &Plan,
    root: Option<&std::path::Path>,
    r: &mut Rng,
    lines: &mut Vec<String>,
    stats: &mut Vec<String>,
) -> Result<(), String> {
    // the workspace as the server finds it
    let mut ws = None;
    if let (Some(root), Some(disk)) = (root, &plan.disk) {
        let mut w = Ws { root: root.to_path_buf(), files: vec![None; NAMES.len()], cur: 0 };
        if let Some(text) = disk {
            w.write_main(text);
        }
        for id in [1usize, 2] {
            if plan.fixed.is_some() || r.chance(3, 4) {
                let text = sibling_text(id - 1, if plan.fixed.is_some() { 0 } else { r.below(9) });
                w.write(id, &text);
            }
        }
        ws = Some(w);
    }
    let uri = match &ws {
        Some(w) => w.uri(0),
        None => format!("file:///c14/case{n}.st"),
    };
    let root_str = root.map(|p| p.display().to_string());
    let l = lsp::Lsp::start(bin, plan.pull, root_str.as_deref())?;
    let mut s = Sess {
        l,
        uri: uri.clone(),
        lines,
        stats,
        ed: EdState::Closed,
        server: None,
        gen_buf: Editor::from_str(&plan.text),
        ws,
        lone_cr_seen: false,
        deleted_while_open: false,
        pending: Vec::new(),
        delta: plan.delta,
        held: None,
        tok_reqs: 0,
        fixed_shapes: plan.fixed.is_some(),
        shape_no: 0,
        pull: plan.pull,
        diag_held: None,
    };
    let result = drive(bin, plan, root_str.as_deref(), r, &mut s);
    s.l.shutdown();
    result
}

fn drive(bin: &str, plan: &Plan, root: Option<&str>, r: &mut Rng, s: &mut Sess) -> Result<(), String> {
    let mut version = plan.version;
    // what the start-up indexing pass made of the document's file
    if let Some(Some(disk)) = &plan.disk {
        s.lines.push(format!("wchg {}", hex(disk.as_bytes())));
        s.observe()?;
    }
    if let Some(w) = &s.ws {
        let sib: Vec<(usize, String)> =
            w.siblings().into_iter().filter_map(|id| w.files[id].clone().map(|t| (id, t))).collect();
        for (id, text) in sib {
            s.observe_at(id, &format!("wchg {}", hex(text.as_bytes())))?;
        }
    }
    s.open(&plan.text, version)?;
    s.delta_step(r, false)?;
    s.diag_step(r, true)?;
    // a preview: the buffer is closed again right away and the URI opened with another text (the
    // file changed outside, or the preview showed another revision), numbered from the same
    // version once more
    if plan.fixed.is_none() && !plan.burst && r.chance(1, 8) {
        s.close()?;
        let mut kd: &'static str = "";
        let text = match r.below(3) {
            0 => format!("{}(* other revision {} *)\nzz := undefined_in_revision;\n", plan.text, uni1(r, plan.cat)),
            _ => gen_text(r, plan.cat, plan.eol, &mut kd),
        };
        if s.ws.is_some() && r.bool() {
            s.rewrite(&text, None)?;
        }
        if r.chance(1, 4) {
            version = version.wrapping_add(1);
        }
        s.open(&text, version)?;
        s.stats.push("ev-reopen-preview:1".into());
        s.delta_step(r, false)?;
        s.diag_step(r, true)?;
    }
    let mut nontrivial = false;
    let mut astral = false;
    let mut after_undefined = 0;
    let workspace = s.ws.is_some();

    for k in 0..plan.notes {
        if let Some(steps) = &plan.fixed {
            match &steps[k as usize] {
                Step::Change(c) => {
                    version += 1;
                    s.change(c, version, false)?;
                }
                Step::Save => s.save(true)?,
                Step::Rewrite(t) => s.rewrite(t, None)?,
                Step::Delete => s.delete(None)?,
                Step::Spurious => s.spurious()?,
                Step::Close => s.close()?,
                Step::Open(t) => {
                    version += 1;
                    s.open(t, version)?;
                }
                Step::OpenAt(v, t) => {
                    version = *v;
                    s.open(t, version)?;
                }
                Step::Rename(to) => {
                    s.rename(*to, true, true, r)?;
                    if let EdState::Open(_, v) = &s.ed {
                        version = *v;
                    }
                }
            }
            s.delta_step(r, false)?;
            s.diag_step(r, true)?;
            continue;
        }
        // once the editor-side specification is undefined only the model tie is left: two more
        // notifications (does a rejected change leave the document usable?) and stop
        if matches!(s.ed, EdState::Undefined) {
            after_undefined += 1;
            if after_undefined > 2 && !plan.burst {
                break;
            }
        }
        // what happens to the files behind the editor's back, and saving
        if workspace && r.chance(1, 3) {
            let with = if r.chance(1, 3) { s.sibling_event(r) } else { None };
            let open = matches!(s.ed, EdState::Open(..));
            match r.below(20) {
                0..=7 => {
                    // another tool rewrites the file: a variant of the buffer, or something else
                    let mut kd: &'static str = "";
                    let text = match r.below(3) {
                        0 => gen_text(r, plan.cat, plan.eol, &mut kd),
                        1 => format!("{}(* rewritten on disk {} *)\n", s.gen_buf.text(), uni1(r, plan.cat)),
                        _ => format!("(* 😀 *) PROGRAM OnDisk{}\nVAR q : INT; END_VAR\nq := undefined_on_disk;\nEND_PROGRAM\n", r.below(9)),
                    };
                    s.rewrite(&text, with)?;
                }
                8..=12 => {
                    // every change on disk is reported by the watcher
                    if let Some(ev) = with {
                        s.watched(&[ev])?;
                    }
                    if open {
                        s.save(r.chance(4, 5))?;
                        // a formatter / generator run on save rewrites the file right away
                        if r.chance(1, 3) {
                            let text = format!("{}(* touched after save {} *)\n", s.gen_buf.text(), r.below(99));
                            s.rewrite(&text, None)?;
                        }
                    } else {
                        s.spurious()?;
                    }
                }
                13 => {
                    if let Some(ev) = with {
                        s.watched(&[ev])?;
                    }
                    s.spurious()?
                }
                14 | 17 => {
                    if let Some(ev) = with {
                        s.watched(&[ev])?;
                    }
                    // the file is renamed: to a new name, back, or onto the path of a sibling
                    let cur = s.ws.as_ref().map(|w| w.cur).unwrap_or(0);
                    let to = *r.pick(&[0usize, 3, 3, 4, 1, 2]);
                    if to != cur {
                        s.rename(to, r.chance(2, 3), r.chance(3, 4), r)?;
                        if let EdState::Open(_, v) = &s.ed {
                            version = *v;
                        }
                    }
                }
                15 | 16 => {
                    // deleting the file, also while the document is open (the buffer outlives it)
                    if s.ws.as_ref().is_some_and(|w| w.main().is_some()) && (!open || r.chance(3, 4)) {
                        s.delete(with)?;
                    } else if let Some(ev) = with {
                        s.watched(&[ev])?;
                    }
                }
                _ => {
                    // only sibling files change
                    let ev: Vec<(String, u8)> = with.into_iter().chain(s.sibling_event(r)).collect();
                    if !ev.is_empty() {
                        s.watched(&ev)?;
                        // the document itself must not move
                        s.lines.push("wchg !".into());
                        s.observe()?;
                    }
                }
            }
            if r.chance(1, 3) {
                s.token_tie(plan.pull, r)?;
            }
            s.delta_step(r, false)?;
            s.diag_step(r, false)?;
        }
        // close / re-open now and then
        if r.chance(1, if workspace { 15 } else { 40 }) {
            s.close()?;
            // a closed document takes the disk text
            if workspace && r.chance(1, 2) {
                let mut kd: &'static str = "";
                let text = gen_text(r, plan.cat, plan.eol, &mut kd);
                s.rewrite(&text, None)?;
            }
            if r.chance(7, 8) {
                let mut kd: &'static str = "";
                // re-open: the file's content (what an editor shows), the old buffer, or a new text
                let text = match (r.below(3), s.ws.as_ref().and_then(|w| w.main().clone())) {
                    (0, Some(disk)) | (1, Some(disk)) => disk,
                    (0, None) => s.gen_buf.text(),
                    _ => gen_text(r, plan.cat, plan.eol, &mut kd),
                };
                // every newly opened buffer is numbered from 1 again; or the old numbering goes on
                version = match r.below(4) {
                    0 | 1 => 1,
                    2 => version,
                    _ => version.wrapping_add(1),
                };
                s.open(&text, version)?;
                s.stats.push("ev-reopen:1".into());
                s.delta_step(r, false)?;
                s.diag_step(r, true)?;
            } else {
                s.stats.push("ev-change-after-close:1".into());
            }
        }
        // one didChange notification
        let mut changes: Vec<Chg> = Vec::new();
        let nch = if r.chance(1, 300) { 0 } else if r.chance(7, 10) { 1 } else { 2 + r.below(3) };
        let mut scratch = s.gen_buf.clone();
        for _ in 0..nch {
            let (c, validity, kind) = if (plan.runs && r.chance(2, 3)) || (plan.delta && r.chance(1, 8)) {
                let (c, kind) = gen_line_change(r, &scratch);
                (c, Validity::Valid, kind)
            } else {
                gen_change(r, &scratch, plan.cat, plan.eol, !plan.burst)
            };
            s.stats.push(format!("{kind}:1"));
            let stop = validity != Validity::Valid;
            if let Chg::Range { sl, sc, .. } = &c {
                if validity == Validity::Valid {
                    if let Some((st, _, _)) = scratch.lines().get(*sl as usize) {
                        let before = &scratch.u[*st..*st + *sc as usize];
                        if before.iter().any(|&x| x >= 0x80) {
                            nontrivial = true;
                        }
                        if before.iter().any(|&x| (0xD800..0xE000).contains(&x)) {
                            astral = true;
                        }
                    }
                }
            }
            let ok = editor_apply(&mut scratch, std::slice::from_ref(&c));
            changes.push(c);
            if stop || !ok {
                break;
            }
        }
        version = match r.below(12) {
            0 => version,
            1 => version.wrapping_add(1 + r.below(1000) as i32),
            _ => version.wrapping_add(1),
        };
        let quiet = plan.burst && k + 1 < plan.notes;
        s.change(&changes, version, quiet)?;
        if quiet {
            continue;
        }
        s.delta_step(r, false)?;
        s.diag_step(r, false)?;
        // mid-session token tie now and then
        if r.chance(1, 8) {
            s.token_tie(plan.pull, r)?;
        }
    }
    // half of the workspace histories end with a disk event, so that the final answers are asked
    // while the file and the buffer differ and no edit has come since
    if workspace && plan.fixed.is_none() && matches!(s.ed, EdState::Open(..)) && r.chance(1, 2) {
        let text = format!("(* 😀 *) PROGRAM OnDiskLast\nVAR q : INT; END_VAR\nq := undefined_on_disk_{};\nEND_PROGRAM\n", r.below(9));
        let with = if r.chance(1, 3) { s.sibling_event(r) } else { None };
        s.rewrite(&text, with)?;
    }
    if nontrivial {
        s.lines.push("tag nontrivial".into());
    }
    if astral {
        s.lines.push("tag astral-before-edit".into());
    }
    if s.lone_cr_seen {
        s.lines.push("tag lonecr-seen".into());
    }
    if s.deleted_while_open {
        s.lines.push("tag deleted-while-open".into());
    }

    // ---- end of history: answers of the incremental session ------------------------------------
    let Some((server_text, server_version)) = s.server.clone() else { return Ok(()) };
    // the last refresh of the delta client is a verified one (it judges a chain of deltas that no
    // full answer has confirmed yet), the last pull names the result the editor holds
    s.delta_step(r, true)?;
    s.diag_step(r, true)?;
    let inc = ask_all(&mut s.l, &s.uri, plan.pull)?;
    s.note_full(&inc.tokens);
    token_ops(s.lines, s.stats, &server_text, &inc, r);
    // the reference text: the editor's buffer; the server's own text once the editor-side
    // specification is undefined or the editor has closed the document (then only the
    // statelessness of the analysis is checked)
    let reference = match &s.ed {
        EdState::Open(e, _) => e.clone(),
        _ => Editor::from_str(&server_text),
    };
    let differs = match &s.ed {
        EdState::Open(e, v) => e.text() != server_text || *v as i64 != server_version,
        _ => false,
    };
    if differs {
        // already reported by `ed=differ`; every answer oracle would only repeat it
        s.lines.push("# oracle answers skipped text-differs".into());
        return Ok(());
    }
    if reference.has_lone_cr() {
        s.lines.push("# oracle answers skipped lone-cr".into());
    } else {
        answer_oracles(s.lines, s.stats, &reference, &inc);
        let uri = s.uri.clone();
        position_request_oracles(&mut s.l, &uri, s.lines, s.stats, &reference, &inc, r)?;
    }
    // ---- fresh server: same files on disk, the reference text in one didOpen -------------------
    if let Some(root) = root {
        // the incremental server is done; its index cache must not feed the fresh one
        s.l.shutdown();
        let _ = std::fs::remove_dir_all(std::path::Path::new(root).join(".trust-lsp"));
    }
    let mut f = lsp::Lsp::start(bin, plan.pull, root)?;
    let fres = (|| -> Result<Answers, String> {
        f.notify(
            "textDocument/didOpen",
            json!({"textDocument": {"uri": s.uri, "languageId": "structured-text", "version": server_version, "text": reference.text()}}),
        )?;
        ask_all(&mut f, &s.uri, plan.pull)
    })();
    f.stop();
    let fresh = fres?;
    let mut pairs = vec![
        ("symbols", &inc.symbols, &fresh.symbols),
        ("tokens", &inc.tokens, &fresh.tokens),
        ("diagnostics", &inc.diagnostics, &fresh.diagnostics),
        ("formatting", &inc.formatting, &fresh.formatting),
    ];
    for ((name, x), (_, y)) in inc.extras.iter().zip(fresh.extras.iter()) {
        pairs.push((*name, x, y));
    }
    // what the pull-diagnostics client shows (it kept its items over every `unchanged` answer)
    if let (Some((_, shown)), true) = (&s.diag_held, matches!(s.ed, EdState::Open(..))) {
        if fresh.diagnostics.get("items") == Some(shown) {
            s.lines.push("# oracle fresh-pull-client ok".into());
        } else {
            s.lines.push(format!(
                "# oracle fresh-pull-client FAIL editor-shows={} fresh={}",
                short(shown),
                short(fresh.diagnostics.get("items").unwrap_or(&Value::Null))
            ));
        }
    }
    for (name, x, y) in pairs {
        if x == y {
            s.lines.push(format!("# oracle fresh-{name} ok"));
        } else {
            s.lines.push(format!("# oracle fresh-{name} FAIL incremental={} fresh={}", short(x), short(y)));
        }
    }
    Ok(())
}

pub fn run(args: &Args) -> i32 {
    let bin = args
        .extra
        .get("lsp")
        .cloned()
        .or_else(|| std::env::var("VERIF_LSP_BIN").ok())
        .unwrap_or_else(|| {
            // <root>/.build/cargo/debug/vharness -> <root>/.build/lsp/debug/trust-lsp
            let exe = std::env::current_exe().expect("current_exe");
            exe.parent()
                .and_then(|p| p.parent())
                .and_then(|p| p.parent())
                .map(|p| p.join("lsp").join("debug").join("trust-lsp"))
                .expect("layout")
                .to_string_lossy()
                .to_string()
        });
    if !std::path::Path::new(&bin).exists() {
        eprintln!("trust-lsp binary not found at {bin}");
        return 2;
    }
    let jobs = args.extra_usize("jobs", 4).max(1);
    let max_notes = args.extra_usize("notes", 15) as u64;
    let numbers = args.case_numbers();
    let seed = args.seed;
    let t0 = std::time::Instant::now();
    let mut results: Vec<(u64, CaseOut)> = std::thread::scope(|s| {
        let mut handles = Vec::new();
        for j in 0..jobs {
            let mine: Vec<u64> = numbers.iter().copied().skip(j).step_by(jobs).collect();
            let bin = bin.clone();
            handles.push(s.spawn(move || {
                mine.into_iter().map(|n| (n, run_case(&bin, seed, n, max_notes))).collect::<Vec<_>>()
            }));
        }
        handles.into_iter().flat_map(|h| h.join().expect("worker")).collect()
    });
    results.sort_by_key(|(n, _)| *n);
    let mut out = Out::new();
    let mut errors = 0;
    for (_, c) in &results {
        for l in &c.lines {
            out.line(l);
        }
        for s in &c.stats {
            match s.rsplit_once(':') {
                Some((k, v)) => out.add(k, v.parse().unwrap_or(1)),
                None => out.count(s),
            }
        }
        if c.error.is_some() {
            errors += 1;
        }
    }
    out.add("sessions-with-transport-error", errors);
    out.finish(&args.out);
    eprintln!(
        "c14: {} cases in {:.1}s ({} transport errors)",
        results.len(),
        t0.elapsed().as_secs_f64(),
        errors
    );
    0
}
