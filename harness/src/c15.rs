//! C15 — formatting never changes the program and is idempotent.
//!
//! Runs the REAL formatters on generated texts × configurations:
//!   * `trust-lsp` (binary, driven over stdio): `textDocument/formatting`, `rangeFormatting`,
//!     `onTypeFormatting`; the configuration goes through `workspace/didChangeConfiguration`
//!     (client settings), the LSP `FormattingOptions` and `trust-lsp.toml` (vendor profile) exactly
//!     the way the server reads them;
//!   * the web IDE formatter through `WebIdeState::format_source`.
//! For every operation the reply is written as an `impl` line (compared with the Lean model) and the
//! property's own statement is evaluated on the implementation's output with `trust_syntax::lex`
//! (`# oracle {json}` lines, read by checks/c15.py).  Case 0 validates the class-level pair-safety
//! table of the model against the real lexer.

use crate::rng::Rng;
use crate::util::{hex, Out};
use crate::Args;
use serde_json::{json, Value};
use std::collections::{BTreeMap, BTreeSet};
use std::io::{BufRead, BufReader, Write};
use std::path::{Path, PathBuf};
use std::process::{Child, ChildStdin, Command, Stdio};
use std::sync::mpsc::{channel, Receiver};
use std::time::Duration;
use trust_runtime::web::ide::{IdeRole, WebIdeState};
use trust_syntax::{lex, TokenKind};

// ---------------------------------------------------------------------------------------------
// LSP client
// ---------------------------------------------------------------------------------------------

#[derive(Debug)]
pub enum LspErr {
    Dead,
    Timeout,
    Error(String),
}

pub struct Lsp {
    child: Child,
    stdin: ChildStdin,
    rx: Receiver<Option<Value>>,
    next_id: i64,
    pub root: PathBuf,
    pub logs: Vec<String>,
}

fn read_message(r: &mut impl BufRead) -> Option<Value> {
    let mut len: Option<usize> = None;
    loop {
        let mut line = String::new();
        if r.read_line(&mut line).ok()? == 0 {
            return None;
        }
        let t = line.trim();
        if t.is_empty() {
            break;
        }
        if let Some(v) = t.to_ascii_lowercase().strip_prefix("content-length:") {
            len = v.trim().parse().ok();
        }
    }
    let mut buf = vec![0u8; len?];
    r.read_exact(&mut buf).ok()?;
    serde_json::from_slice(&buf).ok()
}

impl Lsp {
    pub fn start(bin: &Path, root: &Path, profile: Option<&str>) -> Result<Lsp, String> {
        std::fs::create_dir_all(root).map_err(|e| e.to_string())?;
        if let Some(p) = profile {
            std::fs::write(
                root.join("trust-lsp.toml"),
                format!("[project]\nvendor_profile = \"{p}\"\n"),
            )
            .map_err(|e| e.to_string())?;
        }
        // one indexed file makes the server announce the end of the workspace scan, after which the
        // workspace configuration (vendor profile) is in place
        std::fs::write(root.join("seed.st"), "PROGRAM Seed\nEND_PROGRAM\n").map_err(|e| e.to_string())?;
        let mut child = Command::new(bin)
            .stdin(Stdio::piped())
            .stdout(Stdio::piped())
            .stderr(Stdio::null())
            .spawn()
            .map_err(|e| format!("cannot start {}: {e}", bin.display()))?;
        let stdin = child.stdin.take().unwrap();
        let stdout = child.stdout.take().unwrap();
        let (tx, rx) = channel();
        std::thread::spawn(move || {
            let mut r = BufReader::new(stdout);
            loop {
                let m = read_message(&mut r);
                let end = m.is_none();
                if tx.send(m).is_err() || end {
                    break;
                }
            }
        });
        let mut lsp = Lsp {
            child,
            stdin,
            rx,
            next_id: 0,
            root: root.to_path_buf(),
            logs: Vec::new(),
        };
        let root_uri = format!("file://{}", root.display());
        lsp.request(
            "initialize",
            json!({"processId": null, "rootUri": root_uri,
                   "capabilities": {"workspace": {"diagnostic": {"refreshSupport": true}}}}),
        )
        .map_err(|e| format!("initialize failed: {e:?}"))?;
        lsp.notify("initialized", json!({}));
        let t0 = std::time::Instant::now();
        while !lsp.logs.iter().any(|l| l.contains("Indexed")) {
            if t0.elapsed() > Duration::from_secs(180) {
                return Err("the server did not report the workspace scan within 180 s".into());
            }
            match lsp.rx.recv_timeout(Duration::from_millis(200)) {
                Ok(Some(m)) => lsp.handle_incoming(m),
                Ok(None) => return Err("server exited during start".into()),
                Err(_) => {}
            }
        }
        Ok(lsp)
    }

    fn send(&mut self, v: &Value) -> bool {
        let body = serde_json::to_vec(v).unwrap();
        let head = format!("Content-Length: {}\r\n\r\n", body.len());
        self.stdin.write_all(head.as_bytes()).is_ok()
            && self.stdin.write_all(&body).is_ok()
            && self.stdin.flush().is_ok()
    }

    /// server->client requests are answered with `null`, log messages are kept
    fn handle_incoming(&mut self, m: Value) {
        if m.get("method").is_some() {
            if let Some(id) = m.get("id") {
                let _ = self.send(&json!({"jsonrpc": "2.0", "id": id, "result": null}));
            } else if m["method"] == "window/logMessage" {
                if let Some(s) = m["params"]["message"].as_str() {
                    self.logs.push(s.to_string());
                }
            }
        }
    }

    pub fn notify(&mut self, method: &str, params: Value) {
        let _ = self.send(&json!({"jsonrpc": "2.0", "method": method, "params": params}));
    }

    pub fn request(&mut self, method: &str, params: Value) -> Result<Value, LspErr> {
        self.next_id += 1;
        let id = self.next_id;
        if !self.send(&json!({"jsonrpc": "2.0", "id": id, "method": method, "params": params})) {
            return Err(LspErr::Dead);
        }
        let t0 = std::time::Instant::now();
        loop {
            match self.rx.recv_timeout(Duration::from_millis(400)) {
                Ok(Some(m)) => {
                    if m.get("method").is_none() && m.get("id").and_then(Value::as_i64) == Some(id) {
                        if let Some(e) = m.get("error") {
                            return Err(LspErr::Error(e.to_string()));
                        }
                        return Ok(m.get("result").cloned().unwrap_or(Value::Null));
                    }
                    self.handle_incoming(m);
                }
                Ok(None) => return Err(LspErr::Dead),
                Err(std::sync::mpsc::RecvTimeoutError::Timeout) => {
                    // A handler that panics unwinds the server's main thread, but the process only
                    // exits once its blocking stdin reader wakes up: poke it with a no-op notification.
                    if !self.send(&json!({"jsonrpc": "2.0", "method": "$/verifPoke", "params": {}})) {
                        return Err(LspErr::Dead);
                    }
                    if t0.elapsed() > Duration::from_secs(180) {
                        return Err(LspErr::Timeout);
                    }
                }
                Err(_) => return Err(LspErr::Dead),
            }
        }
    }

    pub fn stop(mut self) {
        let _ = self.child.kill();
        let _ = self.child.wait();
    }
}

// ---------------------------------------------------------------------------------------------
// Configurations
// ---------------------------------------------------------------------------------------------

#[derive(Clone, Debug, Default)]
pub struct Cfg {
    pub tab: u32,
    pub spaces: bool,
    pub profile: Option<String>,
    pub indent_width: Option<u64>,
    pub insert_spaces: Option<bool>,
    pub keyword_case: Option<String>,
    pub align_var: Option<bool>,
    pub align_asg: Option<bool>,
    pub max_len: Option<u64>,
    pub spacing: Option<String>,
    pub end_kw: Option<String>,
}

fn opt<T: ToString>(v: &Option<T>) -> String {
    v.as_ref().map(|x| x.to_string()).unwrap_or_else(|| "-".into())
}
fn optb(v: &Option<bool>) -> String {
    v.map(|b| if b { "1" } else { "0" }.to_string()).unwrap_or_else(|| "-".into())
}
fn opth(v: &Option<String>) -> String {
    v.as_ref().map(|s| hex(s.as_bytes())).unwrap_or_else(|| "-".into())
}

impl Cfg {
    /// inverse of `line`
    pub fn parse_line(line: &str) -> Option<Cfg> {
        let w: Vec<&str> = line.split(' ').collect();
        if w.len() != 12 || w[0] != "cfg" {
            return None;
        }
        let s = |x: &str| -> Option<Option<String>> {
            if x == "-" { Some(None) } else { String::from_utf8(crate::util::unhex(x)).ok().map(Some) }
        };
        let n = |x: &str| -> Option<Option<u64>> { if x == "-" { Some(None) } else { x.parse().ok().map(Some) } };
        let b = |x: &str| -> Option<Option<bool>> {
            match x { "-" => Some(None), "1" => Some(Some(true)), "0" => Some(Some(false)), _ => None }
        };
        Some(Cfg {
            tab: w[1].parse().ok()?,
            spaces: w[2] == "1",
            profile: s(w[3])?,
            indent_width: n(w[4])?,
            insert_spaces: b(w[5])?,
            keyword_case: s(w[6])?,
            align_var: b(w[7])?,
            align_asg: b(w[8])?,
            max_len: n(w[9])?,
            spacing: s(w[10])?,
            end_kw: s(w[11])?,
        })
    }

    pub fn line(&self) -> String {
        format!(
            "cfg {} {} {} {} {} {} {} {} {} {} {}",
            self.tab,
            if self.spaces { 1 } else { 0 },
            opth(&self.profile),
            opt(&self.indent_width),
            optb(&self.insert_spaces),
            opth(&self.keyword_case),
            optb(&self.align_var),
            optb(&self.align_asg),
            opt(&self.max_len),
            opth(&self.spacing),
            opth(&self.end_kw)
        )
    }

    /// The client settings object, through randomly chosen aliases of every key.
    pub fn settings(&self, r: &mut Rng) -> Value {
        let mut f = serde_json::Map::new();
        let mut put = |r: &mut Rng, a: &str, b: &str, v: Value| {
            f.insert(if r.bool() { a } else { b }.to_string(), v);
        };
        if let Some(v) = self.indent_width {
            put(r, "indentWidth", "indent_width", json!(v));
        }
        if let Some(v) = self.insert_spaces {
            put(r, "insertSpaces", "insert_spaces", json!(v));
        }
        if let Some(v) = &self.keyword_case {
            put(r, "keywordCase", "keyword_case", json!(v));
        }
        if let Some(v) = self.align_var {
            put(r, "alignVarDecls", "align_var_decls", json!(v));
        }
        if let Some(v) = self.align_asg {
            put(r, "alignAssignments", "align_assignments", json!(v));
        }
        if let Some(v) = self.max_len {
            put(r, "maxLineLength", "max_line_length", json!(v));
        }
        if let Some(v) = &self.spacing {
            put(r, "spacingStyle", "spacing_style", json!(v));
        }
        if let Some(v) = &self.end_kw {
            put(r, "endKeywordStyle", "end_keyword_style", json!(v));
        }
        let section = *r.pick(&["stLsp", "trust-lsp", "trust_lsp"]);
        let key = *r.pick(&["format", "formatting"]);
        json!({ section: { key: Value::Object(f) } })
    }
}

pub const PROFILES: &[Option<&str>] = &[None, Some("codesys"), Some("siemens"), Some("Mitsubishi "), Some("acme")];

pub fn gen_cfg(r: &mut Rng) -> Cfg {
    let mut c = Cfg {
        tab: *r.pick(&[4u32, 4, 2, 8, 1, 3, 0]),
        spaces: r.chance(4, 5),
        ..Default::default()
    };
    if r.chance(1, 5) {
        c.profile = r.pick(&PROFILES[1..]).map(|s| s.to_string());
    }
    if r.chance(1, 3) {
        c.indent_width = Some(*r.pick(&[0u64, 1, 2, 3, 4, 8]));
    }
    if r.chance(1, 4) {
        c.insert_spaces = Some(r.bool());
    }
    if r.chance(1, 2) {
        c.keyword_case = Some(r.pick(&["upper", "lower", "preserve", "UPPER", "Lower", "camel"]).to_string());
    }
    if r.chance(1, 3) {
        c.align_var = Some(r.bool());
    }
    if r.chance(1, 3) {
        c.align_asg = Some(r.bool());
    }
    if r.chance(1, 6) {
        c.max_len = Some(*r.pick(&[0u64, 1, 20, 30, 40, 60, 80, 120, 200]));
    }
    if r.chance(2, 5) {
        c.spacing = Some(r.pick(&["compact", "spaced", "tight", "Compact", "wide"]).to_string());
    }
    if r.chance(1, 6) {
        c.end_kw = Some(r.pick(&["indented", "aligned", "indent", "Indented", "aligned"]).to_string());
    }
    c
}

// ---------------------------------------------------------------------------------------------
// Text generators
// ---------------------------------------------------------------------------------------------

const IDENTS: &[&str] = &[
    "x", "y", "i", "n", "cnt", "Counter", "speed_1", "_tmp", "fb", "Motor", "arr", "val", "Done", "msg", "p", "E5",
    "s", "ms", "FF", "a1", "out", "in1", "state", "t1",
];
const TYPES: &[&str] = &["INT", "BOOL", "REAL", "DINT", "TIME", "STRING", "WORD", "LREAL", "TON", "MyType", "USINT"];
/// lines whose TEXT looks like code where it is not: `//`, `:=`, `=>`, `:` inside strings and comments,
/// commented-out assignments, next to real assignments (text-search helpers of a formatter trip here)
const RISKY_LINES: &[&str] = &[
    "url := 'http://plc.local/api';  // REST endpoint",
    "msg := 'see // docs'; // trailing",
    "path := \"ftp://host/a\";\t// wide",
    "// level := 0;",
    "// out => 1, gain := 2",
    "Log('gain => high');",
    "Log('level := 0, mode: auto');",
    "level := 0;",
    "gain_longer_name := 3;",
    "x:=y+1;  // x := y",
    "t1(IN := a, PT => b);  // IN := a",
    "s := 'a:b'; // c: d",
    "(* level := 0; *)",
    "Log('a, b, c => d');",
];

/// every literal class of the lexer, and strings with every character that means something elsewhere
const ALL_LITERALS: &[&str] = &[
    "TOD#12:30:00", "LTOD#15:36:55.36", "TIME_OF_DAY#01:02:03", "tod#08:00:00", "DT#2024-01-15-14:30:00",
    "LDT#1984-06-25-15:36:55.36", "DATE_AND_TIME#2024-01-15-14:30:00", "T#1h30m", "TIME#-5s", "LTIME#5m_30s", "t#5ms",
    "D#2024-01-15", "LDATE#2012-02-29", "16#FF", "2#1010_0101", "8#77", "1_000", "3.14", "1.0E10", "2.5e-3", "INT#5",
    "UINT#16#FF", "REAL#1.5", "TRUE", "'a:b'", "'x := 1'", "'k => v'", "'a,b;c'", "'// no'", "'(* no *)'", "'{p}'",
    "'it$'s'", "'100% #1 @x ^y'", "'\u{1F600}:\u{1F680}'", "\"w:x\"", "\"a$\"b\"", "%IX0.0", "%MD100",
];

/// unterminated last lines with characters outside the BMP followed by more text (UTF-16 columns)
const ASTRAL_LAST_LINES: &[&str] = &[
    "msg:='ok \u{1F600} done';n:=n+1;",
    "END_PROGRAM // \u{1F680}\u{1F680} lift-off",
    "x:=1; (* \u{1D400}\u{1D401} math *) y:=2;",
    "    s := \"w\u{1F600}w\";  // \u{1F600} tail",
];

const STRINGS: &[&str] = &[
    "'http://plc.local/api'", "'see // docs'", "'gain => high'", "'level := 0'",
    "'a'", "''", "'it$'s'", "'a:b'", "'x := 1'", "'a,b,c,d,e,f'", "'(* no comment *)'", "'// no'", "'{not pragma}'",
    "'h\u{e9}llo \u{1F600}'", "\"wide\"", "\"w$\"q\"", "'=> x'", "'a  b   c'", "'$N$L'", "'TOD#12:30:00'",
];
const LITERALS: &[&str] = &[
    "0", "1", "42", "1_000", "16#FF", "2#1010_0101", "8#77", "3.14", "1.0E10", "2.5e-3", "T#1h30m", "TIME#-5s",
    "t#5ms", "LT#14.7s", "D#2024-01-15", "DATE#2024-01-15", "TOD#14:30:00", "LTOD#15:36:55.36", "DT#2024-01-15-14:30:00",
    "TRUE", "FALSE", "INT#5", "REAL#1.5", "BOOL#1", "INT#-3", "UINT#16#FF", "%IX0.0", "%QW10", "%MD100", "NULL",
];
/// based and typed literals taken apart at the `#` (each piece is a clean token of its own)
const SPACED_TYPED: &[&str] = &[
    "16 # FF", "2 # 1010", "16# FF", "16 #FF", "8 # 77", "INT # 5", "INT# 5", "INT #5", "REAL # 1.5", "BOOL # 1", "T# 5s",
    "T # 5s", "UINT # 16 # FF", "D # 2024",
];
const BINOPS: &[&str] = &["+", "-", "*", "/", "**", "=", "<>", "<", "<=", ">", ">=", "AND", "OR", "XOR", "MOD", "&"];
const LINE_COMMENTS: &[&str] = &[
    "// level := 0;", "// gain => high, x := 1", "// see http://plc.local/api",
    "// plain", "// x := 1; (* not *)", "//", "// tr\u{e4}il \u{1F600}", "// a, b, c := 1 => 2", "// END_IF",
];
const BLOCK_COMMENTS: &[&str] = &[
    "(* c *)", "(**)", "(* a (* nested *) b *)", "/* c style */", "(* x := 1; *)", "(* , , , *)", "(* \u{1F600} *)",
    "(* IF a THEN *)",
];
const PRAGMAS: &[&str] = &["{attribute 'hide'}", "{PRAGMA}", "{ x := 1 }", "{warning 'w, x'}", "{}"];

fn is_word_char(c: char) -> bool {
    c.is_ascii_alphanumeric() || c == '_'
}

pub struct TextGen<'a> {
    pub r: &'a mut Rng,
    lines: Vec<String>,
    /// probability (in 1/100) of sloppy spacing between two tokens
    sloppy: u64,
    /// constructs that run into recorded findings are switched on per text, so that most texts are
    /// free of them and an unrelated failure is not hidden behind a known one
    multiline_comments: bool,
    typed_literals: bool,
    /// runs of 3-6 blank lines (a formatter that squeezes them must keep range / on-type edits aligned)
    blank_runs: bool,
    /// Siemens-SCL style `#name` references: a `Hash` token directly behind keywords, operators, brackets
    /// (`IF #run AND NOT #stop THEN`) - `#` is glued to both neighbours by the formatter
    hash_refs: bool,
    pub tags: BTreeSet<&'static str>,
}

impl<'a> TextGen<'a> {
    pub fn new(r: &'a mut Rng) -> Self {
        let sloppy = *r.pick(&[0u64, 10, 40, 80]);
        let multiline_comments = r.chance(1, 5);
        let typed_literals = r.chance(1, 6);
        let blank_runs = r.chance(1, 3);
        let hash_refs = r.chance(1, 4);
        TextGen { r, lines: Vec::new(), sloppy, multiline_comments, typed_literals, blank_runs, hash_refs, tags: BTreeSet::new() }
    }

    /// a variable reference: in flagged texts mostly written `#name`
    fn var(&mut self) -> String {
        let id = self.ident();
        if self.hash_refs && self.r.chance(2, 3) {
            self.tags.insert("hash-ref");
            format!("#{id}")
        } else {
            id
        }
    }

    fn ident(&mut self) -> String {
        self.r.pick(IDENTS).to_string()
    }

    fn literal(&mut self) -> String {
        if self.r.chance(1, 6) {
            self.tags.insert("string");
            self.r.pick(STRINGS).to_string()
        } else {
            if self.typed_literals && self.r.chance(1, 4) {
                // a based / typed literal written with blanks around `#`: gluing it back changes the tokens
                self.tags.insert("typed-literal");
                self.tags.insert("spaced-typed-literal");
                return self.r.pick(SPACED_TYPED).to_string();
            }
            let l = self.r.pick(LITERALS).to_string();
            // `INT#5` after a keyword is glued to it (recorded finding): only in flagged texts
            if !self.typed_literals && l.contains('#') && lex_classes(&l).len() > 1 {
                return "7".into();
            }
            if l.contains('#') && lex_classes(&l).len() > 1 {
                self.tags.insert("typed-literal");
            }
            l
        }
    }

    /// expression as a token vector
    fn expr(&mut self, depth: u32) -> Vec<String> {
        let mut t = Vec::new();
        match if depth == 0 { self.r.below(4) } else { self.r.below(10) } {
            0 | 1 => t.push(self.var()),
            2 => t.push(self.literal()),
            3 => {
                // member / index / deref access
                t.push(self.var());
                match self.r.below(4) {
                    0 => {
                        t.push(".".into());
                        t.push(self.ident());
                    }
                    1 => {
                        t.push("[".into());
                        t.extend(self.expr(0));
                        if self.r.chance(1, 3) {
                            t.push(",".into());
                            t.extend(self.expr(0));
                        }
                        t.push("]".into());
                    }
                    2 => {
                        t.push("^".into());
                        if self.r.bool() {
                            t.push(".".into());
                            t.push(self.ident());
                        }
                    }
                    _ => {
                        t.push(".".into());
                        t.push(self.r.pick(&["%X0", "%B1", "1", "0"]).to_string());
                    }
                }
            }
            4 | 5 => {
                t.extend(self.expr(depth - 1));
                t.push(self.r.pick(BINOPS).to_string());
                t.extend(self.expr(depth - 1));
            }
            6 => {
                t.push(self.r.pick(&["-", "NOT", "+"]).to_string());
                t.extend(self.expr(depth - 1));
            }
            7 => {
                t.push("(".into());
                t.extend(self.expr(depth - 1));
                t.push(")".into());
            }
            _ => {
                // call, positional or named arguments
                t.push(self.var());
                t.push("(".into());
                let n = self.r.below(5);
                let named = self.r.bool();
                for k in 0..n {
                    if k > 0 {
                        t.push(",".into());
                    }
                    if named {
                        t.push(self.ident());
                        t.push(if self.r.chance(1, 4) { "=>" } else { ":=" }.into());
                    }
                    t.extend(self.expr(depth - 1));
                }
                t.push(")".into());
            }
        }
        t
    }

    /// join tokens with generated white space (never changing the intended token boundaries unless
    /// `sloppy` says so: the source's own token sequence is the reference anyway)
    fn join(&mut self, toks: &[String]) -> String {
        let mut s = String::new();
        for (i, t) in toks.iter().enumerate() {
            if i > 0 {
                let a = s.chars().last().unwrap_or(' ');
                let b = t.chars().next().unwrap_or(' ');
                let must = (is_word_char(a) && (is_word_char(b) || b == '#' || b == '.' || b == '%'))
                    || (!is_word_char(a) && !is_word_char(b) && !")],;".contains(b) && !"([".contains(a))
                    || (a == '.' && b.is_ascii_digit())
                    || (a == '#');
                let sep = if self.r.below(100) < self.sloppy {
                    *self.r.pick(&["", " ", "  ", "\t", "   ", " \t "])
                } else if ")],;".contains(b) || "([".contains(a) || a == '.' || b == '.' || a == '^' || b == '^' {
                    ""
                } else {
                    " "
                };
                if sep.is_empty() && must {
                    s.push(' ');
                } else {
                    s.push_str(sep);
                }
            }
            s.push_str(t);
        }
        s
    }

    fn push(&mut self, indent: usize, body: String) {
        let lead = match self.r.below(10) {
            0 => String::new(),
            1 => "\t".repeat(indent),
            2 => " ".repeat(self.r.below(9) as usize),
            _ => "    ".repeat(indent),
        };
        let mut line = format!("{lead}{body}");
        if self.r.chance(1, 8) {
            line.push_str(*self.r.pick(&[" ", "  ", "\t"]));
        }
        self.lines.push(line);
    }

    fn trailer(&mut self, body: &mut String) {
        // a string literal and a trailing comment on one line is what text-search helpers trip over
        let k = if body.contains('\'') && self.r.chance(1, 3) { 0 } else { self.r.below(14) };
        match k {
            0 => {
                self.tags.insert("line-comment");
                body.push(' ');
                body.push_str(*self.r.pick(LINE_COMMENTS));
            }
            1 => {
                self.tags.insert("block-comment");
                body.push(' ');
                body.push_str(*self.r.pick(BLOCK_COMMENTS));
            }
            2 => {
                self.tags.insert("pragma");
                body.push_str("  ");
                body.push_str(*self.r.pick(PRAGMAS));
            }
            _ => {}
        }
    }

    fn decoration(&mut self, indent: usize) {
        match self.r.below(16) {
            0 => self.lines.push(String::new()),
            1 => {
                self.tags.insert("line-comment");
                let c = self.r.pick(LINE_COMMENTS).to_string();
                self.push(indent, c);
            }
            2 => {
                self.tags.insert("block-comment");
                let c = self.r.pick(BLOCK_COMMENTS).to_string();
                self.push(indent, c);
            }
            3 if self.multiline_comments => {
                self.tags.insert("multiline-comment");
                let open = if self.r.chance(1, 5) { ("/*", "*/") } else { ("(*", "*)") };
                self.push(indent, format!("{} first line", open.0));
                let n = 1 + self.r.below(3);
                for _ in 0..n {
                    let body = *self.r.pick(&["   indented text", "x := 1;", "END_IF", "", "\t* starred", "a, b, c", "IF a THEN"]);
                    self.lines.push(body.to_string());
                }
                self.push(indent, format!("last {}", open.1));
            }
            4 => {
                self.tags.insert("pragma");
                let c = self.r.pick(PRAGMAS).to_string();
                self.push(indent, c);
            }
            5 => self.lines.push("   ".into()),
            6 | 7 if self.blank_runs => self.blank_run(),
            8 => self.risky_group(indent),
            9 => self.literal_stmts(indent),
            _ => {}
        }
    }

    /// 3-6 blank lines, some of them with trailing blanks
    fn blank_run(&mut self) {
        self.tags.insert("blank-run");
        let n = 3 + self.r.below(4);
        for _ in 0..n {
            let l = *self.r.pick(&["", "", "", "  ", "\t", "    \t"]);
            self.lines.push(l.to_string());
        }
    }

    /// declarations with every literal class in the initialiser: single line, array initialiser, initialiser
    /// continued on a line that also holds the next declaration, shuffled declaration (literal in front of
    /// the type colon), with short and long names so that the colon alignment has to pad
    fn literal_decls(&mut self, indent: usize) {
        self.tags.insert("literal-positions");
        let n = 2 + self.r.below(4);
        for _ in 0..n {
            let name = *self.r.pick(&["t", "opens", "start_of_shift", "x", "a_much_longer_name", "n1"]);
            let ty = *self.r.pick(&["TOD", "DT", "TIME", "INT", "STRING", "WORD", "LTOD", "DATE"]);
            let l1 = *self.r.pick(ALL_LITERALS);
            let l2 = *self.r.pick(ALL_LITERALS);
            let sp = *self.r.pick(&[" ", "", "  "]);
            match self.r.below(6) {
                0 | 1 => self.push(indent, format!("{name}{sp}:{sp}{ty} := {l1};")),
                2 => self.push(indent, format!("{name}{sp}: ARRAY[0..1] OF {ty} := [{l1}, {l2}];")),
                3 => {
                    self.push(indent, format!("{name}{sp}: ARRAY[0..1] OF {ty} := [{l1},"));
                    let next = *self.r.pick(&["closed", "b", "another_flag"]);
                    self.push(indent + 1, format!("{l2}]; {next}{sp}: BOOL;"));
                }
                4 => self.push(indent, format!("{l1} {name}{sp}:{sp}{ty};")),
                _ => self.push(indent, format!("{name}, other{sp}: {ty} := {l1}; // c: d := {l2}")),
            }
        }
    }

    /// the same literals in assignments of different width, named call arguments and CASE labels
    fn literal_stmts(&mut self, indent: usize) {
        self.tags.insert("literal-positions");
        let n = 2 + self.r.below(3);
        for _ in 0..n {
            let name = *self.r.pick(&["t", "opens", "start_of_shift", "x", "a_much_longer_name"]);
            let l1 = *self.r.pick(ALL_LITERALS);
            let sp = *self.r.pick(&[" ", "", "  "]);
            self.push(indent, format!("{name}{sp}:={sp}{l1};"));
        }
        if self.r.bool() {
            let (a, b, c) = (*self.r.pick(ALL_LITERALS), *self.r.pick(ALL_LITERALS), *self.r.pick(ALL_LITERALS));
            self.push(indent, format!("fb(IN := {a}, PT => {b}, Q:={c});"));
        }
        if self.r.bool() {
            self.push(indent, "CASE sel OF".into());
            for _ in 0..(1 + self.r.below(3)) {
                let (a, b, c) = (*self.r.pick(ALL_LITERALS), *self.r.pick(ALL_LITERALS), *self.r.pick(ALL_LITERALS));
                let sp = *self.r.pick(&[" ", ""]);
                if self.r.bool() {
                    self.push(indent + 1, format!("{a}{sp}: y := {c};"));
                } else {
                    self.push(indent + 1, format!("{a}, {b}{sp}:{sp}y:={c};"));
                }
            }
            self.push(indent, "END_CASE".into());
        }
    }

    /// 2-5 adjacent lines with the same indentation out of `RISKY_LINES`
    fn risky_group(&mut self, indent: usize) {
        self.tags.insert("risky-lines");
        let n = 2 + self.r.below(4);
        let lead = match self.r.below(4) {
            0 => String::new(),
            1 => "\t".repeat(indent),
            _ => "    ".repeat(indent),
        };
        for _ in 0..n {
            let l = *self.r.pick(RISKY_LINES);
            self.lines.push(format!("{lead}{l}"));
        }
    }

    /// a call statement that is longer than any line limit the configurations use
    fn long_call(&mut self, indent: usize) {
        self.tags.insert("long-line");
        let mut toks = vec![self.ident(), "(".into()];
        let n = 6 + self.r.below(10);
        for k in 0..n {
            if k > 0 {
                toks.push(",".into());
            }
            toks.push(self.ident());
            toks.push(if self.r.chance(1, 4) { "=>" } else { ":=" }.into());
            toks.push(self.ident());
        }
        toks.push(")".into());
        toks.push(";".into());
        let body = self.join(&toks);
        self.push(indent, body);
    }

    /// small programs made of the constructs above: a wrapping line on top, blank runs, risky groups,
    /// an IF block (range targets) - with many range / on-type requests per text
    pub fn risky(&mut self) {
        self.blank_runs = true;
        self.lines.push(format!("PROGRAM {}", self.r.pick(IDENTS)));
        let n = 2 + self.r.below(5);
        for _ in 0..n {
            match self.r.below(10) {
                7 => {
                    self.push(1, "VAR".into());
                    self.literal_decls(2);
                    self.push(1, "END_VAR".into());
                }
                8 | 9 => self.literal_stmts(1),
                0 => self.long_call(1),
                1 | 2 => self.blank_run(),
                3 | 4 => self.risky_group(1),
                5 => {
                    self.push(1, "IF a THEN".into());
                    let b = *self.r.pick(&["a:=1;", "b:=a+1;", "url := 'http://x/y'; // u"]);
                    self.push(2, b.into());
                    self.push(1, "END_IF".into());
                }
                _ => {
                    let b = *self.r.pick(&["b:=a+1;", "x := 1;", "y:=x;"]);
                    self.push(1, b.into());
                }
            }
        }
        self.lines.push("END_PROGRAM".into());
    }

    fn var_block(&mut self, indent: usize) {
        let kw = self.r.pick(&["VAR", "VAR_INPUT", "VAR_OUTPUT", "VAR_IN_OUT", "VAR_TEMP", "VAR CONSTANT", "VAR RETAIN", "VAR_GLOBAL"]).to_string();
        self.push(indent, kw);
        let n = self.r.below(6);
        for _ in 0..n {
            self.decoration(indent + 1);
            if self.r.chance(1, 5) {
                self.literal_decls(indent + 1);
                continue;
            }
            let mut toks = vec![self.ident()];
            if self.r.chance(1, 5) {
                toks.push(",".into());
                toks.push(self.ident());
            }
            if self.r.chance(1, 8) {
                toks.push("AT".into());
                toks.push(self.r.pick(&["%IX0.0", "%QW10", "%I*", "%MD100"]).to_string());
            }
            toks.push(":".into());
            if self.r.chance(1, 6) {
                toks.extend(["ARRAY", "[", "0", "..", "3"].map(String::from));
                if self.r.chance(1, 3) {
                    toks.extend([",", "1", "..", "2"].map(String::from));
                }
                toks.extend(["]", "OF"].map(String::from));
            }
            toks.push(self.r.pick(TYPES).to_string());
            if self.r.chance(1, 8) {
                toks.extend(["(", "0", "..", "10", ")"].map(String::from));
            }
            if self.r.chance(2, 5) {
                toks.push(":=".into());
                toks.extend(self.expr(1));
            }
            toks.push(";".into());
            let mut body = self.join(&toks);
            self.trailer(&mut body);
            self.push(indent + 1, body);
        }
        self.push(indent, "END_VAR".into());
    }

    fn stmt(&mut self, indent: usize, depth: u32) {
        self.decoration(indent);
        let kind = if depth == 0 { self.r.below(4) } else { self.r.below(10) };
        match kind {
            0..=2 => {
                let mut toks = self.expr(0);
                toks.push(if self.r.chance(1, 12) { "?=" } else { ":=" }.into());
                toks.extend(self.expr(2));
                toks.push(";".into());
                let mut body = self.join(&toks);
                if self.r.chance(1, 10) {
                    let mut t2 = vec![self.ident(), ":=".into()];
                    t2.extend(self.expr(1));
                    t2.push(";".into());
                    body.push(' ');
                    body.push_str(&self.join(&t2));
                }
                self.trailer(&mut body);
                self.push(indent, body);
            }
            3 => {
                // call statement, sometimes long (wrapping candidates) or spread over lines
                let mut toks = vec![self.var(), "(".into()];
                let n = 1 + self.r.below(8);
                let multi = self.r.chance(1, 6);
                let mut first = true;
                for _ in 0..n {
                    if !first {
                        toks.push(",".into());
                        if multi {
                            let body = self.join(&toks);
                            self.push(indent + if first { 0 } else { 1 }, body);
                            toks.clear();
                        }
                    }
                    first = false;
                    toks.push(self.ident());
                    toks.push(if self.r.chance(1, 4) { "=>" } else { ":=" }.into());
                    toks.extend(self.expr(1));
                }
                toks.push(")".into());
                toks.push(";".into());
                let mut body = self.join(&toks);
                self.trailer(&mut body);
                self.push(indent, body);
            }
            4 => {
                let mut t = vec!["IF".to_string()];
                t.extend(self.expr(2));
                t.push("THEN".into());
                let mut b = self.join(&t);
                self.trailer(&mut b);
                self.push(indent, b);
                self.block(indent + 1, depth - 1);
                if self.r.chance(1, 3) {
                    let mut t = vec!["ELSIF".to_string()];
                    t.extend(self.expr(1));
                    t.push("THEN".into());
                    let b = self.join(&t);
                    self.push(indent, b);
                    self.block(indent + 1, depth - 1);
                }
                if self.r.chance(1, 2) {
                    self.push(indent, "ELSE".into());
                    self.block(indent + 1, depth - 1);
                }
                let e = if self.r.bool() { "END_IF;" } else { "END_IF" };
                self.push(indent, e.into());
            }
            5 => {
                let mut t = vec!["CASE".to_string()];
                t.extend(self.expr(0));
                t.push("OF".into());
                let b = self.join(&t);
                self.push(indent, b);
                let n = 1 + self.r.below(3);
                for k in 0..n {
                    let label = match self.r.below(3) {
                        0 => format!("{k}"),
                        1 => format!("{k}, {}", k + 10),
                        _ => format!("{k}..{}", k + 5),
                    };
                    let mut t = vec![label, ":".into(), self.ident(), ":=".into()];
                    t.extend(self.expr(1));
                    t.push(";".into());
                    let b = self.join(&t);
                    self.push(indent + 1, b);
                }
                if self.r.bool() {
                    self.push(indent, "ELSE".into());
                    self.block(indent + 1, 0);
                }
                self.push(indent, "END_CASE".into());
            }
            6 => {
                let mut t = vec!["FOR".to_string(), self.var(), ":=".into()];
                t.extend(self.expr(0));
                t.push("TO".into());
                t.extend(self.expr(1));
                if self.r.chance(1, 3) {
                    t.push("BY".into());
                    t.push(self.r.pick(&["1", "2", "-1"]).to_string());
                }
                t.push("DO".into());
                let b = self.join(&t);
                self.push(indent, b);
                self.block(indent + 1, depth - 1);
                self.push(indent, "END_FOR".into());
            }
            7 => {
                let mut t = vec!["WHILE".to_string()];
                t.extend(self.expr(2));
                t.push("DO".into());
                let b = self.join(&t);
                self.push(indent, b);
                self.block(indent + 1, depth - 1);
                self.push(indent, "END_WHILE".into());
            }
            8 => {
                self.tags.insert("repeat");
                self.push(indent, "REPEAT".into());
                self.block(indent + 1, depth - 1);
                let mut t = vec!["UNTIL".to_string()];
                t.extend(self.expr(1));
                let b = self.join(&t);
                self.push(indent, b);
                self.push(indent, "END_REPEAT".into());
            }
            _ => {
                let s = self.r.pick(&["RETURN;", "EXIT;", "CONTINUE;", ";", "fb();", "x := y; y := x;"]).to_string();
                self.push(indent, s);
            }
        }
    }

    fn block(&mut self, indent: usize, depth: u32) {
        let n = 1 + self.r.below(3);
        for _ in 0..n {
            self.stmt(indent, depth);
        }
    }

    fn pou(&mut self) {
        let name = self.ident();
        let (open, close): (String, &str) = match self.r.below(7) {
            0 | 1 | 2 => (format!("PROGRAM {name}"), "END_PROGRAM"),
            3 => (format!("FUNCTION_BLOCK {name}"), "END_FUNCTION_BLOCK"),
            4 => (format!("FUNCTION {name} : {}", self.r.pick(TYPES)), "END_FUNCTION"),
            5 => {
                // TYPE with a struct
                self.push(0, "TYPE".into());
                self.push(1, format!("{name} : STRUCT"));
                let n = 1 + self.r.below(3);
                for _ in 0..n {
                    let f = format!("{} : {};", self.ident(), self.r.pick(TYPES));
                    self.push(2, f);
                }
                self.push(1, "END_STRUCT".into());
                self.push(0, "END_TYPE".into());
                return;
            }
            _ => {
                // FB with a method
                self.push(0, format!("FUNCTION_BLOCK {name}"));
                self.var_block(1);
                let m = format!("METHOD PUBLIC {} : BOOL", self.ident());
                self.push(1, m);
                self.var_block(2);
                self.block(2, 1);
                self.push(1, "END_METHOD".into());
                self.push(0, "END_FUNCTION_BLOCK".into());
                return;
            }
        };
        self.push(0, open);
        let nv = self.r.below(3);
        for _ in 0..nv {
            self.var_block(1);
        }
        let d = 1 + self.r.below(2) as u32;
        self.block(1, d);
        self.push(0, close.into());
    }

    /// a mostly valid compilation unit
    pub fn program(&mut self) {
        if self.r.chance(1, 6) {
            self.decoration(0);
        }
        let n = 1 + self.r.below(2);
        for k in 0..n {
            if k > 0 && self.r.bool() {
                self.lines.push(String::new());
            }
            self.pou();
        }
    }

    /// random tokens, several per line: exercises the glue rule on pairs no grammar produces
    pub fn soup(&mut self) {
        let pool: Vec<&str> = REPS.iter().flat_map(|(_, xs)| xs.iter().copied()).collect();
        let nl = 1 + self.r.below(4);
        for _ in 0..nl {
            let nt = 1 + self.r.below(6);
            let mut s = String::new();
            for k in 0..nt {
                if k > 0 {
                    s.push_str(*self.r.pick(&[" ", " ", "  ", "\t"]));
                }
                let t = if self.r.chance(1, 3) { *self.r.pick(&["END_IF", "IF", "VAR", "END_VAR", "x", ";", ":=", ",", "(", ")"]) } else { *self.r.pick(&pool) };
                s.push_str(t);
            }
            self.lines.push(s);
        }
    }

    /// lines that mix code with comments, pragmas and strings
    pub fn mixed(&mut self) {
        let n = 2 + self.r.below(6);
        for _ in 0..n {
            let mut s = String::new();
            let parts = 1 + self.r.below(4);
            for k in 0..parts {
                if k > 0 {
                    s.push_str(*self.r.pick(&[" ", "  ", "", "\t"]));
                }
                match self.r.below(7) {
                    0 => s.push_str(*self.r.pick(BLOCK_COMMENTS)),
                    1 => s.push_str(*self.r.pick(PRAGMAS)),
                    2 => s.push_str(*self.r.pick(STRINGS)),
                    3 => {
                        s.push_str(*self.r.pick(LINE_COMMENTS));
                        break;
                    }
                    _ => {
                        let mut t = vec![self.ident(), ":=".to_string()];
                        t.extend(self.expr(1));
                        t.push(";".into());
                        let j = self.join(&t);
                        s.push_str(&j);
                    }
                }
            }
            let ind = self.r.below(3) as usize;
            self.push(ind, s);
        }
    }

    /// textual mutations of what has been generated so far
    pub fn mutate(&mut self) {
        let n = 1 + self.r.below(3);
        for _ in 0..n {
            if self.lines.is_empty() {
                return;
            }
            let i = self.r.below(self.lines.len() as u64) as usize;
            match self.r.below(9) {
                0 => {
                    self.lines.remove(i);
                }
                1 => {
                    let l = self.lines[i].clone();
                    self.lines.insert(i, l);
                }
                2 => {
                    let j = self.r.below(self.lines.len() as u64) as usize;
                    self.lines.swap(i, j);
                }
                3 => {
                    // delete one char
                    let l = &mut self.lines[i];
                    let cs: Vec<char> = l.chars().collect();
                    if !cs.is_empty() {
                        let k = self.r.below(cs.len() as u64) as usize;
                        *l = cs.iter().enumerate().filter(|(j, _)| *j != k).map(|(_, c)| *c).collect();
                    }
                }
                4 => {
                    // insert a stray token
                    let t = *self.r.pick(&["END_IF", "END_VAR", "ELSE", "VAR", "IF", "THEN", ")", "(", ";", ",", ":", "END_PROGRAM", "$", "?", "'", "\"", "}", "#", "@"]);
                    let l = &mut self.lines[i];
                    let cs: Vec<char> = l.chars().collect();
                    let k = self.r.below(cs.len() as u64 + 1) as usize;
                    let mut s: String = cs[..k].iter().collect();
                    s.push(' ');
                    s.push_str(t);
                    s.push(' ');
                    s.extend(cs[k..].iter());
                    *l = s;
                }
                5 => {
                    let keep = self.r.below(self.lines.len() as u64) as usize;
                    self.lines.truncate(keep + 1);
                }
                6 => {
                    let t = *self.r.pick(&["END_REPEAT", "END_WHILE", "UNTIL x", "END_FUNCTION", "ELSIF x THEN"]);
                    self.lines.insert(i, t.to_string());
                }
                7 => {
                    // case change of a whole line
                    let l = &mut self.lines[i];
                    *l = if self.r.bool() { l.to_ascii_lowercase() } else { l.to_ascii_uppercase() };
                }
                _ => {
                    // break a line in two at a blank
                    let l = self.lines[i].clone();
                    if let Some(k) = l.find(' ') {
                        self.lines[i] = l[..k].to_string();
                        self.lines.insert(i + 1, l[k + 1..].to_string());
                    }
                }
            }
        }
    }

    /// join the lines with LF or CRLF (sometimes mixed); returns the text and the tags
    pub fn finish(mut self) -> (String, Vec<&'static str>) {
        let mut tags: Vec<&'static str> = self.tags.iter().copied().collect();
        let crlf = self.r.below(10) < 3;
        let nl = if crlf { "\r\n" } else { "\n" };
        let astral = self.r.chance(1, 8);
        if astral {
            // the document ends, without a line terminator, in a line with characters outside the BMP
            tags.push("astral-last-line");
            let l = *self.r.pick(ASTRAL_LAST_LINES);
            self.lines.push(l.to_string());
        }
        let mut s = self.lines.join(nl);
        if !astral && self.r.chance(5, 6) {
            s.push_str(nl);
        }
        if crlf {
            tags.push("crlf");
            if self.r.chance(1, 4) {
                // mixed terminators: every CR LF becomes a bare LF with probability 1/3 (at least one does), so
                // that bare LFs end all kinds of lines - code, blank, comment and verbatim-copied ones
                tags.push("mixed-eol");
                let n = s.matches("\r\n").count() as u64;
                if n > 0 {
                    let forced = self.r.below(n);
                    let mut out = String::with_capacity(s.len());
                    for (k, piece) in s.split("\r\n").enumerate() {
                        if k > 0 {
                            out.push_str(if (k as u64 - 1) == forced || self.r.chance(1, 3) { "\n" } else { "\r\n" });
                        }
                        out.push_str(piece);
                    }
                    s = out;
                }
            }
        }
        (s, tags)
    }
}

pub fn gen_text(r: &mut Rng) -> (String, Vec<&'static str>) {
    let mode = r.below(100);
    let mut g = TextGen::new(r);
    let kind: &'static str;
    if mode < 12 {
        kind = "risky";
        g.risky();
    } else if mode < 50 {
        kind = "valid";
        g.program();
    } else if mode < 72 {
        kind = "mutated";
        g.program();
        g.mutate();
    } else if mode < 86 {
        kind = "mixed";
        if g.r.bool() {
            g.lines.push("PROGRAM P".into());
        }
        g.mixed();
        if g.r.bool() {
            g.lines.push("END_PROGRAM".into());
        }
    } else if mode < 97 {
        kind = "soup";
        g.soup();
    } else {
        kind = "tiny";
        let t = *g.r.pick(&["", "\n", "x", ";", "\r\n", "  ", "\n\n", "END_IF", "(* *)", "'", "{", "x\r\ny"]);
        return (t.to_string(), vec![kind]);
    }
    let (text, mut tags) = g.finish();
    tags.insert(0, kind);
    (text, tags)
}

// ---------------------------------------------------------------------------------------------
// Glue matrix: every left-hand token class x every punctuation / operator that `should_glue` knows,
// swept deterministically over the cases `nw+1 ..= nw+gluecases` (independent of the seed; the seed picks
// the representatives, the continuation, the frame around the pair and the white space of the source)
// ---------------------------------------------------------------------------------------------

/// left-hand tokens: every token class whose text ends in a word character, a quote, `#` or a closer
pub const GLUE_LEFT: &[(&str, &[&str])] = &[
    ("kw", &["IF", "NOT", "AND", "OR", "ELSIF", "RETURN", "MOD", "TO", "UNTIL", "WHILE", "INT", "TRUE", "XOR", "OF", "BY",
             "THEN", "not", "End_If", "TIME", "DATE", "STRING", "ELSE", "DO", "CASE"]),
    ("ident", &["run", "x", "E5", "FF", "s", "_1", "stop", "B", "ms", "a1", "T", "D", "e"]),
    ("int", &["16", "2", "8", "0", "1_000", "42", "16#FF", "2#1010"]),
    ("real", &["1.5", "2.5e-3", "1.0E10"]),
    ("temporal-literal", &["T#5m", "TIME#-5s", "D#2024-01-15", "TOD#14:30:00", "DT#2024-01-15-14:30:00", "LTOD#15:36:55.36"]),
    ("typed-prefix", &["INT#", "s#", "E5#", "BOOL#", "x#", "FF#"]),
    ("temporal-prefix", &["T#", "D#", "TOD#", "DT#", "time#", "LT#"]),
    ("address", &["%IX0", "%MD100", "%IX0.0", "%QW10", "%I*"]),
    ("string", &["'a'", "\"w\"", "''", "'a#b'"]),
    ("closer", &[")", "]", "^"]),
];

/// everything `should_glue` glues to a neighbour in every style ...
pub const GLUE_PUNCT: &[&str] = &["#", ".", "..", "(", "[", "^", "@", ",", ";", ":", ")", "]"];
/// ... and in compact style (`is_symbolic_operator`)
pub const GLUE_OPS: &[&str] = &[":=", "=>", "?=", "=", "<>", "<", "<=", ">", ">=", "+", "-", "*", "/", "**", "&"];
/// punctuation of the pairs where only the re-lex guard of `format_line_tokens` keeps the tokens apart
const GLUE_HOT: &[&str] = &["#", ".", "..", "(", "+", "-", "*", "/", ":", "<", ">", "="];

/// what follows the punctuation ("" = nothing)
const GLUE_RIGHT: &[&str] = &[
    "run", "stop", "FF", "E5", "s", "x", "_1", "e5", "5", "16", "1010", "0", "01", "THEN", "NOT", "TRUE", "INT", "#stop", "#x",
    "1.5", "T#5m", "'a'", "INT#5", "16#FF", "-", "#", "(", "=", ">", "*", "/", ".", "",
];

pub const GLUE_SWEEP_LINES: u64 = 20;
const GLUE_RANDOM_LINES: u64 = 8;

pub fn glue_pairs() -> u64 {
    (GLUE_LEFT.len() * (GLUE_PUNCT.len() + GLUE_OPS.len())) as u64
}

/// Source text of a token list: random white space (also none) between the pieces; when that changes how
/// the line lexes, produces a token the lexer labels by its right context (known finding
/// C15-lexer-context-dependent-token), an Error token or a comment / pragma, every piece is set apart by one
/// blank; `None` when even that line has such a token (the line is left out, exactly for that reason).
fn glue_render(r: &mut Rng, pieces: &[String]) -> Option<String> {
    let clean = |line: &str| {
        !has_irregular_token(line)
            && !lex(line).iter().any(|t| {
                matches!(t.kind, TokenKind::Error | TokenKind::LineComment | TokenKind::BlockComment | TokenKind::Pragma)
            })
    };
    let want: Vec<(String, String)> = pieces.iter().flat_map(|p| lex_classes(p)).collect();
    let sloppy = *r.pick(&[0u64, 30, 70]);
    let mut line = String::new();
    for (i, p) in pieces.iter().enumerate() {
        if i > 0 {
            line.push_str(if r.below(100) < sloppy { *r.pick(&["", "", "  ", "\t", " "]) } else { " " });
        }
        line.push_str(p);
    }
    if lex_classes(&line) == want && clean(&line) {
        return Some(line);
    }
    let line = pieces.join(" ");
    clean(&line).then_some(line)
}

/// One line around the pair (`left`, `punct`): `bare` lines hold no `(`, `.` or `..` besides the pair's own
/// tokens, the others carry a call, a member access or a subrange next to it.
fn glue_line(r: &mut Rng, left: &str, punct: &str, bare: bool) -> Vec<String> {
    let v = |xs: &[&str]| xs.iter().map(|x| x.to_string()).collect::<Vec<String>>();
    let mut core = vec![left.to_string(), punct.to_string()];
    let right = *r.pick(GLUE_RIGHT);
    if !right.is_empty() {
        core.push(right.to_string());
    }
    if r.chance(1, 4) {
        // a second pair with the same punctuation behind an operator keyword
        core.extend(v(&[*r.pick(&["AND", "OR", "AND NOT", "XOR", "MOD", "+", ","])]));
        let (_, reps) = r.pick(GLUE_LEFT);
        core.push(r.pick(reps).to_string());
        core.push(punct.to_string());
        core.push(r.pick(&["stop", "FF", "5", "x", "#y"]).to_string());
    }
    let mut t = Vec::new();
    match (bare, r.below(6)) {
        (true, 0) | (true, 1) => t = core,
        (true, 2) => {
            t.push(r.pick(&["IF", "ELSIF", "WHILE", "UNTIL", "CASE"]).to_string());
            t.extend(core);
            t.push(r.pick(&["THEN", "DO", "OF", ""]).to_string());
        }
        (true, 3) => {
            t.extend(v(&[*r.pick(IDENTS), *r.pick(&[":=", ":=", "?=", "=>"])]));
            t.extend(core);
            t.push(";".into());
        }
        (true, 4) => {
            t.extend(v(&[*r.pick(&["RETURN", "NOT", "x ,", "1 +", "#a :=", "- ", "; "])]));
            t.extend(core);
        }
        (true, _) => {
            t.extend(core);
            t.extend(v(&[*r.pick(&[";", ", y", ":= 1 ;", "THEN", "; #b := #c ;", ": INT ;"])]));
        }
        (false, 0) => {
            t.extend(v(&["y", ":=", *r.pick(&["g", "#g", "NOT", "ABS"]), "("]));
            t.extend(core);
            t.extend(v(&[")", ";"]));
        }
        (false, 1) => {
            t.extend(v(&["arr", "[", "0", "..", "1", "]", ":="]));
            t.extend(core);
            t.push(";".into());
        }
        (false, 2) => {
            t.extend(core);
            t.extend(v(&[";", "fb", ".", "q", ":=", "1", ";"]));
        }
        (false, 3) => {
            t.extend(v(&["IF", "fb", ".", "q", "AND"]));
            t.extend(core);
            t.push("THEN".into());
        }
        (false, 4) => {
            t.extend(v(&["f", "(", "a", ",", "b", ")", ";"]));
            t.extend(core);
        }
        (false, _) => {
            t.extend(core);
            t.extend(v(&[":", "INT", "(", "0", "..", "10", ")", ";"]));
        }
    }
    t.retain(|p| !p.is_empty());
    t
}

/// Case `k` (0-based) of the glue matrix: block `k / 3` of the pair sweep in spacing option `k % 3` (default
/// = spaced under a profile that does not choose compact; explicit spaced under every profile; compact, chosen
/// explicitly or by the siemens profile).  Bare and non-bare lines alternate so that the two spaced cases of a
/// block cover both for every pair.
pub fn gen_glue_matrix(r: &mut Rng, k: u64, out: &mut Out) -> (Cfg, String) {
    let (m, s) = (k / 3, k % 3);
    let mut cfg = gen_cfg(r);
    let prof = |i: u64| PROFILES[(i % PROFILES.len() as u64) as usize].map(|p| p.to_string());
    match s {
        0 => {
            cfg.spacing = None;
            cfg.profile = [None, Some("codesys"), Some("Mitsubishi "), Some("acme")][(m % 4) as usize].map(|p: &str| p.to_string());
        }
        1 => {
            cfg.spacing = Some(r.pick(&["spaced", "spaced", "wide", "Spaced"]).to_string());
            cfg.profile = prof(m);
        }
        _ if m % 2 == 0 => {
            cfg.spacing = None;
            cfg.profile = Some("siemens".into());
        }
        _ => {
            cfg.spacing = Some(r.pick(&["compact", "tight", "Compact"]).to_string());
            cfg.profile = prof(m / 2);
        }
    }
    out.count(if s == 2 { "glue-matrix-compact" } else { "glue-matrix-spaced" });
    let puncts: Vec<&str> = GLUE_PUNCT.iter().chain(GLUE_OPS.iter()).copied().collect();
    let np = glue_pairs();
    let mut lines: Vec<String> = Vec::new();
    let emit = |r: &mut Rng, out: &mut Out, lines: &mut Vec<String>, class: &str, left: &str, punct: &str, bare: bool| {
        let pieces = glue_line(r, left, punct, bare);
        match glue_render(r, &pieces) {
            Some(l) => {
                out.count(&format!("glue-left-{class}"));
                out.count(&format!("glue-punct-{}", lex_classes(punct).first().map(|c| c.0.clone()).unwrap_or_default()));
                out.count(if bare { "glue-line-bare" } else { "glue-line-with-paren-or-dot" });
                let lead = *r.pick(&["", "", "    ", "\t", "  "]);
                lines.push(format!("{lead}{l}"));
            }
            None => out.count("glue-line-left-out-irregular-token"),
        }
    };
    for j in 0..GLUE_SWEEP_LINES {
        let p = (m * GLUE_SWEEP_LINES + j) % np;
        let sweep = (m * GLUE_SWEEP_LINES + j) / np;
        let (class, reps) = GLUE_LEFT[(p % GLUE_LEFT.len() as u64) as usize];
        let punct = puncts[(p / GLUE_LEFT.len() as u64) as usize];
        let left = *r.pick(reps);
        let bare = (j + m + s + sweep) % 2 == 0;
        emit(r, out, &mut lines, class, left, punct, bare);
    }
    for _ in 0..GLUE_RANDOM_LINES {
        let (class, reps) = *r.pick(GLUE_LEFT);
        let punct = if r.bool() { *r.pick(GLUE_HOT) } else { *r.pick(&puncts) };
        let left = *r.pick(reps);
        let bare = r.bool();
        let at_random = r.bool();
        emit(r, out, &mut lines, class, left, punct, bare);
        if at_random && lines.len() > 1 {
            let l = lines.pop().unwrap();
            let at = r.below(lines.len() as u64) as usize;
            lines.insert(at, l);
        }
    }
    // sometimes inside a POU, a chunk of the lines sometimes inside a VAR block (colon alignment)
    if r.chance(1, 4) && lines.len() > 4 {
        let a = r.below(lines.len() as u64 - 3) as usize;
        let b = a + 1 + r.below(3) as usize;
        lines.insert(b, "END_VAR".into());
        lines.insert(a, "VAR".into());
    }
    if r.bool() {
        lines.insert(0, "PROGRAM P".into());
        lines.push("END_PROGRAM".into());
    }
    let nl = if r.chance(1, 5) { "\r\n" } else { "\n" };
    let mut text = lines.join(nl);
    if r.chance(5, 6) {
        text.push_str(nl);
    }
    (cfg, text)
}

// ---------------------------------------------------------------------------------------------
// Lexer views (the oracle's notion of "the program")
// ---------------------------------------------------------------------------------------------

#[derive(PartialEq, Eq, Debug, Clone)]
pub struct Canon {
    pub toks: Vec<(String, String)>,
    pub comments: Vec<String>,
    pub pragmas: Vec<String>,
    pub strings: Vec<String>,
}

pub fn canon(text: &str) -> Canon {
    let mut c = Canon { toks: vec![], comments: vec![], pragmas: vec![], strings: vec![] };
    for t in lex(text) {
        let s = &text[usize::from(t.range.start())..usize::from(t.range.end())];
        match t.kind {
            TokenKind::Whitespace => {}
            // a line comment ends at the end of the line: trailing blanks are layout
            TokenKind::LineComment => c.comments.push(s.trim_end().to_string()),
            // line terminators inside a multi-line comment / pragma are layout (CRLF vs LF)
            TokenKind::BlockComment => c.comments.push(s.replace("\r\n", "\n")),
            TokenKind::Pragma => c.pragmas.push(s.replace("\r\n", "\n")),
            k => {
                if matches!(k, TokenKind::StringLiteral | TokenKind::WideStringLiteral) {
                    c.strings.push(s.to_string());
                }
                let text = if k.is_keyword() { s.to_ascii_uppercase() } else { s.to_string() };
                c.toks.push((format!("{k:?}"), text));
            }
        }
    }
    c
}

/// `ok` or a short description of the first difference.
pub fn compare(a: &Canon, b: &Canon) -> Result<(), (String, String)> {
    fn first_diff<T: PartialEq + std::fmt::Debug>(what: &str, x: &[T], y: &[T]) -> Option<(String, String)> {
        if x == y {
            return None;
        }
        let k = x.iter().zip(y.iter()).position(|(p, q)| p != q).unwrap_or(x.len().min(y.len()));
        Some((
            what.to_string(),
            format!("at {k}: before={:?} after={:?} (counts {} / {})", x.get(k), y.get(k), x.len(), y.len()),
        ))
    }
    if let Some(d) = first_diff("tokens", &a.toks, &b.toks) {
        return Err(d);
    }
    if let Some(d) = first_diff("strings", &a.strings, &b.strings) {
        return Err(d);
    }
    if let Some(d) = first_diff("comments", &a.comments, &b.comments) {
        return Err(d);
    }
    if let Some(d) = first_diff("pragmas", &a.pragmas, &b.pragmas) {
        return Err(d);
    }
    Ok(())
}

/// A token is irregular when its text, lexed on its own, is not that token: the lexer's label for it
/// depends on what follows (logos backtracking: `D#` is `Ident` in `D#2024-01 ;`).
pub fn has_irregular_token(text: &str) -> bool {
    lex(text).into_iter().any(|t| {
        if t.kind.is_trivia() || t.kind == TokenKind::Error {
            return false;
        }
        let s = &text[usize::from(t.range.start())..usize::from(t.range.end())];
        let alone = lex(s);
        alone.len() != 1 || alone[0].kind != t.kind
    })
}

thread_local! {
    /// texts of the documents whose `relex` line is still a placeholder, in file order
    static PENDING_DOCS: std::cell::RefCell<Vec<String>> = const { std::cell::RefCell::new(Vec::new()) };
}

/// `toks` line followed by the placeholder of the `relex` line (filled in by `resolve_relex`).
fn doc_lines(out: &mut Out, text: &str) {
    out.line(toks_line(text));
    out.line("relex ?");
    PENDING_DOCS.with(|d| d.borrow_mut().push(text.to_string()));
}

/// `relexes_to(text, tokens, source)` of formatting.rs, on the non-trivia tokens of one source line.
fn relexes_to(glued: &str, line_tokens: &[(TokenKind, &str)]) -> bool {
    let relexed: Vec<(TokenKind, &str)> = lex(glued)
        .into_iter()
        .filter(|t| t.kind != TokenKind::Whitespace)
        .map(|t| (t.kind, &glued[usize::from(t.range.start())..usize::from(t.range.end())]))
        .collect();
    relexed.len() == line_tokens.len()
        && relexed.iter().zip(line_tokens).all(|((nk, nt), (ok, ot))| {
            nk == ok && if ok.is_keyword() { nt.eq_ignore_ascii_case(ot) } else { nt == ot }
        })
}

/// The re-lex guard of `format_line_tokens` needs the lexer, which the Lean model does not have: the
/// model prints the glued text of every line (`driver c15 glued`), the real lexer gives the verdict, and
/// the verdicts are written into the `relex` lines that the model reads.
fn resolve_relex(out: &mut Out, driver: &Path) -> Result<(), String> {
    let docs = PENDING_DOCS.with(|d| std::mem::take(&mut *d.borrow_mut()));
    if docs.is_empty() {
        return Ok(());
    }
    let mut child = Command::new(driver)
        .args(["c15", "glued"])
        .stdin(Stdio::piped())
        .stdout(Stdio::piped())
        .stderr(Stdio::null())
        .spawn()
        .map_err(|e| format!("cannot start {}: {e}", driver.display()))?;
    let mut stdin = child.stdin.take().unwrap();
    let input = out.buf.clone();
    let writer = std::thread::spawn(move || {
        let _ = stdin.write_all(input.as_bytes());
    });
    let mut answer = String::new();
    use std::io::Read as _;
    child.stdout.take().unwrap().read_to_string(&mut answer).map_err(|e| e.to_string())?;
    let _ = writer.join();
    let _ = child.wait();
    let mut verdicts: Vec<String> = Vec::new();
    let mut fallbacks = 0u64;
    let mut queries = 0u64;
    for line in answer.lines() {
        if line.starts_with("bad-op") {
            return Err("driver c15 glued answered bad-op".into());
        }
        let Some(rest) = line.strip_prefix("q ") else { continue };
        let text = docs.get(verdicts.len()).ok_or("more documents in the driver's answer than sent")?;
        // non-trivia tokens by the line they start on (as format_document assigns them)
        let mut starts = vec![0usize];
        starts.extend(text.bytes().enumerate().filter(|(_, b)| *b == b'\n').map(|(i, _)| i + 1));
        let mut by_line: Vec<Vec<(TokenKind, &str)>> = vec![Vec::new(); starts.len()];
        for t in lex(text) {
            if t.kind.is_trivia() {
                continue;
            }
            let start = usize::from(t.range.start());
            let li = starts.partition_point(|s| *s <= start) - 1;
            by_line[li].push((t.kind, &text[start..usize::from(t.range.end())]));
        }
        let mut bad = Vec::new();
        for q in rest.split(' ').skip(2) {
            if q == "-" {
                continue;
            }
            let (idx, hx) = q.split_once(':').ok_or("malformed q line")?;
            let idx: usize = idx.parse().map_err(|_| "malformed q line")?;
            let glued = String::from_utf8(crate::util::unhex(hx)).map_err(|_| "glued text is not UTF-8")?;
            queries += 1;
            if !relexes_to(&glued, by_line.get(idx).map(|v| v.as_slice()).unwrap_or(&[])) {
                bad.push(idx.to_string());
                fallbacks += 1;
            }
        }
        verdicts.push(if bad.is_empty() { "relex -".to_string() } else { format!("relex {}", bad.join(",")) });
    }
    if verdicts.len() != docs.len() {
        return Err(format!("driver c15 glued answered {} documents, {} were sent", verdicts.len(), docs.len()));
    }
    let mut k = 0usize;
    let mut buf = String::with_capacity(out.buf.len());
    for line in out.buf.lines() {
        if line == "relex ?" {
            buf.push_str(&verdicts[k]);
            k += 1;
        } else {
            buf.push_str(line);
        }
        buf.push('\n');
    }
    out.buf = buf;
    out.add("relex-guard-queries", queries);
    out.add("relex-guard-fallbacks", fallbacks);
    Ok(())
}

pub fn toks_line(text: &str) -> String {
    let mut s = String::from("toks");
    let mut any = false;
    for t in lex(text) {
        if t.kind == TokenKind::Whitespace {
            continue;
        }
        any = true;
        s.push_str(&format!(" {:?}:{}:{}", t.kind, usize::from(t.range.start()), usize::from(t.range.end())));
    }
    if !any {
        s.push_str(" -");
    }
    s
}

// ---------------------------------------------------------------------------------------------
// Edits
// ---------------------------------------------------------------------------------------------

#[derive(Clone, Debug, PartialEq)]
pub enum Reply {
    Panic,
    Timeout,
    Null,
    Error(String),
    Edits(Vec<(u32, u32, u32, u32, String)>),
}

impl Reply {
    pub fn canonical(&self) -> String {
        match self {
            Reply::Panic => "panic".into(),
            Reply::Timeout => "timeout".into(),
            Reply::Null => "null".into(),
            Reply::Error(e) => format!("error:{}", hex(e.as_bytes())),
            Reply::Edits(es) => {
                let mut s = String::from("edits");
                for (sl, sc, el, ec, t) in es {
                    s.push_str(&format!(" {sl}:{sc}:{el}:{ec}:{}", hex(t.as_bytes())));
                }
                s
            }
        }
    }
}

fn parse_reply(r: Result<Value, LspErr>) -> Reply {
    match r {
        Err(LspErr::Dead) => Reply::Panic,
        Err(LspErr::Timeout) => Reply::Timeout,
        Err(LspErr::Error(e)) => Reply::Error(e),
        Ok(Value::Null) => Reply::Null,
        Ok(Value::Array(a)) => Reply::Edits(
            a.iter()
                .map(|e| {
                    let g = |p: &str, q: &str| e["range"][p][q].as_u64().unwrap_or(u64::MAX) as u32;
                    (
                        g("start", "line"),
                        g("start", "character"),
                        g("end", "line"),
                        g("end", "character"),
                        e["newText"].as_str().unwrap_or("").to_string(),
                    )
                })
                .collect(),
        ),
        Ok(other) => Reply::Error(other.to_string()),
    }
}

/// The editor's side of an edit (same model as the C14 harness): the buffer is a sequence of UTF-16 code
/// units and an LSP position is (line, UTF-16 column) ON THAT BUFFER - the server's byte offsets are never
/// trusted.  A column beyond the end of the line is clamped to the line end (LSP 3.17, Position), a column
/// inside a surrogate pair is moved behind the pair, a line beyond the last line is the end of the text.
/// Lines end at LF (CR LF included); a lone CR is not a line break here - that disagreement between
/// editors and this server is C14's subject, and the generator does not produce lone CRs for LSP requests.
pub struct Editor {
    pub u: Vec<u16>,
}

impl Editor {
    pub fn new(text: &str) -> Editor {
        Editor { u: text.encode_utf16().collect() }
    }

    pub fn offset(&self, line: u32, col: u32) -> usize {
        let mut start = 0usize;
        let mut l = 0u32;
        while l < line {
            match self.u[start..].iter().position(|c| *c == 10) {
                Some(k) => start += k + 1,
                None => return self.u.len(),
            }
            l += 1;
        }
        let mut end = self.u[start..].iter().position(|c| *c == 10).map(|k| start + k).unwrap_or(self.u.len());
        if end > start && self.u[end - 1] == 13 && end < self.u.len() {
            end -= 1; // the CR of a CR LF pair belongs to the terminator
        }
        let mut k = (start + col as usize).min(end);
        if k < self.u.len() && (0xDC00..0xE000).contains(&self.u[k]) && k > start {
            k += 1;
        }
        k
    }

    pub fn text(&self) -> String {
        String::from_utf16_lossy(&self.u)
    }
}

pub fn apply_edits(text: &str, edits: &[(u32, u32, u32, u32, String)]) -> String {
    let mut ed = Editor::new(text);
    let mut es: Vec<(usize, usize, Vec<u16>)> = edits
        .iter()
        .map(|(sl, sc, el, ec, t)| (ed.offset(*sl, *sc), ed.offset(*el, *ec), t.encode_utf16().collect()))
        .collect();
    es.sort_by_key(|e| std::cmp::Reverse(e.0));
    for (a, b, t) in es {
        let b = b.max(a);
        ed.u.splice(a..b, t);
    }
    ed.text()
}

// ---------------------------------------------------------------------------------------------
// Lexer validation (case 0)
// ---------------------------------------------------------------------------------------------

pub const REPS: &[(&str, &[&str])] = &[
    ("Semicolon", &[";"]),
    ("Colon", &[":"]),
    ("Comma", &[","]),
    ("Dot", &["."]),
    ("DotDot", &[".."]),
    ("LParen", &["("]),
    ("RParen", &[")"]),
    ("LBracket", &["["]),
    ("RBracket", &["]"]),
    ("Hash", &["#"]),
    ("Caret", &["^"]),
    ("At", &["@"]),
    ("Assign", &[":="]),
    ("Arrow", &["=>"]),
    ("RefAssign", &["?="]),
    ("Eq", &["="]),
    ("Neq", &["<>"]),
    ("Lt", &["<"]),
    ("LtEq", &["<="]),
    ("Gt", &[">"]),
    ("GtEq", &[">="]),
    ("Plus", &["+"]),
    ("Minus", &["-"]),
    ("Star", &["*"]),
    ("Slash", &["/"]),
    ("Power", &["**"]),
    ("Ampersand", &["&"]),
    // the first four representatives of a class are the ones the quick tier uses: keep the
    // "dangerous" shapes (hex tails, unit letters, exponents, leading underscores) in front
    ("IntLiteral", &["1", "16#FF", "16", "2024", "1_000", "42", "2#1010", "8#77", "00"]),
    ("RealLiteral", &["1.5", "3.14E10", "2.5e-3", "1_0.0_1"]),
    ("TimeLiteral", &["T#5m", "T#1h30m", "LT#14.7s", "TIME#-5s", "t#5ms", "LTIME#5m_30s"]),
    ("DateLiteral", &["D#2024-01-15", "DATE#2024-01-15", "ld#1984-06-25"]),
    ("TimeOfDayLiteral", &["TOD#14:30:00", "LTOD#15:36:55.36", "TIME_OF_DAY#01:02:03.5_"]),
    ("DateAndTimeLiteral", &["DT#2024-01-15-14:30:00", "LDT#1984-06-25-15:36:55.36"]),
    ("StringLiteral", &["'a'", "'a$'b'", "'x := 1, (* y *) // z'", "''"]),
    ("WideStringLiteral", &["\"w\"", "\"\""]),
    ("TypedLiteralPrefix", &["s#", "E5#", "FF#", "_x#", "_1s#", "INT#", "BOOL#", "x#", "STRING#"]),
    ("TypedLiteralPrefixT", &["T#", "D#", "TOD#", "DT#", "time#", "LT#", "DATE#", "LDT#"]),
    ("DirectAddress", &["%IX0", "%I*", "%IX0.0", "%QW10", "%MD100", "%X1"]),
    ("Ident", &["s", "E5", "_1", "FF", "_1s", "x", "abc_1", "_a", "e", "ms", "B"]),
    ("Kw", &["FALSE", "STRING", "__NEW", "ELSE", "IF", "end_if", "INT", "TIME", "MOD", "TRUE", "BOOL", "AND", "SET", "DATE", "TOD", "DO"]),
];

/// continuations used after a pair, besides every representative itself
const SPECIAL_CONTEXTS: &[&str] = &["-01-15", "-01-15-12:30:00", ":30:00", ".5", "..1", "#FF", ".x", "+5", "-3"];

const TEMPORAL: &[&str] = &[
    "T#", "TIME#", "LT#", "LTIME#", "D#", "DATE#", "LD#", "LDATE#", "TOD#", "TIME_OF_DAY#", "LTOD#", "LTIME_OF_DAY#",
    "DT#", "DATE_AND_TIME#", "LDT#", "LDATE_AND_TIME#",
];

pub fn class_of(kind: TokenKind, text: &str) -> String {
    let name = format!("{kind:?}");
    if name.starts_with("Kw") {
        "Kw".into()
    } else if kind == TokenKind::TypedLiteralPrefix && TEMPORAL.contains(&text.to_ascii_uppercase().as_str()) {
        "TypedLiteralPrefixT".into()
    } else {
        name
    }
}

/// non-whitespace tokens as (class, text)
fn lex_classes(text: &str) -> Vec<(String, String)> {
    lex(text)
        .into_iter()
        .filter(|t| t.kind != TokenKind::Whitespace)
        .map(|t| {
            let s = &text[usize::from(t.range.start())..usize::from(t.range.end())];
            (class_of(t.kind, s), s.to_string())
        })
        .collect()
}

fn lexer_validation(out: &mut Out, max_reps: usize) -> Result<(), String> {
    // every representative is one token of its class
    for (cls, reps) in REPS {
        for rep in reps.iter() {
            let l = lex_classes(rep);
            if l.len() != 1 || l[0].0 != *cls {
                return Err(format!("representative {rep:?} of {cls} lexes as {l:?}"));
            }
        }
    }
    // the pair matrix uses the first `max_reps` representatives of every class
    let reps_used: Vec<(&str, Vec<&str>)> = REPS.iter().map(|(c, xs)| (*c, xs.iter().copied().take(max_reps).collect())).collect();
    out.add("lexer-validation-representatives", reps_used.iter().map(|(_, v)| v.len() as u64).sum());
    // contexts: END, every representative, the special strings (with their own class chains)
    let mut contexts: Vec<(String, Vec<(String, String)>)> = vec![(String::new(), vec![])];
    for (_, reps) in &reps_used {
        for rep in reps.iter() {
            contexts.push((rep.to_string(), lex_classes(rep)));
        }
    }
    for s in SPECIAL_CONTEXTS {
        let l = lex_classes(s);
        if l.iter().any(|(c, _)| c == "Error" || c.ends_with("Comment") || c == "Pragma") {
            return Err(format!("special context {s:?} contains an excluded token"));
        }
        contexts.push((s.to_string(), l));
    }
    // a space always separates
    let mut space_fail = None;
    for (ca, ra) in REPS {
        for (cb, rb) in REPS {
            for a in ra.iter() {
                for b in rb.iter() {
                    let l = lex_classes(&format!("{a} {b}"));
                    if l != vec![(ca.to_string(), a.to_string()), (cb.to_string(), b.to_string())] {
                        space_fail.get_or_insert(format!("{ca}+{cb}"));
                    }
                }
            }
        }
    }
    out.line(format!("spacecheck {}", space_fail.map(|s| format!("FAIL:{s}")).unwrap_or_else(|| "ok".into())));
    out.line("impl ok");
    let mut lexes = 0u64;
    for (ca, ra) in &reps_used {
        for (cb, rb) in &reps_used {
            let mut chains: BTreeSet<String> = BTreeSet::new();
            for a in ra.iter() {
                for b in rb.iter() {
                    for (ctx, ctoks) in &contexts {
                        let text = format!("{a}{b}{ctx} ");
                        let got = lex_classes(&text);
                        lexes += 1;
                        let mut want = vec![(ca.to_string(), a.to_string()), (cb.to_string(), b.to_string())];
                        want.extend(ctoks.iter().cloned());
                        if got != want {
                            chains.insert(if ctoks.is_empty() {
                                "END".to_string()
                            } else {
                                ctoks.iter().map(|(c, _)| c.as_str()).collect::<Vec<_>>().join("+")
                            });
                        }
                    }
                }
            }
            let list = if chains.is_empty() { "-".to_string() } else { chains.into_iter().collect::<Vec<_>>().join(" ") };
            out.line(format!("pair {ca} {cb} {list}"));
            out.line("impl ok");
        }
    }
    out.add("lexer-validation-lex-calls", lexes);
    out.line("lexcheck");
    out.line("impl ok");
    Ok(())
}

// ---------------------------------------------------------------------------------------------
// Fixed witness cases: one per recorded finding, plus the repo's own unit-test examples
// ---------------------------------------------------------------------------------------------

pub struct Witness {
    pub name: &'static str,
    pub cfg: Cfg,
    pub text: &'static str,
    pub ranges: &'static [(u32, u32, u32, u32)],
    pub ontype: &'static [(u32, u32)],
}

fn base_cfg() -> Cfg {
    Cfg { tab: 4, spaces: true, ..Default::default() }
}

pub fn witnesses() -> Vec<Witness> {
    let compact = Cfg { spacing: Some("compact".into()), ..base_cfg() };
    let wrap20 = Cfg { max_len: Some(20), ..base_cfg() };
    let indented = Cfg { end_kw: Some("indented".into()), ..base_cfg() };
    vec![
        Witness { name: "unit-test-spacing", cfg: base_cfg(), text: "PROGRAM Test\nVAR\nx:=1+2; y :=3; \nEND_VAR\nx := y+1;\nEND_PROGRAM\n", ranges: &[(2, 0, 4, 3)], ontype: &[(4, 9)] },
        Witness { name: "unit-test-var-align", cfg: base_cfg(), text: "PROGRAM Test\nVAR\n    short: INT;\n    // separator\n    much_longer_name: REAL;\nEND_VAR\nEND_PROGRAM\n", ranges: &[(0, 0, 6, 0)], ontype: &[(2, 5)] },
        Witness { name: "unit-test-pragma-line", cfg: base_cfg(), text: "PROGRAM Test\nVAR\n    x: INT;\nEND_VAR\n    x:=1  {PRAGMA}  y:=2;\nEND_PROGRAM\n", ranges: &[(4, 0, 4, 5)], ontype: &[(4, 3)] },
        Witness { name: "unit-test-string-wrap", cfg: wrap20.clone(), text: "PROGRAM Test\nVAR\n    msg : STRING;\n    value : INT;\n    longer_name : INT;\nEND_VAR\n    msg := 'a,b,c,d,e,f';\n    value := 1;\n    longer_name := 2;\nEND_PROGRAM\n", ranges: &[(6, 0, 8, 0)], ontype: &[(7, 3)] },
        Witness { name: "glue-paren-star", cfg: base_cfg(), text: "PROGRAM P\nx := ( * 2);\ny := 3;\nEND_PROGRAM\n", ranges: &[(1, 0, 1, 4)], ontype: &[(1, 11)] },
        Witness { name: "glue-int-dot-int", cfg: base_cfg(), text: "x := 1 . 5;\n", ranges: &[], ontype: &[] },
        Witness { name: "glue-compact-slash-slash", cfg: compact.clone(), text: "x := a / / b;\ny := 2;\n", ranges: &[], ontype: &[] },
        Witness { name: "glue-compact-colon-eq", cfg: compact.clone(), text: "x : = 1;\n", ranges: &[], ontype: &[] },
        Witness { name: "glue-compact-date", cfg: compact, text: "d := D# 2024 - 01 - 15;\n", ranges: &[], ontype: &[] },
        Witness { name: "wrap-range-index", cfg: wrap20.clone(), text: "PROGRAM P\nfoo(aaaaaaaa, bbbbbbbbb, ccccccccc);\nx := 1;\nEND_PROGRAM\n", ranges: &[(2, 0, 2, 5), (1, 0, 1, 3)], ontype: &[(2, 7), (1, 5)] },
        Witness { name: "indent-underflow", cfg: indented, text: "PROGRAM P\nREPEAT\nx := 1;\nUNTIL x > 2\nEND_REPEAT\nEND_PROGRAM\n\nFUNCTION F : INT\nF := 1;\nEND_FUNCTION\n", ranges: &[(2, 0, 2, 3)], ontype: &[(2, 7)] },
        Witness { name: "multiline-pragma", cfg: base_cfg(), text: "PROGRAM P\n{attribute 'foo'\n   bar := 1}\nx := 1;\nEND_PROGRAM\n", ranges: &[(1, 0, 3, 0)], ontype: &[(2, 3)] },
        Witness { name: "var-colon-in-string", cfg: base_cfg(), text: "PROGRAM P\nVAR\n  arr : ARRAY[0..1] OF STRING := [\n'a:b',\n  'c'];\n  x : INT;\nEND_VAR\nEND_PROGRAM\n", ranges: &[(3, 0, 3, 2)], ontype: &[(3, 5)] },
        Witness { name: "unterminated-comment", cfg: base_cfg(), text: "x := 1; (* open\n  y := 2;\n  z := 3;\n", ranges: &[], ontype: &[] },
        Witness { name: "web-comment-interior", cfg: base_cfg(), text: "PROGRAM P\n(* first\n      aligned   art\n   *)\nx := 1;\nEND_PROGRAM\n", ranges: &[], ontype: &[] },
        Witness { name: "web-stray-cr", cfg: base_cfg(), text: "a\r\r\nb\n", ranges: &[], ontype: &[] },
        Witness { name: "lexer-context-dependent-token", cfg: base_cfg(), text: "x := D#2024-01 ;\n", ranges: &[], ontype: &[] },
        Witness { name: "align-assign-op-in-token", cfg: Cfg { spacing: Some("compact".into()), ..base_cfg() }, text: "PROGRAM P\nlonger_name := 1;\na <= > b;\nEND_PROGRAM\n", ranges: &[(2, 0, 2, 3)], ontype: &[(2, 9)] },
        Witness { name: "exotic-space", cfg: base_cfg(), text: "x := 1;\n\u{a0}\n// c\n", ranges: &[], ontype: &[] },
    ]
}

// ---------------------------------------------------------------------------------------------
// Running one case
// ---------------------------------------------------------------------------------------------

pub struct Sessions {
    bin: PathBuf,
    roots: PathBuf,
    live: BTreeMap<String, Lsp>,
    pub restarts: u64,
    counter: u64,
}

impl Sessions {
    fn key(profile: &Option<String>) -> String {
        profile.clone().unwrap_or_else(|| "-".into())
    }

    fn get(&mut self, profile: &Option<String>) -> Result<&mut Lsp, String> {
        let key = Self::key(profile);
        if !self.live.contains_key(&key) {
            self.counter += 1;
            let root = self.roots.join(format!("ws{}", self.counter));
            let lsp = Lsp::start(&self.bin, &root, profile.as_deref())?;
            self.live.insert(key.clone(), lsp);
        }
        Ok(self.live.get_mut(&key).unwrap())
    }

    fn drop_session(&mut self, profile: &Option<String>) {
        if let Some(l) = self.live.remove(&Self::key(profile)) {
            l.stop();
            self.restarts += 1;
        }
    }

    fn stop_all(&mut self) {
        for (_, l) in std::mem::take(&mut self.live) {
            l.stop();
        }
        let _ = std::fs::remove_dir_all(&self.roots);
    }
}

fn options(cfg: &Cfg) -> Value {
    json!({"tabSize": cfg.tab, "insertSpaces": cfg.spaces})
}

pub enum Req {
    Full,
    Range(u32, u32, u32, u32),
    OnType(u32, u32),
}

/// One request on a freshly opened document (a dead server is restarted by the caller's next `get`).
fn lsp_request(sessions: &mut Sessions, cfg: &Cfg, settings: &Value, text: &str, req: &Req, doc_no: &mut u64) -> Result<Reply, String> {
    let lsp = sessions.get(&cfg.profile)?;
    *doc_no += 1;
    let uri = format!("file://{}/doc{}.st", lsp.root.display(), *doc_no);
    lsp.notify("workspace/didChangeConfiguration", json!({"settings": settings}));
    lsp.notify(
        "textDocument/didOpen",
        json!({"textDocument": {"uri": uri, "languageId": "structured-text", "version": 1, "text": text}}),
    );
    // barrier + sanity: the server holds exactly the text we sent
    match lsp.request("trust-lsp/verifDocumentText", json!({"uri": uri})) {
        Ok(v) => {
            if v["text"].as_str() != Some(text) {
                return Err(format!("server text differs from the text sent for {uri}"));
            }
        }
        Err(LspErr::Dead) => {
            sessions.drop_session(&cfg.profile);
            return Err("server died on didOpen".into());
        }
        Err(e) => return Err(format!("verifDocumentText failed: {e:?}")),
    }
    let td = json!({"uri": uri});
    let r = match req {
        Req::Full => lsp.request("textDocument/formatting", json!({"textDocument": td, "options": options(cfg)})),
        Req::Range(sl, sc, el, ec) => lsp.request(
            "textDocument/rangeFormatting",
            json!({"textDocument": td, "options": options(cfg),
                   "range": {"start": {"line": sl, "character": sc}, "end": {"line": el, "character": ec}}}),
        ),
        Req::OnType(l, c) => lsp.request(
            "textDocument/onTypeFormatting",
            json!({"textDocument": td, "options": options(cfg), "ch": ";",
                   "position": {"line": l, "character": c}}),
        ),
    };
    let reply = parse_reply(r);
    match reply {
        Reply::Panic | Reply::Timeout => sessions.drop_session(&cfg.profile),
        _ => {
            let lsp = sessions.get(&cfg.profile)?;
            lsp.notify("textDocument/didClose", json!({"textDocument": {"uri": uri}}));
        }
    }
    Ok(reply)
}

thread_local! {
    /// (op, what) of the oracle failures of the case being run (read by the neighbourhood search)
    static CASE_FAILURES: std::cell::RefCell<Vec<(String, String)>> = const { std::cell::RefCell::new(Vec::new()) };
}

fn oracle_line(out: &mut Out, doc: &str, op: &str, verdict: &str, what: &str, detail: &str) {
    if verdict != "ok" {
        CASE_FAILURES.with(|f| f.borrow_mut().push((op.to_string(), what.to_string())));
    }
    out.line(format!(
        "# oracle {}",
        json!({"doc": doc, "op": op, "verdict": verdict, "what": what, "detail": detail})
    ));
    out.count(&format!("oracle-{verdict}"));
}

/// Evaluate the property's statement for one reply; returns the text after applying the edits.
fn judge(out: &mut Out, doc: &str, op: &str, text: &str, before: &Canon, reply: &Reply) -> Option<String> {
    match reply {
        Reply::Panic => {
            oracle_line(out, doc, op, "fail", "panic", "the server process died");
            None
        }
        Reply::Timeout => {
            oracle_line(out, doc, op, "fail", "timeout", "no reply within 180 s");
            None
        }
        Reply::Error(e) => {
            oracle_line(out, doc, op, "fail", "error", e);
            None
        }
        Reply::Null => {
            oracle_line(out, doc, op, "ok", "null", "");
            Some(text.to_string())
        }
        Reply::Edits(es) => {
            let after = apply_edits(text, es);
            match compare(before, &canon(&after)) {
                Ok(()) => oracle_line(out, doc, op, "ok", "", ""),
                Err((what, detail)) => oracle_line(out, doc, op, "fail", &what, &detail),
            }
            Some(after)
        }
    }
}

fn web_format(state: &WebIdeState, token: &str, text: &str) -> Result<String, String> {
    let text = text.to_string();
    match std::panic::catch_unwind(std::panic::AssertUnwindSafe(|| state.format_source(token, "main.st", Some(text)))) {
        Ok(Ok(r)) => Ok(r.content),
        Ok(Err(e)) => Err(format!("error:{e:?}")),
        Err(_) => Err("panic".into()),
    }
}

#[allow(clippy::too_many_arguments)]
fn run_case(
    out: &mut Out,
    sessions: &mut Sessions,
    web: &(WebIdeState, String),
    r: &mut Rng,
    cfg: &Cfg,
    text: &str,
    ranges: &[(u32, u32, u32, u32)],
    ontype: &[(u32, u32)],
    doc_no: &mut u64,
) -> Result<(), String> {
    let settings = cfg.settings(r);
    out.line(cfg.line());
    out.line(format!("# doc 0 source {}", json!(text)));
    out.line(format!("src {}", hex(text.as_bytes())));
    doc_lines(out, text);
    if has_irregular_token(text) {
        out.line("# irregular source");
        out.count("text-with-irregular-token");
    }
    let before = canon(text);

    // web IDE formatter
    out.line("web");
    let w = web_format(&web.0, &web.1, text);
    match &w {
        Ok(wt) => out.line(format!("impl {}", hex(wt.as_bytes()))),
        Err(e) => out.line(format!("impl {e}")),
    }
    match &w {
        Ok(wt) => match compare(&before, &canon(wt)) {
            Ok(()) => oracle_line(out, "source", "web", "ok", "", ""),
            Err((what, detail)) => oracle_line(out, "source", "web", "fail", &what, &detail),
        },
        Err(e) => oracle_line(out, "source", "web", "fail", "panic", e),
    }

    // LSP: full, ranges, on-type
    let mut dead = false;
    out.line("full");
    let full = lsp_request(sessions, cfg, &settings, text, &Req::Full, doc_no)?;
    out.line(format!("impl {}", full.canonical()));
    let formatted = judge(out, "source", "full", text, &before, &full);
    if matches!(full, Reply::Panic | Reply::Timeout) {
        dead = true;
    }
    if matches!(&full, Reply::Edits(es) if !es.is_empty()) {
        out.count("full-changed");
    }
    for (k, (sl, sc, el, ec)) in ranges.iter().enumerate() {
        if dead && k > 0 {
            break; // the document panics the server every time; one more restart per case is enough
        }
        out.line(format!("range {sl} {sc} {el} {ec}"));
        let rep = lsp_request(sessions, cfg, &settings, text, &Req::Range(*sl, *sc, *el, *ec), doc_no)?;
        out.line(format!("impl {}", rep.canonical()));
        judge(out, "source", "range", text, &before, &rep);
        if matches!(&rep, Reply::Edits(es) if !es.is_empty()) {
            out.count("range-edit");
        }
    }
    for (k, (l, c)) in ontype.iter().enumerate() {
        if dead && k > 0 {
            break;
        }
        out.line(format!("ontype {l} {c}"));
        let rep = lsp_request(sessions, cfg, &settings, text, &Req::OnType(*l, *c), doc_no)?;
        out.line(format!("impl {}", rep.canonical()));
        judge(out, "source", "ontype", text, &before, &rep);
        if matches!(&rep, Reply::Edits(es) if !es.is_empty()) {
            out.count("ontype-edit");
        }
    }

    // idempotence: format the formatted text again (same configuration)
    if let Some(f) = formatted {
        if f != text {
            out.line(format!("# doc 1 lsp-formatted {}", json!(f)));
            out.line(format!("src {}", hex(f.as_bytes())));
            doc_lines(out, &f);
            if has_irregular_token(&f) {
                out.line("# irregular lsp-formatted");
            }
            out.line("full");
            let again = lsp_request(sessions, cfg, &settings, &f, &Req::Full, doc_no)?;
            out.line(format!("impl {}", again.canonical()));
            match &again {
                Reply::Edits(es) if es.is_empty() => oracle_line(out, "lsp-formatted", "idem", "ok", "", ""),
                Reply::Edits(es) => {
                    let f2 = apply_edits(&f, es);
                    oracle_line(out, "lsp-formatted", "idem", "fail", "not-idempotent", &format!("second formatting changes the text: {:?} -> {:?}", first_diff_line(&f, &f2).0, first_diff_line(&f, &f2).1));
                }
                other => oracle_line(out, "lsp-formatted", "idem", "fail", "panic", &other.canonical()),
            }
        } else {
            out.count("already-formatted");
        }
    }
    if let Ok(wt) = w {
        if wt != text {
            out.line(format!("# doc 2 web-formatted {}", json!(wt)));
            out.line(format!("src {}", hex(wt.as_bytes())));
            doc_lines(out, &wt);
            out.line("web");
            match web_format(&web.0, &web.1, &wt) {
                Ok(w2) => {
                    out.line(format!("impl {}", hex(w2.as_bytes())));
                    if w2 == wt {
                        oracle_line(out, "web-formatted", "web-idem", "ok", "", "");
                    } else {
                        oracle_line(out, "web-formatted", "web-idem", "fail", "not-idempotent", &format!("{:?} -> {:?}", first_diff_line(&wt, &w2).0, first_diff_line(&wt, &w2).1));
                    }
                }
                Err(e) => {
                    out.line(format!("impl {e}"));
                    oracle_line(out, "web-formatted", "web-idem", "fail", "panic", &e);
                }
            }
        }
    }
    Ok(())
}

fn first_diff_line(a: &str, b: &str) -> (String, String) {
    let la: Vec<&str> = a.split('\n').collect();
    let lb: Vec<&str> = b.split('\n').collect();
    let k = la.iter().zip(lb.iter()).position(|(x, y)| x != y).unwrap_or(la.len().min(lb.len()));
    (
        format!("line {k}: {}", la.get(k).copied().unwrap_or("<none>")),
        format!("{}", lb.get(k).copied().unwrap_or("<none>")),
    )
}

fn gen_positions(r: &mut Rng, text: &str) -> (Vec<(u32, u32, u32, u32)>, Vec<(u32, u32)>) {
    let lines: Vec<&str> = text.split('\n').collect();
    let n = lines.len() as u64;
    let mut ranges = Vec::new();
    let nr = 1 + r.below(2);
    for _ in 0..nr {
        let a = r.below(n + 1) as u32;
        let b = if r.chance(1, 8) { r.below(n + 2) as u32 } else { (a as u64 + r.below(4)).min(n + 1) as u32 };
        let (a, b) = if r.chance(1, 12) { (b, a) } else { (a.min(b), a.max(b)) };
        let len = |l: u32| lines.get(l as usize).map(|s| s.chars().count() as u64).unwrap_or(0);
        let sc = if r.bool() { 0 } else { r.below(len(a) + 1) as u32 };
        let ec = if r.chance(1, 3) { 0 } else { r.below(len(b) + 2) as u32 };
        ranges.push((a, sc, b, ec));
    }
    let mut pos = Vec::new();
    let np = 1 + r.below(2);
    for _ in 0..np {
        let l = r.below(n + 1) as u32;
        let c = lines.get(l as usize).map(|s| s.chars().count() as u32).unwrap_or(0);
        pos.push((l, if r.bool() { c } else { 0 }));
    }
    (ranges, pos)
}

// ---------------------------------------------------------------------------------------------
// Neighbourhood search around a model-vs-implementation disagreement, and shrinking
// ---------------------------------------------------------------------------------------------

fn dense_positions(r: &mut Rng, text: &str, k: usize) -> (Vec<(u32, u32, u32, u32)>, Vec<(u32, u32)>) {
    let (mut ranges, mut pos) = gen_positions(r, text);
    let lines: Vec<&str> = text.split('\n').collect();
    let code: Vec<u32> = lines.iter().enumerate().filter(|(_, l)| !l.trim().is_empty()).map(|(i, _)| i as u32).collect();
    if let Some(last) = code.last() {
        pos.push((*last, 2));
        ranges.push((last.saturating_sub(1), 0, *last, 1));
    }
    for _ in 0..k {
        if code.is_empty() {
            break;
        }
        let l = *r.pick(&code);
        pos.push((l, lines[l as usize].trim_end_matches('\r').chars().count() as u32));
        let l2 = *r.pick(&code);
        ranges.push((l2.min(l), 0, l2.max(l), 1));
    }
    (ranges, pos)
}

/// A variant of `source`: 1-3 snippets of the constructs text-based helpers trip over (risky lines, blank
/// runs, a line that wraps) spliced in at random places, with the indentation of the neighbouring line.
fn neighbour_text(r: &mut Rng, source: &str) -> String {
    let crlf = source.contains("\r\n");
    let mut lines: Vec<String> = source.split('\n').map(|l| l.trim_end_matches('\r').to_string()).collect();
    let n = 1 + r.below(3);
    for _ in 0..n {
        let at = r.below(lines.len() as u64 + 1) as usize;
        let lead: String = lines[at.min(lines.len() - 1)..]
            .iter()
            .chain(lines[..at.min(lines.len())].iter().rev())
            .find(|l| !l.trim().is_empty())
            .map(|l| l.chars().take_while(|c| *c == ' ' || *c == '\t').collect())
            .unwrap_or_default();
        let mut snippet: Vec<String> = Vec::new();
        match r.below(6) {
            0 => {
                for _ in 0..(3 + r.below(4)) {
                    snippet.push(r.pick(&["", "", "  ", "\t"]).to_string());
                }
            }
            1 => {
                let mut t = format!("{lead}{}(", r.pick(IDENTS));
                for k in 0..(6 + r.below(8)) {
                    if k > 0 {
                        t.push_str(", ");
                    }
                    t.push_str(&format!("{} := {}", r.pick(IDENTS), r.pick(IDENTS)));
                }
                t.push_str(");");
                snippet.push(t);
            }
            2 => {
                // literals with ':' in alignment-sensitive positions
                let (a, b) = (*r.pick(ALL_LITERALS), *r.pick(ALL_LITERALS));
                snippet.push(format!("{lead}VAR"));
                snippet.push(format!("{lead}    opens : ARRAY[0..1] OF TOD := [{a},"));
                snippet.push(format!("{lead}        {b}]; closed : BOOL;"));
                snippet.push(format!("{lead}    {a} t : TOD;"));
                snippet.push(format!("{lead}    a_much_longer_name : DT := {b};"));
                snippet.push(format!("{lead}END_VAR"));
            }
            _ => {
                for _ in 0..(1 + r.below(3)) {
                    snippet.push(format!("{lead}{}", r.pick(RISKY_LINES)));
                }
            }
        }
        for (k, l) in snippet.into_iter().enumerate() {
            lines.insert((at + k).min(lines.len()), l);
        }
    }
    if r.chance(1, 4) {
        while lines.last().map(|l| l.trim().is_empty()).unwrap_or(false) {
            lines.pop();
        }
        lines.push(r.pick(ASTRAL_LAST_LINES).to_string());
    }
    lines.join(if crlf { "\r\n" } else { "\n" })
}

fn neighbour_cfg(r: &mut Rng, base: &Cfg) -> Cfg {
    let mut c = base.clone();
    match r.below(3) {
        0 => {}
        1 => c.max_len = Some(*r.pick(&[30u64, 40, 60])),
        _ => {
            c.max_len = None;
            if r.bool() {
                c.align_asg = Some(r.bool());
            }
            if r.bool() {
                c.align_var = Some(r.bool());
            }
        }
    }
    c
}

struct Prober<'a> {
    sessions: &'a mut Sessions,
    web: &'a (WebIdeState, String),
    doc_no: &'a mut u64,
    budget: u64,
}

impl<'a> Prober<'a> {
    fn lsp(&mut self, cfg: &Cfg, settings: &Value, text: &str, req: &Req) -> Option<Reply> {
        if self.budget == 0 {
            return None;
        }
        self.budget -= 1;
        lsp_request(self.sessions, cfg, settings, text, req, self.doc_no).ok()
    }

    fn differs(text: &str, reply: &Reply) -> Option<String> {
        match reply {
            Reply::Edits(es) => compare(&canon(text), &canon(&apply_edits(text, es))).err().map(|(w, _)| w),
            Reply::Panic => Some("panic".into()),
            _ => None,
        }
    }

    /// Does the failure `(op, what)` occur on `text`?  For range / on-type every line is tried; the
    /// position that fails is returned.
    fn fails(&mut self, cfg: &Cfg, settings: &Value, text: &str, op: &str, what: &str) -> Option<Option<(u32, u32)>> {
        let nlines = text.split('\n').count() as u32;
        match op {
            "full" => {
                let rep = self.lsp(cfg, settings, text, &Req::Full)?;
                (Self::differs(text, &rep).as_deref() == Some(what)).then_some(None)
            }
            "idem" => {
                let rep = self.lsp(cfg, settings, text, &Req::Full)?;
                let Reply::Edits(es) = &rep else { return None };
                let f = apply_edits(text, es);
                let again = self.lsp(cfg, settings, &f, &Req::Full)?;
                matches!(&again, Reply::Edits(es2) if !es2.is_empty()).then_some(None)
            }
            "ontype" | "range" => {
                for l in 0..nlines {
                    if text.split('\n').nth(l as usize).map(|s| s.trim().is_empty()).unwrap_or(true) {
                        continue;
                    }
                    let req = if op == "ontype" { Req::OnType(l, 0) } else { Req::Range(l, 0, l, 1) };
                    let rep = self.lsp(cfg, settings, text, &req)?;
                    if Self::differs(text, &rep).as_deref() == Some(what) {
                        return Some(Some((l, 0)));
                    }
                }
                None
            }
            "web" => {
                let w = web_format(&self.web.0, &self.web.1, text).ok()?;
                (compare(&canon(text), &canon(&w)).err().map(|(w, _)| w).as_deref() == Some(what)).then_some(None)
            }
            "web-idem" => {
                let w = web_format(&self.web.0, &self.web.1, text).ok()?;
                let w2 = web_format(&self.web.0, &self.web.1, &w).ok()?;
                (w2 != w).then_some(None)
            }
            _ => None,
        }
    }

    /// Greedy line removal while the same failure persists.
    fn shrink(&mut self, cfg: &Cfg, settings: &Value, text: &str, op: &str, what: &str) -> (String, Option<(u32, u32)>) {
        let eol = if text.contains("\r\n") { "\r\n" } else { "\n" };
        let mut lines: Vec<String> = text.split('\n').map(|l| l.trim_end_matches('\r').to_string()).collect();
        let mut pos = self.fails(cfg, settings, text, op, what).flatten();
        // a smaller text must not run into a recorded finding the original is free of
        let guarded = |t: &str| has_irregular_token(t) || lex(t).iter().any(|k| k.kind == TokenKind::Error);
        let was_guarded = guarded(text);
        let mut i = 0usize;
        while i < lines.len() && self.budget > 0 {
            let mut cand = lines.clone();
            cand.remove(i);
            let t = cand.join(eol);
            if !was_guarded && guarded(&t) {
                i += 1;
                continue;
            }
            match self.fails(cfg, settings, &t, op, what) {
                Some(p) => {
                    lines = cand;
                    pos = p;
                }
                None => i += 1,
            }
        }
        (lines.join(eol), pos)
    }
}

/// `--neighbour <file>`: JSON array of {"cfg": <cfg line>, "source": <text>} (cases on which model and
/// implementation disagreed).  For each, `--cases` variants are run through the normal case runner (so
/// the property oracle judges them); the first variants that fail are shrunk and run again.
fn run_neighbours(args: &Args, out: &mut Out, sessions: &mut Sessions, web: &(WebIdeState, String), path: &str) -> Result<(), String> {
    let seeds: Vec<Value> = serde_json::from_str(&std::fs::read_to_string(path).map_err(|e| e.to_string())?).map_err(|e| e.to_string())?;
    let mut doc_no = 1_000_000u64;
    let mut shrinks_left = 3;
    for (i, e) in seeds.iter().enumerate() {
        let base = Cfg::parse_line(e["cfg"].as_str().unwrap_or("")).ok_or("bad cfg line in the neighbour file")?;
        let source = e["source"].as_str().unwrap_or("").to_string();
        // `want` = [op, what]: the entry is a failing input already (an oracle failure of a generated case);
        // it is run as it is, with the request that failed, and shrunk while that failure persists
        let want: Option<(String, String)> = match (e["want"][0].as_str(), e["want"][1].as_str()) {
            (Some(a), Some(b)) => Some((a.to_string(), b.to_string())),
            _ => None,
        };
        let nums = |v: &Value| -> Vec<u32> { v.as_array().map(|a| a.iter().filter_map(|x| x.as_u64()).map(|x| x as u32).collect()).unwrap_or_default() };
        let req_ranges: Vec<(u32, u32, u32, u32)> = e["requests"]["ranges"].as_array().map(|a| a.iter().map(&nums).filter(|v| v.len() == 4).map(|v| (v[0], v[1], v[2], v[3])).collect()).unwrap_or_default();
        let req_ontype: Vec<(u32, u32)> = e["requests"]["ontype"].as_array().map(|a| a.iter().map(&nums).filter(|v| v.len() == 2).map(|v| (v[0], v[1])).collect()).unwrap_or_default();
        for j in 0..(if want.is_some() { 1 } else { args.cases }) {
            let n = 100_000 + (i as u64) * 1_000 + j;
            let mut r = Rng::for_case(args.seed, n);
            let (text, cfg) = if j == 0 { (source.clone(), base.clone()) } else { (neighbour_text(&mut r, &source), neighbour_cfg(&mut r, &base)) };
            let (mut ranges, mut pos) = dense_positions(&mut r, &text, 3);
            if j == 0 {
                ranges.splice(0..0, req_ranges.iter().copied());
                pos.splice(0..0, req_ontype.iter().copied());
            }
            out.line(format!("case {n}"));
            out.line("tag neighbour");
            CASE_FAILURES.with(|f| f.borrow_mut().clear());
            run_case(out, sessions, web, &mut r, &cfg, &text, &ranges, &pos, &mut doc_no)?;
            out.line("end");
            let fails = CASE_FAILURES.with(|f| f.borrow().clone());
            out.add("neighbour-variants", 1);
            let target = match &want {
                Some(w) => fails.iter().find(|f| *f == w),
                None => fails.first(),
            };
            if let Some((op, what)) = target {
                out.add("neighbour-variants-failing", 1);
                if (want.is_some() || shrinks_left > 0) && what != "panic" {
                    if want.is_none() {
                        shrinks_left -= 1;
                    }
                    let settings = cfg.settings(&mut r);
                    let mut p = Prober { sessions: &mut *sessions, web, doc_no: &mut doc_no, budget: 1500 };
                    let (small, at) = p.shrink(&cfg, &settings, &text, op, what);
                    let (ranges, pos): (Vec<(u32, u32, u32, u32)>, Vec<(u32, u32)>) = match (op.as_str(), at) {
                        ("ontype", Some((l, c))) => (vec![], vec![(l, c)]),
                        ("range", Some((l, _))) => (vec![(l, 0, l, 1)], vec![]),
                        _ => (vec![], vec![]),
                    };
                    out.line(format!("case {}", n + 500));
                    out.line("tag neighbour");
                    out.line("tag shrunk");
                    run_case(out, sessions, web, &mut r, &cfg, &small, &ranges, &pos, &mut doc_no)?;
                    out.line("end");
                    out.add("neighbour-shrunk", 1);
                }
            }
        }
    }
    Ok(())
}

pub fn run(args: &Args) -> i32 {
    let mut out = Out::new();
    if let Some(t) = args.extra.get("lex") {
        // developer aid: `vharness c15 --lex <hex>` prints the lexer's view of a text
        let text = String::from_utf8(crate::util::unhex(t)).expect("utf8");
        println!("{:?}", lex_classes(&text));
        return 0;
    }
    let bin = args.extra.get("lsp").map(PathBuf::from).unwrap_or_else(|| {
        let exe = std::env::current_exe().expect("exe");
        // <worktree>/.build/cargo/debug/vharness -> <worktree>/.build/lsp/debug/trust-lsp
        exe.parent().unwrap().parent().unwrap().parent().unwrap().join("lsp/debug/trust-lsp")
    });
    if !bin.exists() {
        eprintln!("trust-lsp binary not found at {}", bin.display());
        return 2;
    }
    let roots = PathBuf::from(format!("{}.roots", args.out));
    let _ = std::fs::remove_dir_all(&roots);
    let roots = std::fs::create_dir_all(&roots).map(|_| roots.canonicalize().unwrap()).expect("roots dir");
    let mut sessions = Sessions { bin, roots: roots.clone(), live: BTreeMap::new(), restarts: 0, counter: 0 };
    let web_root = roots.join("web");
    std::fs::create_dir_all(&web_root).expect("web root");
    // fixed clock: the editor session never expires during a long run
    let web_state = WebIdeState::verif_with_clock(Some(web_root), std::sync::Arc::new(|| 1_000));
    let session = match web_state.create_session(IdeRole::Editor) {
        Ok(s) => s,
        Err(e) => {
            eprintln!("cannot create web IDE session: {e:?}");
            return 2;
        }
    };
    let web = (web_state, session.token);
    let wit = witnesses();
    let nw = wit.len() as u64;
    // cases nw+1 ..= nw+glue_cases sweep the glue matrix (3 cases per block of GLUE_SWEEP_LINES pairs)
    let glue_cases = args.extra_usize("gluecases", 42) as u64;
    let mut doc_no = 0u64;
    let mut code = 0;
    let neighbour = args.extra.get("neighbour").cloned();
    if let Some(path) = &neighbour {
        if let Err(e) = run_neighbours(args, &mut out, &mut sessions, &web, path) {
            eprintln!("neighbourhood search: harness error: {e}");
            code = 3;
        }
    }
    for n in if neighbour.is_some() { Vec::new() } else { args.case_numbers() } {
        let mut r = Rng::for_case(args.seed, n);
        out.line(format!("case {n}"));
        let res: Result<(), String> = if n == 0 {
            out.line("tag lexer-validation");
            lexer_validation(&mut out, args.extra_usize("lexreps", 4))
        } else if n <= nw {
            let w = &wit[(n - 1) as usize];
            out.line(format!("tag witness {}", w.name));
            out.line("tag nontrivial");
            run_case(&mut out, &mut sessions, &web, &mut r, &w.cfg, w.text, w.ranges, w.ontype, &mut doc_no)
        } else if n <= nw + glue_cases {
            out.line("tag glue-matrix");
            out.count("text-glue-matrix");
            let (cfg, text) = gen_glue_matrix(&mut r, n - nw - 1, &mut out);
            if canon(&text).toks.len() >= 3 && text.contains('\n') {
                out.line("tag nontrivial");
            }
            let (ranges, pos) = dense_positions(&mut r, &text, 3);
            run_case(&mut out, &mut sessions, &web, &mut r, &cfg, &text, &ranges, &pos, &mut doc_no)
        } else {
            let mut cfg = gen_cfg(&mut r);
            let (text, tags) = gen_text(&mut r);
            let risky = tags.first() == Some(&"risky");
            if risky && r.bool() {
                // half of these texts with a line limit that their long lines exceed
                cfg.max_len = Some(*r.pick(&[30u64, 40, 60]));
            }
            for t in &tags {
                out.line(format!("tag {t}"));
                out.count(&format!("text-{t}"));
            }
            if let Some(p) = &cfg.profile {
                out.count(&format!("profile-{}", p.trim()));
            }
            if cfg.spacing.as_deref().map(|s| s.eq_ignore_ascii_case("compact") || s.eq_ignore_ascii_case("tight")).unwrap_or(false) {
                out.count("cfg-compact");
            }
            if cfg.max_len.is_some() {
                out.count("cfg-maxlen");
            }
            if cfg.end_kw.is_some() {
                out.count("cfg-endkw");
            }
            // non-trivial: the text has at least three non-trivia tokens on at least two lines
            let c = canon(&text);
            if c.toks.len() >= 3 && text.contains('\n') {
                out.line("tag nontrivial");
            }
            let (mut ranges, mut pos) = gen_positions(&mut r, &text);
            if tags.contains(&"astral-last-line") {
                // requests that reach the unterminated last line
                let last = text.split('\n').count() as u32 - 1;
                pos.push((last, 3));
                ranges.push((last.saturating_sub(r.below(3) as u32), 0, last, 2));
            }
            if risky {
                // several more requests, aimed at non-blank lines
                let code_lines: Vec<u32> = text.split('\n').enumerate().filter(|(_, l)| !l.trim().is_empty()).map(|(i, _)| i as u32).collect();
                for _ in 0..3 {
                    if !code_lines.is_empty() {
                        let l = *r.pick(&code_lines);
                        pos.push((l, text.split('\n').nth(l as usize).map(|s| s.trim_end_matches('\r').chars().count() as u32).unwrap_or(0)));
                        let l2 = *r.pick(&code_lines);
                        ranges.push((l2.min(l), 0, l2.max(l), 1));
                    }
                }
            }
            run_case(&mut out, &mut sessions, &web, &mut r, &cfg, &text, &ranges, &pos, &mut doc_no)
        };
        out.line("end");
        if let Err(e) = res {
            eprintln!("case {n}: harness error: {e}");
            code = 3;
            break;
        }
    }
    out.add("lsp-restarts", sessions.restarts);
    sessions.stop_all();
    let driver = args.extra.get("driver").map(PathBuf::from).unwrap_or_else(|| {
        let exe = std::env::current_exe().expect("exe");
        // <worktree>/.build/cargo/debug/vharness -> <worktree>/lean/.lake/build/bin/driver
        exe.parent().unwrap().parent().unwrap().parent().unwrap().parent().unwrap().join("lean/.lake/build/bin/driver")
    });
    if let Err(e) = resolve_relex(&mut out, &driver) {
        eprintln!("re-lex verdicts: {e}");
        code = 3;
    }
    out.finish(&args.out);
    code
}
