//! C16 — rename preserves program meaning and is reversible.
//!
//! Generates multi-file Structured Text projects from a small scope model (CONFIGURATION with
//! VAR_GLOBAL / TASK / program instances, STRUCT types, FUNCTIONs, FUNCTION_BLOCKs with methods,
//! PROGRAMs; names from a small pool with case variants so that shadowing and clashes are common),
//! renders them to text while recording every identifier occurrence (file, offset, scope, kind),
//! and calls the REAL `trust_ide::rename::rename` for occurrence x new-name pairs.
//!
//! Per project the structure (scopes, declarations, occurrences) is written in the line protocol so
//! that the Lean model (`driver c16`) computes refusal / edit set for the same requests.  For every
//! accepted rename the property's own statement is evaluated on the implementation (`# orc` lines):
//! edits well-formed (lexed identifier tokens, disjoint, in bounds), diagnostics of the re-analysed
//! project equal up to the name, both projects run on the same input trace with equal state
//! sequences, and renaming back (at the declaration) restores the text.

use std::collections::{BTreeMap, BTreeSet};
use std::fmt::Write as _;

use crate::rng::Rng;
use crate::util::{hex, Out};
use crate::Args;
use text_size::TextSize;
use trust_hir::db::{FileId, SemanticDatabase, SourceDatabase};
use trust_hir::Database;
use trust_runtime::harness::TestHarness;
use trust_runtime::value::{Duration, Value};

// ------------------------------------------------------------------------------------------------
// project AST
// ------------------------------------------------------------------------------------------------

#[derive(Clone, Debug, PartialEq)]
pub enum Ty {
    Int,
    /// user type: item index + spelling used at this site
    Named(usize, String),
}

#[derive(Clone, Debug)]
pub struct VarD {
    pub name: String,
    pub ty: Ty,
    pub init: i64,
    /// declared in the same comma-separated list as the previous variable (`a, b : T;`)
    pub join: bool,
}

type ArgList = Vec<(Option<String>, Expr)>;

#[derive(Clone, Debug)]
pub enum Expr {
    Lit(i64),
    Var(String),
    Bin(Box<Expr>, char, Box<Expr>),
    Call { f: String, args: ArgList },
    Mem { base: String, field: String },
    MCall { base: String, m: String, args: ArgList },
    /// unqualified method call inside the owning FB
    Abs(Box<Expr>),
}

#[derive(Clone, Debug)]
pub enum Lv {
    Var(String),
    Mem { base: String, field: String },
}

#[derive(Clone, Debug)]
pub enum Stmt {
    Assign(Lv, Expr),
    FbCall { inst: String, ins: Vec<(String, Expr)>, outs: Vec<(String, String)> },
    If(Expr, Expr, Vec<Stmt>),
    /// `var := Value;` on an enum variable
    EnumAssign(String, String),
    /// `IF var = Value THEN … END_IF;`
    IfEnum(String, String, Vec<Stmt>),
}

#[derive(Clone, Debug, Default)]
pub struct MethodD {
    pub name: String,
    pub inputs: Vec<VarD>,
    pub locals: Vec<VarD>,
    pub body: Vec<Stmt>,
}

#[derive(Clone, Debug)]
pub enum ItemK {
    Cfg { globals: Vec<VarD>, task: String, insts: Vec<(String, String, String)> },
    /// fields with their "joined to the previous field declaration" flag (`lo, hi : DINT;`)
    Struct { fields: Vec<(String, bool)> },
    Enum { values: Vec<String> },
    Alias,
    /// `dead`: never called (its body is analysed but not executed; hosts the enum literals, which the
    /// runtime cannot evaluate unqualified)
    Func { inputs: Vec<VarD>, locals: Vec<VarD>, body: Vec<Stmt>, dead: bool },
    Fb { inputs: Vec<VarD>, outputs: Vec<VarD>, locals: Vec<VarD>, methods: Vec<MethodD>, body: Vec<Stmt> },
    Prog { locals: Vec<VarD>, body: Vec<Stmt> },
}

#[derive(Clone, Debug)]
pub struct Item {
    pub file: usize,
    pub name: String,
    pub kind: ItemK,
}

#[derive(Clone, Debug, Default)]
pub struct Project {
    pub nfiles: usize,
    pub items: Vec<Item>,
    /// references may be spelled in a different case than their declaration
    pub variants: bool,
    /// per file: 0 = as generated, 1 = every symbol declared only in other files is spelled ALL-UPPER,
    /// 2 = all-lower
    pub policy: Vec<u8>,
}

// ------------------------------------------------------------------------------------------------
// rendered project: text + structure tables
// ------------------------------------------------------------------------------------------------

#[derive(Clone, Copy, Debug, PartialEq, Eq)]
pub enum DK { Var, Param, Func, Fb, Prog, Method, Stype, Field, Cfg, Task, Inst, EnumVal }
impl DK {
    fn s(self) -> &'static str {
        match self {
            DK::Var => "var", DK::Param => "param", DK::Func => "func", DK::Fb => "fb", DK::Prog => "prog",
            DK::Method => "method", DK::Stype => "stype", DK::Field => "field", DK::Cfg => "cfg",
            DK::Task => "task", DK::Inst => "inst", DK::EnumVal => "enumval",
        }
    }
}

#[derive(Clone, Copy, Debug, PartialEq, Eq)]
pub enum OKind { Decl, Ref, Typ, Mem, Arg, CTask, CProg, Misc }
impl OKind {
    fn s(self) -> &'static str {
        match self {
            OKind::Decl => "decl", OKind::Ref => "ref", OKind::Typ => "typ", OKind::Mem => "mem",
            OKind::Arg => "arg", OKind::CTask => "ctask", OKind::CProg => "cprog", OKind::Misc => "misc",
        }
    }
}

#[derive(Clone, Debug)]
pub struct DeclR { pub file: usize, pub scope: usize, pub kind: DK, pub start: usize, pub name: String, pub tyocc: Option<usize> }
#[derive(Clone, Debug)]
pub struct OccR { pub file: usize, pub start: usize, pub name: String, pub scope: usize, pub kind: OKind, pub link: Option<usize> }
#[derive(Clone, Debug)]
pub struct ScopeR { pub file: usize, pub parent: usize, pub owner: usize }

#[derive(Clone, Debug, Default)]
pub struct Rendered {
    pub texts: Vec<String>,
    pub scopes: Vec<ScopeR>, // scope id = index + 1 (0 = global)
    pub decls: Vec<DeclR>,
    pub occs: Vec<OccR>,
}

struct R<'a> {
    out: &'a mut Rendered,
    file: usize,
    /// case policy of this file and the (normalised) names it applies to
    policy: u8,
    foreign_only: &'a BTreeSet<String>,
}

impl<'a> R<'a> {
    fn raw(&mut self, s: &str) {
        self.out.texts[self.file].push_str(s);
    }
    fn occ(&mut self, name: &str, scope: usize, kind: OKind, link: Option<usize>) -> usize {
        let respelled;
        let name = if kind != OKind::Decl && self.policy != 0 && self.foreign_only.contains(&norm(name)) {
            respelled = if self.policy == 1 { name.to_ascii_uppercase() } else { name.to_ascii_lowercase() };
            respelled.as_str()
        } else {
            name
        };
        let start = self.out.texts[self.file].len();
        self.out.texts[self.file].push_str(name);
        self.out.occs.push(OccR { file: self.file, start, name: name.to_string(), scope, kind, link });
        self.out.occs.len() - 1
    }
    fn decl(&mut self, name: &str, scope_of_decl: usize, pos_scope: usize, kind: DK) -> usize {
        let did = self.out.decls.len();
        let start = self.out.texts[self.file].len();
        self.out.decls.push(DeclR { file: self.file, scope: scope_of_decl, kind, start, name: name.to_string(), tyocc: None });
        self.occ(name, pos_scope, OKind::Decl, Some(did));
        did
    }
    fn new_scope(&mut self, parent: usize, owner: usize) -> usize {
        self.out.scopes.push(ScopeR { file: self.file, parent, owner });
        self.out.scopes.len()
    }
    fn ty(&mut self, ty: &Ty, scope: usize) -> Option<usize> {
        match ty {
            Ty::Int => {
                self.raw("DINT");
                None
            }
            Ty::Named(_, sp) => Some(self.occ(sp, scope, OKind::Typ, None)),
        }
    }
    fn var_block(&mut self, kw: &str, vars: &[VarD], decl_scope: usize, pos_scope: usize, kind: DK) {
        if vars.is_empty() {
            return;
        }
        self.raw(kw);
        self.raw("\n");
        let mut i = 0;
        while i < vars.len() {
            // one declaration: vars[i] and every following variable flagged `join`
            let mut j = i + 1;
            while j < vars.len() && vars[j].join {
                j += 1;
            }
            self.raw("    ");
            let mut dids = Vec::new();
            for (k, v) in vars[i..j].iter().enumerate() {
                if k > 0 {
                    self.raw(", ");
                }
                dids.push(self.decl(&v.name, decl_scope, pos_scope, kind));
            }
            self.raw(" : ");
            let t = self.ty(&vars[i].ty, pos_scope);
            for d in dids {
                self.out.decls[d].tyocc = t;
            }
            if j == i + 1 && vars[i].ty == Ty::Int && vars[i].init != 0 {
                self.raw(&format!(" := {}", vars[i].init));
            }
            self.raw(";\n");
            i = j;
        }
        self.raw("END_VAR\n");
    }
    fn args(&mut self, args: &ArgList, scope: usize, callee: usize) {
        self.raw("(");
        for (i, (formal, e)) in args.iter().enumerate() {
            if i > 0 {
                self.raw(", ");
            }
            if let Some(f) = formal {
                self.occ(f, scope, OKind::Arg, Some(callee));
                self.raw(" := ");
            }
            self.expr(e, scope);
        }
        self.raw(")");
    }
    fn expr(&mut self, e: &Expr, scope: usize) {
        match e {
            Expr::Lit(v) => self.raw(&format!("{v}")),
            Expr::Var(n) => {
                self.occ(n, scope, OKind::Ref, None);
            }
            Expr::Bin(a, op, b) => {
                self.raw("(");
                self.expr(a, scope);
                self.raw(&format!(" {op} "));
                self.expr(b, scope);
                self.raw(")");
            }
            Expr::Call { f, args } => {
                let c = self.occ(f, scope, OKind::Ref, None);
                self.args(args, scope, c);
            }
            Expr::Mem { base, field } => {
                let b = self.occ(base, scope, OKind::Ref, None);
                self.raw(".");
                self.occ(field, scope, OKind::Mem, Some(b));
            }
            Expr::MCall { base, m, args } => {
                let b = self.occ(base, scope, OKind::Ref, None);
                self.raw(".");
                let mo = self.occ(m, scope, OKind::Mem, Some(b));
                self.args(args, scope, mo);
            }
            Expr::Abs(a) => {
                self.occ("ABS", scope, OKind::Ref, None);
                self.raw("(");
                self.expr(a, scope);
                self.raw(")");
            }
        }
    }
    fn stmts(&mut self, body: &[Stmt], scope: usize, indent: usize) {
        for s in body {
            self.raw(&" ".repeat(indent));
            match s {
                Stmt::Assign(lv, e) => {
                    match lv {
                        Lv::Var(n) => {
                            self.occ(n, scope, OKind::Ref, None);
                        }
                        Lv::Mem { base, field } => {
                            let b = self.occ(base, scope, OKind::Ref, None);
                            self.raw(".");
                            self.occ(field, scope, OKind::Mem, Some(b));
                        }
                    }
                    self.raw(" := (");
                    self.expr(e, scope);
                    self.raw(") MOD 997;\n");
                }
                Stmt::FbCall { inst, ins, outs } => {
                    let c = self.occ(inst, scope, OKind::Ref, None);
                    self.raw("(");
                    let mut first = true;
                    for (f, e) in ins {
                        if !first {
                            self.raw(", ");
                        }
                        first = false;
                        self.occ(f, scope, OKind::Arg, Some(c));
                        self.raw(" := ");
                        self.expr(e, scope);
                    }
                    for (f, v) in outs {
                        if !first {
                            self.raw(", ");
                        }
                        first = false;
                        self.occ(f, scope, OKind::Arg, Some(c));
                        self.raw(" => ");
                        self.occ(v, scope, OKind::Ref, None);
                    }
                    self.raw(");\n");
                }
                Stmt::EnumAssign(v, val) => {
                    self.occ(v, scope, OKind::Ref, None);
                    self.raw(" := ");
                    self.occ(val, scope, OKind::Ref, None);
                    self.raw(";\n");
                }
                Stmt::IfEnum(v, val, body) => {
                    self.raw("IF ");
                    self.occ(v, scope, OKind::Ref, None);
                    self.raw(" = ");
                    self.occ(val, scope, OKind::Ref, None);
                    self.raw(" THEN\n");
                    self.stmts(body, scope, indent + 4);
                    self.raw(&" ".repeat(indent));
                    self.raw("END_IF;\n");
                }
                Stmt::If(a, b, body) => {
                    self.raw("IF ");
                    self.expr(a, scope);
                    self.raw(" > ");
                    self.expr(b, scope);
                    self.raw(" THEN\n");
                    self.stmts(body, scope, indent + 4);
                    self.raw(&" ".repeat(indent));
                    self.raw("END_IF;\n");
                }
            }
        }
    }
}

/// normalised names declared in each file (every kind of declaration)
fn declared_names(p: &Project) -> Vec<BTreeSet<String>> {
    let mut out = vec![BTreeSet::new(); p.nfiles];
    for it in &p.items {
        let s = &mut out[it.file];
        s.insert(norm(&it.name));
        let vs = |v: &[VarD], s: &mut BTreeSet<String>| {
            for d in v {
                s.insert(norm(&d.name));
            }
        };
        match &it.kind {
            ItemK::Cfg { globals, task, insts } => {
                vs(globals, s);
                s.insert(norm(task));
                for (i, _, _) in insts {
                    s.insert(norm(i));
                }
            }
            ItemK::Struct { fields } => {
                for (f, _) in fields {
                    s.insert(norm(f));
                }
            }
            ItemK::Enum { values } => {
                for v in values {
                    s.insert(norm(v));
                }
            }
            ItemK::Alias => {}
            ItemK::Func { inputs, locals, .. } => {
                vs(inputs, s);
                vs(locals, s);
            }
            ItemK::Fb { inputs, outputs, locals, methods, .. } => {
                vs(inputs, s);
                vs(outputs, s);
                vs(locals, s);
                for m in methods {
                    s.insert(norm(&m.name));
                    vs(&m.inputs, s);
                    vs(&m.locals, s);
                }
            }
            ItemK::Prog { locals, .. } => vs(locals, s),
        }
    }
    out
}

pub fn render(p: &Project) -> Rendered {
    let mut out = Rendered { texts: vec![String::new(); p.nfiles], ..Default::default() };
    // file-major, so that declaration and occurrence ids are ordered by (file, offset)
    let mut ordered: Vec<&Item> = Vec::new();
    for f in 0..p.nfiles {
        ordered.extend(p.items.iter().filter(|it| it.file == f));
    }
    // names declared per file; a file's case policy applies to names declared ONLY in other files
    let declared = declared_names(p);
    let foreign_only: Vec<BTreeSet<String>> = (0..p.nfiles)
        .map(|f| {
            let mut s = BTreeSet::new();
            for (g, names) in declared.iter().enumerate() {
                if g != f {
                    s.extend(names.iter().filter(|n| !declared[f].contains(*n)).cloned());
                }
            }
            s
        })
        .collect();
    for it in ordered {
        let mut r = R { out: &mut out, file: it.file, policy: p.policy.get(it.file).copied().unwrap_or(0), foreign_only: &foreign_only[it.file] };
        match &it.kind {
            ItemK::Cfg { globals, task, insts } => {
                r.raw("CONFIGURATION ");
                let d = r.decl(&it.name, 0, 0, DK::Cfg);
                r.raw("\n");
                let cs = r.new_scope(0, d);
                // VAR_GLOBAL of a configuration is defined in the GLOBAL scope (collect_var_block)
                r.var_block("VAR_GLOBAL", globals, 0, 0, DK::Var);
                r.raw("TASK ");
                r.decl(task, cs, 0, DK::Task);
                r.raw(" (");
                r.occ("INTERVAL", 0, OKind::Misc, None);
                r.raw(" := T#10ms, ");
                r.occ("PRIORITY", 0, OKind::Misc, None);
                r.raw(" := 1);\n");
                for (inst, tk, prog) in insts {
                    r.raw("PROGRAM ");
                    r.decl(inst, cs, 0, DK::Inst);
                    r.raw(" WITH ");
                    r.occ(tk, 0, OKind::CTask, Some(cs));
                    r.raw(" : ");
                    r.occ(prog, 0, OKind::CProg, None);
                    r.raw(";\n");
                }
                r.raw("END_CONFIGURATION\n\n");
            }
            ItemK::Struct { fields } => {
                r.raw("TYPE ");
                let d = r.decl(&it.name, 0, 0, DK::Stype);
                r.raw(" : STRUCT\n");
                let ss = r.new_scope(0, d);
                let mut i = 0;
                while i < fields.len() {
                    let mut j = i + 1;
                    while j < fields.len() && fields[j].1 {
                        j += 1;
                    }
                    r.raw("    ");
                    for (k, (f, _)) in fields[i..j].iter().enumerate() {
                        if k > 0 {
                            r.raw(", ");
                        }
                        r.decl(f, ss, 0, DK::Field);
                    }
                    r.raw(" : DINT;\n");
                    i = j;
                }
                r.raw("END_STRUCT\nEND_TYPE\n\n");
            }
            ItemK::Enum { values } => {
                r.raw("TYPE ");
                r.decl(&it.name, 0, 0, DK::Stype);
                r.raw(" : (");
                for (k, v) in values.iter().enumerate() {
                    if k > 0 {
                        r.raw(", ");
                    }
                    // enum values are symbols of the GLOBAL scope of their file (children of the TYPE symbol)
                    r.decl(v, 0, 0, DK::EnumVal);
                }
                r.raw(");\nEND_TYPE\n\n");
            }
            ItemK::Alias => {
                r.raw("TYPE ");
                r.decl(&it.name, 0, 0, DK::Stype);
                r.raw(" : DINT;\nEND_TYPE\n\n");
            }
            ItemK::Func { inputs, locals, body, .. } => {
                r.raw("FUNCTION ");
                let did = r.out.decls.len();
                let sid = r.out.scopes.len() + 1;
                r.decl(&it.name, 0, sid, DK::Func);
                r.new_scope(0, did);
                r.raw(" : DINT\n");
                r.var_block("VAR_INPUT", inputs, sid, sid, DK::Param);
                r.var_block("VAR", locals, sid, sid, DK::Var);
                r.stmts(body, sid, 4);
                r.raw("END_FUNCTION\n\n");
            }
            ItemK::Fb { inputs, outputs, locals, methods, body } => {
                r.raw("FUNCTION_BLOCK ");
                let did = r.out.decls.len();
                let sid = r.out.scopes.len() + 1;
                r.decl(&it.name, 0, sid, DK::Fb);
                r.new_scope(0, did);
                r.raw("\n");
                r.var_block("VAR_INPUT", inputs, sid, sid, DK::Param);
                r.var_block("VAR_OUTPUT", outputs, sid, sid, DK::Param);
                r.var_block("VAR", locals, sid, sid, DK::Var);
                for m in methods {
                    r.raw("METHOD PUBLIC ");
                    let mdid = r.out.decls.len();
                    let msid = r.out.scopes.len() + 1;
                    r.decl(&m.name, sid, msid, DK::Method);
                    r.new_scope(sid, mdid);
                    r.raw(" : DINT\n");
                    r.var_block("VAR_INPUT", &m.inputs, msid, msid, DK::Param);
                    r.var_block("VAR", &m.locals, msid, msid, DK::Var);
                    r.stmts(&m.body, msid, 4);
                    r.raw("END_METHOD\n");
                }
                r.stmts(body, sid, 4);
                r.raw("END_FUNCTION_BLOCK\n\n");
            }
            ItemK::Prog { locals, body } => {
                r.raw("PROGRAM ");
                let did = r.out.decls.len();
                let sid = r.out.scopes.len() + 1;
                r.decl(&it.name, 0, sid, DK::Prog);
                r.new_scope(0, did);
                r.raw("\n");
                r.var_block("VAR", locals, sid, sid, DK::Var);
                r.stmts(body, sid, 4);
                r.raw("END_PROGRAM\n\n");
            }
        }
    }
    out
}

// ------------------------------------------------------------------------------------------------
// generator
// ------------------------------------------------------------------------------------------------

const POOL: &[&str] = &[
    "aa", "bb", "cc", "dd", "ee", "ff", "gg", "hh", "Val", "Cnt", "Tmp", "Idx", "Sum", "Acc", "Pos", "Num", "Lim",
    "Out1", "In1", "Flag_a", "x1", "k", "Motor", "Pump", "Level", "Speed", "Main", "Aux", "Ctl", "Calc", "Scale",
    "Step1", "Run", "Init", "Upd", "Pt", "Rec", "Cfg1", "Fast", "Slow", "Inst1", "Inst2",
];

fn norm(s: &str) -> String {
    s.to_ascii_uppercase()
}

fn case_variant(rng: &mut Rng, s: &str) -> String {
    match rng.below(4) {
        0 => s.to_ascii_uppercase(),
        1 => s.to_ascii_lowercase(),
        _ => s
            .chars()
            .map(|c| if rng.bool() { c.to_ascii_uppercase() } else { c.to_ascii_lowercase() })
            .collect(),
    }
}

/// what a name means to the generator (its own lexical resolution, used only to produce
/// well-typed programs; the model resolves by its own rules from the structure tables)
#[derive(Clone, Debug, PartialEq)]
enum Sem {
    IntVar { writable: bool },
    Inst(usize),    // FB instance / struct variable of item
    EnumVar(usize), // variable of enum item
    Func(usize),
    Method(usize), // method index in the current FB
    Other,
}

#[derive(Clone, Debug)]
struct EnvEntry { name: String, sem: Sem }

struct G<'a> {
    rng: &'a mut Rng,
    variants: bool,
    used_root: BTreeSet<String>,
}

impl<'a> G<'a> {
    fn pool_name(&mut self) -> String {
        let base = *self.rng.pick(POOL);
        if self.rng.chance(1, 6) {
            format!("{}{}", base, self.rng.below(3))
        } else {
            base.to_string()
        }
    }
    fn fresh_root(&mut self) -> String {
        loop {
            let n = self.pool_name();
            if self.used_root.insert(norm(&n)) {
                return n;
            }
        }
    }
    /// a name not clashing (normalised) with `taken`; with some probability deliberately equal to one of
    /// `prefer` (outer names: shadowing)
    fn local_name(&mut self, taken: &mut BTreeSet<String>, prefer: &[String]) -> String {
        for _ in 0..50 {
            let n = if !prefer.is_empty() && self.rng.chance(1, 4) {
                let p = self.rng.pick(prefer).clone();
                if self.rng.chance(1, 3) { case_variant(self.rng, &p) } else { p }
            } else {
                self.pool_name()
            };
            if taken.insert(norm(&n)) {
                return n;
            }
        }
        loop {
            let n = format!("v{}", self.rng.below(100000));
            if taken.insert(norm(&n)) {
                return n;
            }
        }
    }
    fn spell(&mut self, s: &str) -> String {
        if self.variants && self.rng.chance(1, 4) {
            case_variant(self.rng, s)
        } else {
            s.to_string()
        }
    }
}

pub fn gen_project(rng: &mut Rng) -> Project {
    let variants = rng.chance(1, 2);
    let mut g = G { rng, variants, used_root: BTreeSet::new() };
    let nfiles = match g.rng.below(10) {
        0..=3 => 1,
        4..=7 => 2,
        _ => 3,
    };
    // ---- item skeletons (kinds + files), dependency order = item order
    let nstruct = g.rng.below(2) as usize;
    let nalias = g.rng.below(2) as usize;
    let nenum = g.rng.below(2) as usize;
    let nfunc = g.rng.below(3) as usize;
    let nfb = g.rng.below(3) as usize;
    let nprog = 1 + g.rng.below(2) as usize;
    let mut items: Vec<Item> = Vec::new();
    let mut all_root_names: Vec<String> = Vec::new();
    for _ in 0..nstruct {
        let name = g.fresh_root();
        let nf = 1 + g.rng.below(3) as usize;
        let mut taken = BTreeSet::new();
        let prefer = all_root_names.clone();
        let lists = g.rng.chance(1, 2);
        let fields = (0..nf)
            .map(|i| {
                let n = g.local_name(&mut taken, &prefer);
                (n, i > 0 && lists && g.rng.chance(2, 3))
            })
            .collect();
        all_root_names.push(name.clone());
        items.push(Item { file: g.rng.below(nfiles as u64) as usize, name, kind: ItemK::Struct { fields } });
    }
    for _ in 0..nalias {
        let name = g.fresh_root();
        all_root_names.push(name.clone());
        items.push(Item { file: g.rng.below(nfiles as u64) as usize, name, kind: ItemK::Alias });
    }
    // an enum comes with a never-called function of the same file that assigns and compares its values
    // (enum values are visible in their own file only, and the runtime cannot evaluate them unqualified)
    for _ in 0..nenum {
        let name = g.fresh_root();
        let file = g.rng.below(nfiles as u64) as usize;
        let nv = 2 + g.rng.below(3) as usize;
        let values: Vec<String> = (0..nv).map(|_| g.fresh_root()).collect();
        all_root_names.push(name.clone());
        let eidx = items.len();
        items.push(Item { file, name: name.clone(), kind: ItemK::Enum { values: values.clone() } });
        let fname = g.fresh_root();
        let mut taken = BTreeSet::new();
        taken.insert(norm(&fname));
        for v in &values {
            taken.insert(norm(v));
        }
        taken.insert(norm(&name));
        let nl = 1 + g.rng.below(2) as usize;
        let mut locals = Vec::new();
        for i in 0..nl {
            let n = g.local_name(&mut taken, &[]);
            let sp = g.spell(&name);
            locals.push(VarD { name: n, ty: Ty::Named(eidx, sp), init: 0, join: i > 0 && g.rng.bool() });
        }
        let cnt = g.local_name(&mut taken, &[]);
        locals.push(VarD { name: cnt.clone(), ty: Ty::Int, init: 0, join: false });
        let mut body = Vec::new();
        for _ in 0..(2 + g.rng.below(3)) {
            let v = g.rng.pick(&locals[..nl]).name.clone();
            let val = g.rng.pick(&values).clone();
            let (v, val) = (g.spell(&v), g.spell(&val));
            if g.rng.bool() {
                body.push(Stmt::EnumAssign(v, val));
            } else {
                let c = g.spell(&cnt);
                body.push(Stmt::IfEnum(v, val, vec![Stmt::Assign(Lv::Var(c.clone()), Expr::Bin(Box::new(Expr::Var(c)), '+', Box::new(Expr::Lit(1))))]));
            }
        }
        let c = g.spell(&cnt);
        body.push(Stmt::Assign(Lv::Var(g.spell(&fname)), Expr::Var(c)));
        all_root_names.push(fname.clone());
        items.push(Item { file, name: fname, kind: ItemK::Func { inputs: vec![], locals, body, dead: true } });
    }
    let user_types = |items: &[Item], want_fb: bool| -> Vec<usize> {
        items
            .iter()
            .enumerate()
            .filter(|(_, it)| if want_fb { matches!(it.kind, ItemK::Fb { .. }) } else { matches!(it.kind, ItemK::Struct { .. } | ItemK::Alias) })
            .map(|(i, _)| i)
            .collect()
    };
    let alias_types = |items: &[Item]| -> Vec<usize> {
        items.iter().enumerate().filter(|(_, it)| matches!(it.kind, ItemK::Alias)).map(|(i, _)| i).collect()
    };
    // declare a list of variables into scope `taken`
    fn vars(g: &mut G, n: usize, taken: &mut BTreeSet<String>, prefer: &[String], items: &[Item], types: &[usize]) -> Vec<VarD> {
        let mut out = Vec::new();
        for _ in 0..n {
            let ty = if !types.is_empty() && g.rng.chance(1, 3) {
                let t = *g.rng.pick(types);
                Ty::Named(t, g.spell(&items[t].name.clone()))
            } else {
                Ty::Int
            };
            // (a variable may be named like a member of its own type: at the base of `v.m` the real target
            // resolution then picks the member, which the model mirrors in `target`)
            let name = g.local_name(taken, prefer);
            // comma-separated declaration list with the previous variable (same type only)
            let join = match (out.last(), &ty) {
                (Some(VarD { ty: Ty::Int, .. }), Ty::Int) => g.rng.chance(1, 3),
                (Some(VarD { ty: Ty::Named(a, _), .. }), Ty::Named(b, _)) if a == b => g.rng.chance(1, 2),
                _ => false,
            };
            out.push(VarD { name, ty, init: g.rng.range(0, 9), join });
        }
        out
    }
    for _ in 0..nfunc {
        let name = g.fresh_root();
        let file = g.rng.below(nfiles as u64) as usize;
        let mut taken = BTreeSet::new();
        taken.insert(norm(&name));
        let prefer = all_root_names.clone();
        let st = user_types(&items, false);
        let ni = 1 + g.rng.below(2) as usize;
        let al = alias_types(&items);
        let inputs = vars(&mut g, ni, &mut taken, &prefer, &items, &al);
        let nl = g.rng.below(3) as usize;
        let locals = vars(&mut g, nl, &mut taken, &prefer, &items, &st);
        all_root_names.push(name.clone());
        items.push(Item { file, name, kind: ItemK::Func { inputs, locals, body: vec![], dead: false } });
    }
    let field_names: Vec<String> = items
        .iter()
        .flat_map(|it| if let ItemK::Struct { fields } = &it.kind { fields.iter().map(|f| norm(&f.0)).collect() } else { Vec::new() })
        .collect();
    for _ in 0..nfb {
        let name = g.fresh_root();
        let file = g.rng.below(nfiles as u64) as usize;
        let mut taken = BTreeSet::new();
        taken.insert(norm(&name));
        // FB member names differ from all struct field names: a field rename matches member accesses of
        // other files by raw TypeId (recorded finding C16-field-typeid), which the model does not predict
        taken.extend(field_names.iter().cloned());
        let prefer = all_root_names.clone();
        let st = user_types(&items, false);
        let fbs = user_types(&items, true);
        let mut tys = st.clone();
        tys.extend(fbs);
        let al = alias_types(&items);
        let ni = g.rng.below(3) as usize;
        let inputs = vars(&mut g, ni, &mut taken, &prefer, &items, &al);
        let no = 1 + g.rng.below(2) as usize;
        let outputs = vars(&mut g, no, &mut taken, &prefer, &items, &al);
        let nl = g.rng.below(3) as usize;
        let locals = vars(&mut g, nl, &mut taken, &prefer, &items, &tys);
        let nm = g.rng.below(3) as usize;
        let mut methods = Vec::new();
        for _ in 0..nm {
            let mname = loop {
                let n = g.fresh_root(); // POU-kind names are unique project-wide (scope_for_pou looks up by name)
                if taken.insert(norm(&n)) {
                    break n;
                }
            };
            let mut mt = BTreeSet::new();
            mt.insert(norm(&mname));
            let mut pref2 = prefer.clone();
            pref2.extend(inputs.iter().chain(&outputs).chain(&locals).map(|v| v.name.clone()));
            let mi = g.rng.below(3) as usize;
            let minputs = vars(&mut g, mi, &mut mt, &pref2, &items, &al);
            let ml = g.rng.below(2) as usize;
            let mlocals = vars(&mut g, ml, &mut mt, &pref2, &items, &st);
            methods.push(MethodD { name: mname, inputs: minputs, locals: mlocals, body: vec![] });
        }
        all_root_names.push(name.clone());
        items.push(Item { file, name, kind: ItemK::Fb { inputs, outputs, locals, methods, body: vec![] } });
    }
    for _ in 0..nprog {
        let name = g.fresh_root();
        let file = g.rng.below(nfiles as u64) as usize;
        let mut taken = BTreeSet::new();
        taken.insert(norm(&name));
        let prefer = all_root_names.clone();
        let mut tys = user_types(&items, false);
        tys.extend(user_types(&items, true));
        let nl = 2 + g.rng.below(4) as usize;
        let locals = vars(&mut g, nl, &mut taken, &prefer, &items, &tys);
        all_root_names.push(name.clone());
        items.push(Item { file, name, kind: ItemK::Prog { locals, body: vec![] } });
    }
    // ---- configuration (optional): in a file that has a program; instances for that file's programs
    if g.rng.chance(3, 5) {
        let prog_files: Vec<usize> = items.iter().filter(|i| matches!(i.kind, ItemK::Prog { .. })).map(|i| i.file).collect();
        let file = *g.rng.pick(&prog_files);
        let name = g.fresh_root();
        let ng = 1 + g.rng.below(3) as usize;
        let mut globals = Vec::new();
        for _ in 0..ng {
            let n = g.fresh_root();
            globals.push(VarD { name: n, ty: Ty::Int, init: g.rng.range(0, 9), join: false });
        }
        // task and program-instance names: unique in the configuration and different from every global-scope
        // name (the runtime keeps program instances in its global table: recorded finding C16-inst-clash)
        let mut taken: BTreeSet<String> = g.used_root.clone();
        let prefer: Vec<String> = Vec::new();
        let task = g.local_name(&mut taken, &prefer);
        let mut insts = Vec::new();
        for it in items.iter().filter(|i| i.file == file) {
            if matches!(it.kind, ItemK::Prog { .. }) {
                let iname = g.local_name(&mut taken, &prefer);
                let tk = g.spell(&task);
                let pn = g.spell(&it.name);
                insts.push((iname, tk, pn));
            }
        }
        // the configuration goes first in its file so that its globals are declared before use
        let pos = items.iter().position(|i| i.file == file).unwrap_or(0);
        items.insert(pos, Item { file, name, kind: ItemK::Cfg { globals, task, insts } });
        // item indices in Ty::Named shift by one for indices >= pos
        for it in items.iter_mut() {
            let fix = |v: &mut Vec<VarD>| {
                for d in v.iter_mut() {
                    if let Ty::Named(t, _) = &mut d.ty {
                        if *t >= pos {
                            *t += 1;
                        }
                    }
                }
            };
            match &mut it.kind {
                ItemK::Func { inputs, locals, .. } => {
                    fix(inputs);
                    fix(locals);
                }
                ItemK::Fb { inputs, outputs, locals, methods, .. } => {
                    fix(inputs);
                    fix(outputs);
                    fix(locals);
                    for m in methods.iter_mut() {
                        fix(&mut m.inputs);
                        fix(&mut m.locals);
                    }
                }
                ItemK::Prog { locals, .. } => fix(locals),
                _ => {}
            }
        }
    }
    // ---- bodies
    let snapshot = items.clone();
    for idx in 0..items.len() {
        let file = items[idx].file;
        let genv = global_env(&snapshot, file, idx);
        match &snapshot[idx].kind {
            ItemK::Func { dead: true, .. } => {}
            ItemK::Func { inputs, locals, .. } => {
                let mut env = Vec::new();
                push_vars(&mut env, inputs, false, &snapshot);
                push_vars(&mut env, locals, true, &snapshot);
                env.extend(genv.clone());
                let n = 1 + g.rng.below(4) as usize;
                let mut body = gen_body(&mut g, &env, &snapshot, n, 2);
                let e = gen_expr(&mut g, &env, &snapshot, 2);
                let nm = g.spell(&snapshot[idx].name);
                body.push(Stmt::Assign(Lv::Var(nm), e));
                if let ItemK::Func { body: b, .. } = &mut items[idx].kind {
                    *b = body;
                }
            }
            ItemK::Fb { inputs, outputs, locals, methods, .. } => {
                let mut fenv = Vec::new();
                push_vars(&mut fenv, inputs, false, &snapshot);
                push_vars(&mut fenv, outputs, true, &snapshot);
                push_vars(&mut fenv, locals, true, &snapshot);
                for (mi, m) in methods.iter().enumerate() {
                    fenv.push(EnvEntry { name: m.name.clone(), sem: Sem::Method(mi) });
                }
                let mut mbodies = Vec::new();
                for m in methods {
                    let mut env = Vec::new();
                    push_vars(&mut env, &m.inputs, false, &snapshot);
                    push_vars(&mut env, &m.locals, true, &snapshot);
                    env.extend(fenv.clone());
                    env.extend(genv.clone());
                    let n = g.rng.below(3) as usize;
                    let mut body = gen_body(&mut g, &env, &snapshot, n, 1);
                    let e = gen_expr(&mut g, &env, &snapshot, 2);
                    let nm = g.spell(&m.name);
                    body.push(Stmt::Assign(Lv::Var(nm), e));
                    mbodies.push(body);
                }
                let mut env = fenv.clone();
                env.extend(genv.clone());
                let n = 1 + g.rng.below(4) as usize;
                let body = gen_body(&mut g, &env, &snapshot, n, 2);
                if let ItemK::Fb { body: b, methods: ms, .. } = &mut items[idx].kind {
                    *b = body;
                    for (m, mb) in ms.iter_mut().zip(mbodies) {
                        m.body = mb;
                    }
                }
            }
            ItemK::Prog { locals, .. } => {
                let mut env = Vec::new();
                push_vars(&mut env, locals, true, &snapshot);
                env.extend(genv.clone());
                let n = 2 + g.rng.below(6) as usize;
                let body = gen_body(&mut g, &env, &snapshot, n, 2);
                if let ItemK::Prog { body: b, .. } = &mut items[idx].kind {
                    *b = body;
                }
            }
            _ => {}
        }
    }
    // per-file case policy for symbols declared only in other files
    let mut policy: Vec<u8> = (0..nfiles)
        .map(|_| if nfiles > 1 { match g.rng.below(10) { 0..=1 => 1, 2 => 2, _ => 0 } } else { 0 })
        .collect();
    // ---- template twins: two extra files that are byte-for-byte identical up to the PROGRAM name (same
    // length), so that references to shared symbols sit at the same byte ranges in two files
    let mut nfiles = nfiles;
    if g.rng.chance(1, 3) {
        let (fa, fb) = (nfiles, nfiles + 1);
        let (na, nb) = loop {
            let base = g.pool_name();
            let (a, b) = (format!("{base}_a"), format!("{base}_b"));
            if !g.used_root.contains(&norm(&a)) && !g.used_root.contains(&norm(&b)) {
                g.used_root.insert(norm(&a));
                g.used_root.insert(norm(&b));
                break (a, b);
            }
        };
        let mut taken = BTreeSet::new();
        taken.insert(norm(&na));
        taken.insert(norm(&nb));
        let tys: Vec<usize> = items
            .iter()
            .enumerate()
            .filter(|(_, it)| matches!(it.kind, ItemK::Struct { .. } | ItemK::Alias | ItemK::Fb { .. }))
            .map(|(i, _)| i)
            .collect();
        let prefer: Vec<String> = Vec::new();
        let nl = 2 + g.rng.below(3) as usize;
        let snapshot = items.clone();
        let locals = vars(&mut g, nl, &mut taken, &prefer, &snapshot, &tys);
        let mut env = Vec::new();
        push_vars(&mut env, &locals, true, &snapshot);
        env.extend(global_env(&snapshot, fa, snapshot.len()));
        let nb_stmts = 3 + g.rng.below(4) as usize;
        let body = gen_body(&mut g, &env, &snapshot, nb_stmts, 2);
        items.push(Item { file: fa, name: na, kind: ItemK::Prog { locals: locals.clone(), body: body.clone() } });
        items.push(Item { file: fb, name: nb, kind: ItemK::Prog { locals, body } });
        nfiles += 2;
        policy.push(0);
        policy.push(0);
    }
    let variants = variants || policy.iter().any(|p| *p != 0);
    Project { nfiles, items, variants, policy }
}

fn push_vars(env: &mut Vec<EnvEntry>, vars: &[VarD], writable: bool, items: &[Item]) {
    for v in vars {
        let sem = match &v.ty {
            Ty::Int => Sem::IntVar { writable },
            Ty::Named(t, _) => match &items[*t].kind {
                ItemK::Alias => Sem::IntVar { writable },
                ItemK::Enum { .. } => Sem::EnumVar(*t),
                _ => Sem::Inst(*t),
            },
        };
        env.push(EnvEntry { name: v.name.clone(), sem });
    }
}

/// names visible in the global scope of `file`: own file first, then the other files in file order
/// (only root symbols are imported; configuration globals stay private to their file)
fn global_env(items: &[Item], file: usize, user: usize) -> Vec<EnvEntry> {
    let mut env = Vec::new();
    let push_file = |f: usize, own: bool, env: &mut Vec<EnvEntry>| {
        for (i, it) in items.iter().enumerate().filter(|(_, it)| it.file == f) {
            if let ItemK::Cfg { globals, .. } = &it.kind {
                if own {
                    for gvar in globals {
                        env.push(EnvEntry { name: gvar.name.clone(), sem: Sem::IntVar { writable: true } });
                    }
                }
            }
            let sem = match &it.kind {
                ItemK::Func { dead: false, .. } if i < user => Sem::Func(i),
                _ => Sem::Other,
            };
            env.push(EnvEntry { name: it.name.clone(), sem });
        }
    };
    push_file(file, true, &mut env);
    let nfiles = items.iter().map(|i| i.file).max().unwrap_or(0) + 1;
    for f in 0..nfiles {
        if f != file {
            push_file(f, false, &mut env);
        }
    }
    env
}

fn lookup<'e>(env: &'e [EnvEntry], name: &str) -> Option<(usize, &'e EnvEntry)> {
    let n = norm(name);
    env.iter().enumerate().find(|(_, e)| norm(&e.name) == n)
}

/// entries of `env` satisfying `pred` that are not shadowed by an earlier entry
fn visible<'e>(env: &'e [EnvEntry], items: &[Item], pred: impl Fn(&Sem, &[Item]) -> bool) -> Vec<&'e EnvEntry> {
    env.iter()
        .enumerate()
        .filter(|(i, e)| pred(&e.sem, items) && lookup(env, &e.name).map(|(j, _)| j) == Some(*i))
        .map(|(_, e)| e)
        .collect()
}

fn is_fb(items: &[Item], t: usize) -> bool {
    matches!(items[t].kind, ItemK::Fb { .. })
}

fn gen_args(g: &mut G, env: &[EnvEntry], items: &[Item], inputs: &[VarD], depth: usize) -> ArgList {
    let named = g.rng.chance(1, 2);
    inputs
        .iter()
        .map(|p| {
            let e = gen_expr(g, env, items, depth);
            (if named { Some(g.spell(&p.name)) } else { None }, e)
        })
        .collect()
}

fn gen_expr(g: &mut G, env: &[EnvEntry], items: &[Item], depth: usize) -> Expr {
    let choice = if depth == 0 { g.rng.below(4) } else { g.rng.below(12) };
    match choice {
        0 => Expr::Lit(g.rng.range(0, 20)),
        1..=3 => {
            let c = visible(env, items, |s, _| matches!(s, Sem::IntVar { .. }));
            if c.is_empty() {
                Expr::Lit(g.rng.range(0, 20))
            } else {
                let e = *g.rng.pick(&c);
                Expr::Var(g.spell(&e.name))
            }
        }
        4..=5 => {
            let a = gen_expr(g, env, items, depth - 1);
            let b = gen_expr(g, env, items, depth - 1);
            Expr::Bin(Box::new(a), *g.rng.pick(&['+', '-', '+']), Box::new(b))
        }
        6..=7 => {
            let c = visible(env, items, |s, _| matches!(s, Sem::Func(_)));
            if c.is_empty() {
                return gen_expr(g, env, items, depth - 1);
            }
            let e = (*g.rng.pick(&c)).clone();
            let Sem::Func(fi) = e.sem else { unreachable!() };
            let ItemK::Func { inputs, .. } = &items[fi].kind else { unreachable!() };
            let args = gen_args(g, env, items, inputs, depth - 1);
            Expr::Call { f: g.spell(&e.name), args }
        }
        8 => {
            // member read: FB output or struct field
            let c = visible(env, items, |s, _| matches!(s, Sem::Inst(_)));
            if c.is_empty() {
                return gen_expr(g, env, items, depth - 1);
            }
            let e = (*g.rng.pick(&c)).clone();
            let Sem::Inst(t) = e.sem else { unreachable!() };
            match &items[t].kind {
                ItemK::Fb { outputs, .. } => {
                    let o = g.rng.pick(outputs).name.clone();
                    Expr::Mem { base: g.spell(&e.name), field: g.spell(&o) }
                }
                ItemK::Struct { fields } => {
                    let f = g.rng.pick(fields).0.clone();
                    Expr::Mem { base: g.spell(&e.name), field: g.spell(&f) }
                }
                _ => Expr::Lit(1),
            }
        }
        9 => {
            // method call through an instance
            let c = visible(env, items, |s, it| matches!(s, Sem::Inst(t) if matches!(&it[*t].kind, ItemK::Fb { methods, .. } if !methods.is_empty())));
            if c.is_empty() {
                return gen_expr(g, env, items, depth - 1);
            }
            let e = (*g.rng.pick(&c)).clone();
            let Sem::Inst(t) = e.sem else { unreachable!() };
            let ItemK::Fb { methods, .. } = &items[t].kind else { unreachable!() };
            let m = g.rng.pick(methods).clone();
            let args = gen_args(g, env, items, &m.inputs, depth - 1);
            Expr::MCall { base: g.spell(&e.name), m: g.spell(&m.name), args }
        }
        10 => {
            let a = gen_expr(g, env, items, depth - 1);
            // ABS must not be shadowed by a user symbol
            if lookup(env, "ABS").is_some() { a } else { Expr::Abs(Box::new(a)) }
        }
        _ => Expr::Lit(g.rng.range(0, 5)),
    }
}

fn gen_body(g: &mut G, env: &[EnvEntry], items: &[Item], n: usize, depth: usize) -> Vec<Stmt> {
    let mut out = Vec::new();
    for _ in 0..n {
        match g.rng.below(10) {
            0..=5 => {
                let c = visible(env, items, |s, _| matches!(s, Sem::IntVar { writable: true }));
                if c.is_empty() {
                    continue;
                }
                let lhs = (*g.rng.pick(&c)).clone();
                let e = gen_expr(g, env, items, depth);
                out.push(Stmt::Assign(Lv::Var(g.spell(&lhs.name)), e));
            }
            6 => {
                // struct field write
                let c = visible(env, items, |s, it| matches!(s, Sem::Inst(t) if !is_fb(it, *t)));
                if c.is_empty() {
                    continue;
                }
                let b = (*g.rng.pick(&c)).clone();
                let Sem::Inst(t) = b.sem else { unreachable!() };
                let ItemK::Struct { fields } = &items[t].kind else { unreachable!() };
                let f = g.rng.pick(fields).0.clone();
                let e = gen_expr(g, env, items, depth);
                out.push(Stmt::Assign(Lv::Mem { base: g.spell(&b.name), field: g.spell(&f) }, e));
            }
            7..=8 => {
                // FB invocation with named inputs / outputs
                let c = visible(env, items, |s, it| matches!(s, Sem::Inst(t) if is_fb(it, *t)));
                if c.is_empty() {
                    continue;
                }
                let b = (*g.rng.pick(&c)).clone();
                let Sem::Inst(t) = b.sem else { unreachable!() };
                let ItemK::Fb { inputs, outputs, .. } = &items[t].kind else { unreachable!() };
                let mut ins = Vec::new();
                for p in inputs {
                    if g.rng.chance(2, 3) {
                        let e = gen_expr(g, env, items, depth.saturating_sub(1));
                        ins.push((g.spell(&p.name), e));
                    }
                }
                let mut outs = Vec::new();
                let w = visible(env, items, |s, _| matches!(s, Sem::IntVar { writable: true }));
                for p in outputs {
                    if !w.is_empty() && g.rng.chance(1, 3) {
                        let v = (*g.rng.pick(&w)).clone();
                        outs.push((g.spell(&p.name), g.spell(&v.name)));
                    }
                }
                out.push(Stmt::FbCall { inst: g.spell(&b.name), ins, outs });
            }
            _ => {
                if depth == 0 {
                    continue;
                }
                let a = gen_expr(g, env, items, 1);
                let b = gen_expr(g, env, items, 1);
                let body = gen_body(g, env, items, 1, depth - 1);
                if !body.is_empty() {
                    out.push(Stmt::If(a, b, body));
                }
            }
        }
    }
    out
}

// ------------------------------------------------------------------------------------------------
// running the implementation
// ------------------------------------------------------------------------------------------------

fn make_db(texts: &[String]) -> Database {
    let mut db = Database::new();
    for (i, t) in texts.iter().enumerate() {
        db.set_source_text(FileId(i as u32), t.clone());
    }
    db
}

/// translate a byte offset of the original text through a sorted edit list of one file
fn translate(pos: usize, edits: &[(usize, usize)], new_len: usize) -> usize {
    let mut shift: isize = 0;
    for &(s, e) in edits {
        if e <= pos {
            shift += new_len as isize - (e - s) as isize;
        } else if s < pos {
            // inside an edited token: map to its start
            return (s as isize + shift) as usize;
        }
    }
    (pos as isize + shift) as usize
}

fn scrub(msg: &str, a: &str, b: &str) -> String {
    // replace identifiers equal (ignoring case) to either name by a placeholder
    let mut out = String::new();
    let mut cur = String::new();
    let flush = |cur: &mut String, out: &mut String| {
        if !cur.is_empty() {
            if cur.eq_ignore_ascii_case(a) || cur.eq_ignore_ascii_case(b) {
                out.push('§');
            } else {
                out.push_str(cur);
            }
            cur.clear();
        }
    };
    for ch in msg.chars() {
        if ch.is_ascii_alphanumeric() || ch == '_' {
            cur.push(ch);
        } else {
            flush(&mut cur, &mut out);
            out.push(ch);
        }
    }
    flush(&mut cur, &mut out);
    out
}

type DiagKey = (usize, String, String, usize, usize, String);

fn diags(db: &Database, nfiles: usize, map: &dyn Fn(usize, usize) -> usize, a: &str, b: &str) -> Vec<DiagKey> {
    let mut v = Vec::new();
    for f in 0..nfiles {
        for d in db.diagnostics(FileId(f as u32)).iter() {
            v.push((
                f,
                format!("{:?}", d.severity),
                format!("{:?}", d.code),
                map(f, usize::from(d.range.start())),
                map(f, usize::from(d.range.end())),
                scrub(&d.message, a, b),
            ));
        }
    }
    v.sort();
    v
}

fn has_error(db: &Database, nfiles: usize) -> Option<String> {
    for f in 0..nfiles {
        for d in db.diagnostics(FileId(f as u32)).iter() {
            if format!("{:?}", d.severity) == "Error" {
                return Some(format!("f{f} {:?} {}", d.code, d.message));
            }
        }
    }
    None
}

fn canon_value(v: &Value, out: &mut String) {
    match v {
        Value::Instance(id) => {
            let _ = write!(out, "@{}", id.0);
        }
        Value::Struct(s) => {
            out.push('{');
            for (_, fv) in s.fields.iter() {
                canon_value(fv, out);
                out.push(',');
            }
            out.push('}');
        }
        Value::Enum(e) => {
            let _ = write!(out, "E{}", e.numeric_value);
        }
        Value::Array(a) => {
            out.push('[');
            for e in &a.elements {
                canon_value(e, out);
                out.push(',');
            }
            out.push(']');
        }
        other => {
            let _ = write!(out, "{other:?}");
        }
    }
}

/// Name-free dump of the whole variable state (globals in declaration order, instances by id,
/// variables in declaration order).
fn dump_state(h: &TestHarness) -> String {
    let st = h.runtime().storage();
    let mut s = String::new();
    for (_, v) in st.globals().iter() {
        canon_value(v, &mut s);
        s.push(';');
    }
    let mut ids: Vec<_> = st.instances().keys().copied().collect();
    ids.sort_by_key(|i| i.0);
    for id in ids {
        let _ = write!(s, "|{}:", id.0);
        for (_, v) in st.instances()[&id].variables.iter() {
            canon_value(v, &mut s);
            s.push(';');
        }
    }
    s
}

/// Compile and run `texts` for `cycles` cycles; before every cycle the i-th DINT global (by position)
/// is overwritten with the trace value.  Returns the state dump after every cycle (or the compile error).
fn run_trace(texts: &[String], trace: &[Vec<i32>]) -> Result<Vec<String>, String> {
    let srcs: Vec<&str> = texts.iter().map(|s| s.as_str()).collect();
    let r = std::panic::catch_unwind(|| {
        let mut h = TestHarness::from_sources(&srcs).map_err(|e| format!("compile: {e}"))?;
        let mut out = Vec::new();
        for step in trace {
            h.advance_time(Duration::from_millis(10));
            let keys: Vec<_> = h
                .runtime()
                .storage()
                .globals()
                .iter()
                .filter(|(_, v)| matches!(v, Value::DInt(_)))
                .map(|(k, _)| k.clone())
                .collect();
            for (k, val) in keys.iter().zip(step.iter()) {
                h.runtime_mut().storage_mut().set_global(k.clone(), Value::DInt(*val));
            }
            let res = h.cycle();
            let mut s = dump_state(&h);
            if !res.errors.is_empty() {
                let _ = write!(s, " errors={}", res.errors.len());
            }
            out.push(s);
        }
        Ok(out)
    });
    match r {
        Ok(x) => x,
        Err(_) => Err("panic".into()),
    }
}

/// `run_trace` in a forked child: a renamed project may recurse without bound (a captured call) and
/// overflow the stack, which must not take the harness down.
fn run_trace_forked(texts: &[String], trace: &[Vec<i32>]) -> Result<Vec<String>, String> {
    use std::io::{Read, Write};
    use std::os::unix::io::FromRawFd;
    let mut fds = [0i32; 2];
    if unsafe { libc::pipe(fds.as_mut_ptr()) } != 0 {
        return Err("pipe failed".into());
    }
    let pid = unsafe { libc::fork() };
    if pid < 0 {
        return Err("fork failed".into());
    }
    if pid == 0 {
        unsafe {
            libc::close(fds[0]);
            let devnull = libc::open(b"/dev/null\0".as_ptr() as *const libc::c_char, libc::O_WRONLY);
            if devnull >= 0 {
                libc::dup2(devnull, 2);
            }
        }
        let mut w = unsafe { std::fs::File::from_raw_fd(fds[1]) };
        let r = run_trace(texts, trace);
        let payload = match r {
            Ok(v) => format!("ok\n{}", v.join("\n")),
            Err(e) => format!("err\n{e}"),
        };
        let _ = w.write_all(payload.as_bytes());
        let _ = w.flush();
        drop(w);
        unsafe { libc::_exit(0) };
    }
    unsafe { libc::close(fds[1]) };
    let mut r = unsafe { std::fs::File::from_raw_fd(fds[0]) };
    let mut buf = String::new();
    let _ = r.read_to_string(&mut buf);
    let mut status = 0i32;
    unsafe { libc::waitpid(pid, &mut status, 0) };
    if !libc::WIFEXITED(status) || libc::WEXITSTATUS(status) != 0 {
        return Err(format!("crash status={status}"));
    }
    if let Some(rest) = buf.strip_prefix("ok\n") {
        Ok(rest.split('\n').map(|s| s.to_string()).collect())
    } else {
        Err(buf.strip_prefix("err\n").unwrap_or(&buf).to_string())
    }
}

fn ident_tokens(text: &str) -> BTreeSet<(usize, usize)> {
    trust_syntax::lex(text)
        .into_iter()
        .filter(|t| t.kind == trust_syntax::TokenKind::Ident)
        .map(|t| (usize::from(t.range.start()), usize::from(t.range.end())))
        .collect()
}

pub struct Ctx {
    /// compare run-time behaviour (only for projects without case variants, see `oracle`)
    pub compare_behaviour: bool,
    pub texts: Vec<String>,
    pub db: Database,
    pub idents: Vec<BTreeSet<(usize, usize)>>,
    pub trace: Vec<Vec<i32>>,
    pub base_run: Option<Result<Vec<String>, String>>,
}

/// canonical edits: (file, start, end) sorted, duplicates kept; `None` = refused
fn call_rename(db: &Database, file: usize, offset: usize, new_name: &str) -> Result<Option<Vec<(usize, usize, usize, String)>>, ()> {
    let r = std::panic::catch_unwind(std::panic::AssertUnwindSafe(|| {
        trust_ide::rename::rename(db, FileId(file as u32), TextSize::from(offset as u32), new_name)
    }));
    match r {
        Err(_) => Err(()),
        Ok(None) => Ok(None),
        Ok(Some(res)) => {
            let mut v = Vec::new();
            for (fid, es) in res.edits.iter() {
                for e in es {
                    v.push((fid.0 as usize, usize::from(e.range.start()), usize::from(e.range.end()), e.new_text.clone()));
                }
            }
            v.sort();
            Ok(Some(v))
        }
    }
}

fn apply(texts: &[String], edits: &[(usize, usize, usize, String)]) -> Option<Vec<String>> {
    let mut out = texts.to_vec();
    for (f, s, e, t) in edits.iter().rev() {
        if *f >= out.len() || *e > out[*f].len() || s > e || !out[*f].is_char_boundary(*s) || !out[*f].is_char_boundary(*e) {
            return None;
        }
        out[*f].replace_range(*s..*e, t);
    }
    Some(out)
}

/// The property's own statement evaluated on the implementation for one accepted rename.
/// Returns the verdict string written on the `# orc` line.
fn oracle(cx: &mut Ctx, decl_occ: Option<(usize, usize, String)>, edits: &[(usize, usize, usize, String)], new_name: &str) -> String {
    let nfiles = cx.texts.len();
    // 1. well-formedness
    let mut wf = true;
    for (i, (f, s, e, t)) in edits.iter().enumerate() {
        if *f >= nfiles || *e > cx.texts[*f].len() || !cx.idents[*f].contains(&(*s, *e)) || t != new_name {
            wf = false;
        }
        if i > 0 {
            let (pf, _, pe, _) = &edits[i - 1];
            if pf == f && pe > s {
                wf = false;
            }
        }
    }
    if !wf {
        return "wf=0".into();
    }
    let Some(texts2) = apply(&cx.texts, edits) else {
        return "wf=0".into();
    };
    // old name = spelling of the declaration among the edited occurrences
    struct DeclOcc { file: usize, start: usize, name: String }
    let decl_edit = decl_occ.map(|(file, start, name)| DeclOcc { file, start, name });
    let decl_edit = decl_edit.as_ref();
    let old_name = match decl_edit {
        Some(o) => o.name.clone(),
        None => {
            let (f, s, e, _) = &edits[0];
            cx.texts[*f][*s..*e].to_string()
        }
    };
    let uniform = edits.iter().all(|(f, s, e, _)| cx.texts[*f][*s..*e] == old_name);
    let per_file: Vec<Vec<(usize, usize)>> = (0..nfiles)
        .map(|f| edits.iter().filter(|e| e.0 == f).map(|e| (e.1, e.2)).collect())
        .collect();
    // 2. diagnostics up to the name
    let db2 = make_db(&texts2);
    let nl = new_name.len();
    let d1 = diags(&cx.db, nfiles, &|f, p| translate(p, &per_file[f], nl), &old_name, new_name);
    let d2 = diags(&db2, nfiles, &|_, p| p, &old_name, new_name);
    let diag_ok = d1 == d2;
    let mut detail = String::new();
    if !diag_ok {
        let only2: Vec<_> = d2.iter().filter(|d| !d1.contains(d)).take(2).collect();
        let only1: Vec<_> = d1.iter().filter(|d| !d2.contains(d)).take(2).collect();
        let mut codes: BTreeSet<String> = BTreeSet::new();
        for d in d2.iter().filter(|d| !d1.contains(d)).chain(d1.iter().filter(|d| !d2.contains(d))) {
            codes.insert(d.2.clone());
        }
        let _ = write!(detail, " dcodes={} diagdiff=+{:?}-{:?}", codes.into_iter().collect::<Vec<_>>().join(","), only2, only1);
    }
    // 3. behaviour on the same input trace
    if cx.base_run.is_none() {
        cx.base_run = Some(run_trace_forked(&cx.texts, &cx.trace));
    }
    // (when the base project does not compile the run-time clauses are not evaluated: no need to run the renamed one)
    let r2 = if cx.base_run.as_ref().unwrap().is_err() { Err(String::new()) } else { run_trace_forked(&texts2, &cx.trace) };
    let (comp_ok, beh_ok) = match (cx.base_run.as_ref().unwrap(), &r2) {
        // the runtime binds names case-sensitively in places (see the report): a project that spells a
        // reference differently from its declaration does not run as analysed, so run-time behaviour
        // is only compared for projects without case variants
        (Ok(_), Ok(_)) if !cx.compare_behaviour || !uniform => (true, true),
        (Ok(a), Ok(b)) => {
            if a != b && std::env::var_os("C16_DEBUG").is_some() {
                for (i, (x, y)) in a.iter().zip(b.iter()).enumerate() {
                    if x != y {
                        eprintln!("behaviour differs in cycle {i}:\n  before {x}\n  after  {y}");
                        break;
                    }
                }
            }
            (true, a == b)
        }
        (Err(_), _) => (true, true), // the base project does not compile: filtered by the caller
        (Ok(_), Err(e)) => {
            let _ = write!(detail, " comperr={:?}", e.chars().take(80).collect::<String>());
            (false, false)
        }
    };
    // 4. rename back at the declaration
    let back_ok = match decl_edit {
        None => false,
        Some(o) => {
            let pos = translate(o.start, &per_file[o.file], nl);
            match call_rename(&db2, o.file, pos, &old_name) {
                Ok(Some(back)) => match apply(&texts2, &back) {
                    Some(t3) => {
                        if uniform {
                            t3 == cx.texts
                        } else {
                            t3.len() == cx.texts.len() && t3.iter().zip(&cx.texts).all(|(a, b)| a.eq_ignore_ascii_case(b))
                        }
                    }
                    None => false,
                },
                _ => false,
            }
        }
    };
    // the gate, evaluated with the implementation's own public predicates (independent of the model)
    let gate_ok = trust_hir::is_valid_identifier(new_name) && !trust_hir::is_reserved_keyword(new_name);
    format!(
        "wf=1 gate={} diag={} comp={} beh={} back={} uniform={} behcmp={}{}",
        gate_ok as u8, diag_ok as u8, comp_ok as u8, beh_ok as u8, back_ok as u8, uniform as u8,
        (cx.compare_behaviour && uniform) as u8, detail.replace('\n', " ")
    )
}

// ------------------------------------------------------------------------------------------------
// cases
// ------------------------------------------------------------------------------------------------

fn hexs(s: &str) -> String {
    hex(s.as_bytes())
}

fn write_structure(out: &mut Out, rd: &Rendered) {
    out.line(format!(
        "files {} {}",
        rd.texts.len(),
        rd.texts.iter().map(|t| t.len().to_string()).collect::<Vec<_>>().join(" ")
    ));
    for (i, s) in rd.scopes.iter().enumerate() {
        out.line(format!("scope {} {} {} {}", i + 1, s.file, s.parent, s.owner));
    }
    for (i, d) in rd.decls.iter().enumerate() {
        out.line(format!(
            "decl {} {} {} {} {} {} {}",
            i,
            d.file,
            d.scope,
            d.kind.s(),
            d.start,
            hexs(&d.name),
            d.tyocc.map(|t| t.to_string()).unwrap_or("-".into())
        ));
    }
    for (i, o) in rd.occs.iter().enumerate() {
        out.line(format!(
            "occ {} {} {} {} {} {} {}",
            i,
            o.file,
            o.start,
            hexs(&o.name),
            o.scope,
            o.kind.s(),
            o.link.map(|t| t.to_string()).unwrap_or("-".into())
        ));
    }
}

const RESERVED: &[&str] = &[
    "IF", "Step", "ON", "INT", "while", "End_Var", "TRUE", "EN", "eno", "tod", "Mod", "At", "to", "BY", "program",
    "var_input", "Any_Int", "r_edge", "from", "STRING", "Dt", "Exit", "NULL", "With", "Of", "dint", "Not",
];
const INVALID: &[&str] = &["", "1x", "a__b", "x_", "_", "a-b", "a b", "é", "__x", "A_", "9", "a$", "x y"];

/// kinds of new names; the last three are always refused (cheap requests, enumerated for every site class)
#[derive(Clone, Copy, PartialEq, Eq, Debug)]
enum NK { Fresh, DeclSameFile, DeclAnyFile, CaseVariant, Same, OccText, Abs, Reserved, Invalid, Dotted }
const ACCEPT_KINDS: [NK; 7] = [NK::Fresh, NK::DeclSameFile, NK::DeclAnyFile, NK::CaseVariant, NK::Same, NK::OccText, NK::Abs];
const CHEAP_KINDS: [NK; 3] = [NK::Reserved, NK::Invalid, NK::Dotted];

fn nk_name(k: NK) -> &'static str {
    match k {
        NK::Fresh => "fresh", NK::DeclSameFile => "declsamefile", NK::DeclAnyFile => "declanyfile",
        NK::CaseVariant => "casevariant", NK::Same => "same", NK::OccText => "occtext", NK::Abs => "abs",
        NK::Reserved => "reserved", NK::Invalid => "invalid", NK::Dotted => "dotted",
    }
}

fn make_name(rng: &mut Rng, rd: &Rendered, o: &OccR, k: NK, fresh_ctr: &mut u32) -> String {
    match k {
        NK::Fresh => {
            *fresh_ctr += 1;
            match rng.below(3) {
                0 => format!("zq{}", fresh_ctr),
                1 => format!("Fresh_{}", fresh_ctr),
                _ => format!("_n{}X", fresh_ctr),
            }
        }
        NK::DeclSameFile => {
            let c: Vec<&DeclR> = rd.decls.iter().filter(|d| d.file == o.file).collect();
            let d = *rng.pick(&c);
            if rng.chance(1, 4) { case_variant(rng, &d.name) } else { d.name.clone() }
        }
        NK::DeclAnyFile => {
            let d = rng.pick(&rd.decls);
            if rng.chance(1, 4) { case_variant(rng, &d.name) } else { d.name.clone() }
        }
        NK::CaseVariant => case_variant(rng, &o.name),
        NK::Same => o.name.clone(),
        NK::OccText => rng.pick(&rd.occs).name.clone(),
        NK::Abs => "ABS".to_string(),
        NK::Reserved => {
            let w = *rng.pick(RESERVED);
            if rng.chance(1, 3) { case_variant(rng, w) } else { w.to_string() }
        }
        NK::Invalid => rng.pick(INVALID).to_string(),
        // dotted paths, half of them with the old name as last segment (the namespace-move entry of `rename`)
        NK::Dotted => match rng.below(5) {
            0 => "a.b".to_string(),
            1 => "x.y.z".to_string(),
            2 => format!("Ns.{}", o.name),
            3 => format!("{}.{}", rng.pick(&rd.decls).name, o.name),
            _ => format!("A.B.{}", case_variant(rng, &o.name)),
        },
    }
}

pub fn run_project(n: u64, rng: &mut Rng, p: &Project, ops_per_case: usize, out: &mut Out) -> Result<(), String> {
    let rd = render(p);
    let db = make_db(&rd.texts);
    if let Some(e) = has_error(&db, rd.texts.len()) {
        out.count("skipped_project_with_error_diagnostic");
        if std::env::var_os("C16_DEBUG").is_some() {
            eprintln!("case {n}: not error-free: {e}\n{}", rd.texts.join("=====\n"));
        }
        return Ok(());
    }
    let nglob = p.items.iter().map(|i| if let ItemK::Cfg { globals, .. } = &i.kind { globals.len() } else { 0 }).sum::<usize>();
    let trace: Vec<Vec<i32>> = (0..4).map(|_| (0..nglob).map(|_| if rng.chance(1, 2) { rng.range(-50, 50) as i32 } else { 0 }).collect()).collect();
    let idents = rd.texts.iter().map(|t| ident_tokens(t)).collect();
    let mut cx = Ctx { compare_behaviour: !p.variants, texts: rd.texts.clone(), db, idents, trace, base_run: None };
    cx.base_run = Some(run_trace_forked(&cx.texts, &cx.trace));
    if let Some(Err(e)) = &cx.base_run {
        out.count("skipped_project_not_compiling");
        if std::env::var_os("C16_DEBUG").is_some() {
            eprintln!("case {n}: does not compile: {e}\n{}", rd.texts.join("=====\n"));
        }
        return Ok(());
    }
    // every lexed identifier token must be a recorded occurrence (harness self-check)
    for (f, set) in cx.idents.iter().enumerate() {
        let mine: BTreeSet<(usize, usize)> = rd.occs.iter().filter(|o| o.file == f).map(|o| (o.start, o.start + o.name.len())).collect();
        if *set != mine {
            return Err(format!("occurrence table differs from the lexer's identifier tokens in file {f}"));
        }
    }
    out.line(format!("case {n}"));
    write_structure(out, &rd);
    let mut fresh = 0u32;
    let mut nontrivial = false;
    let mut kinds_seen: BTreeMap<&'static str, u64> = BTreeMap::new();
    // ---- request sites by class: (occurrence kind, does the name belong to another file only?)
    let mut declared: Vec<BTreeSet<String>> = vec![BTreeSet::new(); rd.texts.len()];
    for d in &rd.decls {
        declared[d.file].insert(norm(&d.name));
    }
    let foreign = |o: &OccR| -> bool {
        let nn = norm(&o.name);
        !declared[o.file].contains(&nn) && declared.iter().enumerate().any(|(f, s)| f != o.file && s.contains(&nn))
    };
    let mut classes: BTreeMap<(&'static str, bool), Vec<usize>> = BTreeMap::new();
    for (i, o) in rd.occs.iter().enumerate() {
        classes.entry((o.kind.s(), foreign(o))).or_default().push(i);
    }
    // one request on the real code; returns whether it was accepted
    let mut issue = |rng: &mut Rng, cx: &mut Ctx, out: &mut Out, oi: usize, nk: NK, fresh: &mut u32, nontrivial: &mut bool| -> bool {
        let o = rd.occs[oi].clone();
        let nm = make_name(rng, &rd, &o, nk, fresh);
        let off = o.start + rng.below(o.name.len() as u64) as usize;
        out.line(format!("ren {} {} {}", o.file, off, hexs(&nm)));
        if std::env::var_os("C16_DEBUG").is_some() {
            eprintln!("case {n}: ren f{} @{} {:?} ({}) -> {:?}", o.file, off, o.name, o.kind.s(), nm);
        }
        *kinds_seen.entry(o.kind.s()).or_insert(0) += 1;
        out.count(&format!("combo_{}_{}_{}", o.kind.s(), if foreign(&o) { "x" } else { "l" }, nk_name(nk)));
        match call_rename(&cx.db, o.file, off, &nm) {
            Err(()) => {
                out.line("impl panic");
                out.count("rename_panic");
                false
            }
            Ok(None) => {
                out.line("impl refused");
                out.count("refused");
                false
            }
            Ok(Some(edits)) => {
                out.line(format!(
                    "impl edits {}",
                    edits.iter().map(|(f, s, e, _)| format!("{f}:{s}:{e}")).collect::<Vec<_>>().join(",")
                ));
                out.count("accepted");
                if edits.len() >= 2 {
                    *nontrivial = true;
                }
                let decl_occ = edits.iter().find_map(|(f, s, _, _)| {
                    rd.occs.iter().find(|o| o.file == *f && o.start == *s && o.kind == OKind::Decl)
                });
                let decl_occ = decl_occ.map(|o| (o.file, o.start, o.name.clone()));
                let verdict = oracle(cx, decl_occ, &edits, &nm);
                out.line(format!("# orc {verdict}"));
                true
            }
        }
    };
    // ---- (1) every site class x every always-refused name kind (reserved, invalid, dotted): enumerated
    let cheap_per_class = 2usize;
    for (_, occs) in classes.iter() {
        for _ in 0..cheap_per_class.min(occs.len()) {
            let oi = *rng.pick(occs);
            for nk in CHEAP_KINDS {
                issue(rng, &mut cx, out, oi, nk, &mut fresh, &mut nontrivial);
            }
        }
    }
    // ---- (2) every site class x every other name kind, in random order, until `ops_per_case` were accepted
    let mut combos: Vec<((&'static str, bool), NK)> = Vec::new();
    for k in classes.keys() {
        for nk in ACCEPT_KINDS {
            combos.push((*k, nk));
        }
    }
    for i in (1..combos.len()).rev() {
        let j = rng.below(i as u64 + 1) as usize;
        combos.swap(i, j);
    }
    // requests from sites whose symbol lives in another file are rarer and come first every other case
    if n % 2 == 0 {
        combos.sort_by_key(|((_, foreign), _)| !*foreign);
    }
    let mut accepted = 0usize;
    for (cls, nk) in combos.iter().take(4 * ops_per_case) {
        if accepted >= ops_per_case {
            break;
        }
        let oi = *rng.pick(&classes[cls]);
        if issue(rng, &mut cx, out, oi, *nk, &mut fresh, &mut nontrivial) {
            accepted += 1;
        }
    }
    drop(issue);
    for (k, v) in kinds_seen {
        out.add(&format!("cursor_{k}"), v);
    }
    out.add("occurrences", rd.occs.len() as u64);
    out.add("declarations", rd.decls.len() as u64);
    out.add(&format!("files_{}", rd.texts.len()), 1);
    if nontrivial {
        out.line("tag nontrivial");
    }
    out.line("end");
    Ok(())
}


// ------------------------------------------------------------------------------------------------
// namespace projects (outside the modelled fragment: judged by the oracle on the implementation only)
// ------------------------------------------------------------------------------------------------

/// text writer that records a role for every identifier it emits
struct NsW {
    texts: Vec<String>,
    file: usize,
    /// (file, start, name, role)
    toks: Vec<(usize, usize, String, &'static str)>,
    /// uses (never declarations) of namespace segments and namespaced symbols may be spelled in another case
    variants: bool,
    vstate: u64,
}
impl NsW {
    fn raw(&mut self, s: &str) {
        self.texts[self.file].push_str(s);
    }
    fn id(&mut self, name: &str, role: &'static str) {
        let start = self.texts[self.file].len();
        self.texts[self.file].push_str(name);
        self.toks.push((self.file, start, name.to_string(), role));
    }
    fn vnext(&mut self) -> u64 {
        // xorshift64*: the spelling choices are a function of the case's seed only
        self.vstate ^= self.vstate >> 12;
        self.vstate ^= self.vstate << 25;
        self.vstate ^= self.vstate >> 27;
        self.vstate.wrapping_mul(0x2545_F491_4F6C_DD1D) >> 33
    }
    /// spelling of one USE of a name (a case variant with probability 1/3 in a `variants` project)
    fn sp(&mut self, s: &str) -> String {
        if !self.variants || self.vnext() % 3 != 0 {
            return s.to_string();
        }
        match self.vnext() % 3 {
            0 => s.to_ascii_uppercase(),
            1 => s.to_ascii_lowercase(),
            _ => s.chars().map(|c| if self.vnext() % 2 == 0 { c.to_ascii_uppercase() } else { c.to_ascii_lowercase() }).collect(),
        }
    }
    /// a (possibly qualified) use of a namespaced symbol: `A.B.Name` or `Name`
    fn quse(&mut self, path: &[String], qualified: bool, name: &str, role_q: &'static str, role_u: &'static str) {
        if qualified {
            for seg in path {
                let s = self.sp(seg);
                self.id(&s, "ns_qual");
                self.raw(".");
            }
            let s = self.sp(name);
            self.id(&s, role_q);
        } else {
            let s = self.sp(name);
            self.id(&s, role_u);
        }
    }
}

pub struct NsProject {
    texts: Vec<String>,
    toks: Vec<(usize, usize, String, &'static str)>,
    form: &'static str,
    style: &'static str,
    /// how the FUNCTION of the namespace is called from outside (the recorded finding C16-ns-func-qualified is
    /// keyed on it): "qualified" also in a USING project when that one call is written with its full path
    func_style: &'static str,
    /// normalised names of the namespace members that are spelled like a segment of the namespace path
    echo: BTreeSet<String>,
    /// a segment of the namespace path repeats an earlier one (`A.A`, `A.B.A`)
    repeated_segment: bool,
}

/// Generates one namespace project.
///
/// `echo_mode`: name coincidences between the segments of a qualified name.  One or two members of the
/// namespace (STRUCT / alias TYPE, FUNCTION_BLOCK, INTERFACE, FUNCTION) are spelled like a segment of the
/// namespace path (`NAMESPACE Drive` + `FUNCTION_BLOCK Drive`, used as `Drive.Drive`; case variants in half
/// of the projects), a later segment of the path may repeat an earlier one (`A.A`, `A.B.A`), and such a member
/// is reached by its full path also from a USING project (always when it is spelled like the ROOT segment,
/// which hides it from an unqualified lookup).
fn gen_ns_project(rng: &mut Rng, echo_mode: bool) -> NsProject {
    let mut used = BTreeSet::new();
    let mut name = |rng: &mut Rng| loop {
        let base = *rng.pick(POOL);
        let n = if rng.chance(1, 3) { format!("{}{}", base, rng.below(4)) } else { base.to_string() };
        if used.insert(norm(&n)) {
            return n;
        }
    };
    let form = *rng.pick(&["flat", "dotted", "nested2", "nested3", "dotted_nested"]);
    let depth = match form { "flat" => 1, "dotted" | "nested2" => 2, _ => 3 };
    let mut path: Vec<String> = (0..depth).map(|_| name(rng)).collect();
    let style = *rng.pick(&["qualified", "using_file", "using_pou"]);
    let two_files = rng.bool();
    let (mut sample, mut pack, mut scale, mut ctl, mid, mut alias) = (name(rng), name(rng), name(rng), name(rng), name(rng), name(rng));
    let (fv, fm, ffirst, fsecond) = (name(rng), name(rng), name(rng), name(rng));
    let (pa, lt, fs, fo) = (name(rng), name(rng), name(rng), name(rng));
    let (prog, vp, vs, vc, vn, va) = (name(rng), name(rng), name(rng), name(rng), name(rng), name(rng));
    // declarations outside the namespace that name its members in every kind of type position
    let (mut itf, implfb, child, outrec, outal, mk, mka) = (name(rng), name(rng), name(rng), name(rng), name(rng), name(rng), name(rng));
    let (fp, fq, vo, vch, vi) = (name(rng), name(rng), name(rng), name(rng), name(rng));
    // a sibling of the innermost namespace with a type of its own (`Outer.Sib.SibT` next to `Outer.Inner.*`)
    let (sib, mut sibt, vsib) = (name(rng), name(rng), name(rng));
    let with_sib = matches!(form, "nested2" | "nested3" | "dotted_nested") && rng.bool();
    let with_mid = depth >= 2 && rng.bool();
    let with_alias = rng.bool();
    let list_fields = rng.bool();
    let with_itf = rng.bool();
    let with_child = rng.bool();
    let with_outrec = rng.bool();
    let with_outal = rng.bool();
    let with_mk = with_alias && rng.bool();
    // members of the namespace named by their full path from inside the namespace
    let inner_qual = rng.chance(1, 3);
    let variants = echo_mode && rng.bool();
    let vstate = rng.next() | 1;
    let mut echo = BTreeSet::new();
    let mut repeated_segment = false;
    if echo_mode {
        let respell = |rng: &mut Rng, s: &str| if variants && rng.chance(1, 2) { case_variant(rng, s) } else { s.to_string() };
        if depth >= 2 && rng.chance(1, 3) {
            let j = 1 + rng.below(depth as u64 - 1) as usize;
            let i = rng.below(j as u64) as usize;
            path[j] = respell(rng, &path[i].clone());
            repeated_segment = true;
        }
        let mut segs: Vec<String> = Vec::new();
        for s in &path {
            if !segs.iter().any(|t| norm(t) == norm(s)) {
                segs.push(s.clone());
            }
        }
        if with_sib {
            // a member named like the sibling of its enclosing namespace; the sibling's type named like a segment
            segs.push(sib.clone());
        }
        let mut cands: Vec<&mut String> = vec![&mut sample, &mut pack, &mut ctl, &mut scale];
        if with_alias {
            cands.push(&mut alias);
        }
        if with_itf {
            cands.push(&mut itf);
        }
        if with_sib {
            cands.push(&mut sibt);
        }
        let want = if rng.chance(1, 3) { 2 } else { 1 };
        for _ in 0..want {
            if segs.is_empty() || cands.is_empty() {
                break;
            }
            let seg = segs.remove(rng.below(segs.len() as u64) as usize);
            let c = cands.remove(rng.below(cands.len() as u64) as usize);
            *c = respell(rng, &seg);
            echo.insert(norm(&seg));
        }
    }
    let is_echo = |n: &str| echo.contains(&norm(n));
    // a member spelled like the root segment is hidden from an unqualified lookup outside the namespace
    // (the namespace is found first): it is always written with its full path there
    let root = norm(&path[0]);
    let q = style == "qualified";
    let qout = |rng: &mut Rng, n: &str| q || norm(n) == root || (is_echo(n) && rng.bool());
    let (q_sample, q_pack, q_ctl, q_alias, q_scale) = (qout(rng, &sample), qout(rng, &pack), qout(rng, &ctl), qout(rng, &alias), qout(rng, &scale));
    let func_style = if q_scale { "qualified" } else { style };
    // a USING inside the PROGRAM does not reach the declarations before it
    let file_level = |qs: bool| qs || style == "using_pou";
    let mut w = NsW { texts: vec![String::new(); if two_files { 2 } else { 1 }], file: 0, toks: Vec::new(), variants, vstate };
    // ---- namespace headers
    let mut open_blocks = 0;
    match form {
        "flat" => {
            w.raw("NAMESPACE ");
            w.id(&path[0], "ns_decl");
            w.raw("\n");
            open_blocks = 1;
        }
        "dotted" | "dotted_nested" => {
            w.raw("NAMESPACE ");
            w.id(&path[0], "ns_decl");
            w.raw(".");
            w.id(&path[1], "ns_decl");
            w.raw("\n");
            open_blocks = 1;
        }
        _ => {}
    }
    let nested_from = match form { "nested2" | "nested3" => 0, "dotted_nested" => 2, _ => depth };
    for (i, seg) in path.iter().enumerate().skip(nested_from) {
        // a declaration of an outer level, used unqualified further inside
        if with_mid && i == depth - 1 && open_blocks > 0 {
            w.raw("TYPE ");
            w.id(&mid, "mid_decl");
            w.raw(" : DINT;\nEND_TYPE\n");
        }
        if with_sib && i == depth - 1 && open_blocks > 0 {
            w.raw("NAMESPACE ");
            w.id(&sib, "ns_decl");
            w.raw("\nTYPE ");
            w.id(&sibt, "type_decl");
            w.raw(" : DINT;\nEND_TYPE\nEND_NAMESPACE\n");
        }
        w.raw("NAMESPACE ");
        w.id(seg, "ns_decl");
        w.raw("\n");
        open_blocks += 1;
    }
    let mid_declared = with_mid && w.toks.iter().any(|t| t.3 == "mid_decl");
    // a use of a sibling member inside the namespace: unqualified, or (inner_qual) by its full path
    let inner = |w: &mut NsW, rng: &mut Rng, n: &str, role: &'static str| {
        let full = inner_qual && rng.bool();
        w.quse(&path, full, n, role, role);
    };
    // ---- declarations of the innermost namespace
    w.raw("TYPE ");
    w.id(&sample, "type_decl");
    w.raw(" : STRUCT\n    ");
    w.id(&fv, "field_decl");
    w.raw(" : DINT;\n");
    if mid_declared {
        w.raw("    ");
        w.id(&fm, "field_decl");
        w.raw(" : ");
        w.id(&mid, "mid_use");
        w.raw(";\n");
    }
    w.raw("END_STRUCT\nEND_TYPE\n\nTYPE ");
    w.id(&pack, "type_decl");
    w.raw(" : STRUCT\n    ");
    w.id(&ffirst, "field_decl");
    if list_fields {
        w.raw(", ");
        w.id(&fsecond, "field_decl");
        w.raw(" : ");
        inner(&mut w, rng, &sample, "type_use_nslevel");
        w.raw(";\n");
    } else {
        w.raw(" : ");
        inner(&mut w, rng, &sample, "type_use_nslevel");
        w.raw(";\n    ");
        w.id(&fsecond, "field_decl");
        w.raw(" : ");
        inner(&mut w, rng, &sample, "type_use_nslevel");
        w.raw(";\n");
    }
    w.raw("END_STRUCT\nEND_TYPE\n\n");
    if with_alias {
        w.raw("TYPE ");
        w.id(&alias, "type_decl");
        w.raw(" : ");
        inner(&mut w, rng, &sample, "type_use_nslevel");
        w.raw(";\nEND_TYPE\n\n");
    }
    if with_itf {
        w.raw("INTERFACE ");
        w.id(&itf, "itf_decl");
        w.raw("\nEND_INTERFACE\n\n");
    }
    w.raw("FUNCTION ");
    w.id(&scale, "func_decl");
    w.raw(" : DINT\nVAR_INPUT\n    ");
    w.id(&pa, "local_decl");
    w.raw(" : DINT;\nEND_VAR\nVAR\n    ");
    w.id(&lt, "local_decl");
    w.raw(" : ");
    inner(&mut w, rng, &sample, "type_use_pou_in_ns");
    w.raw(";\nEND_VAR\n    ");
    w.id(&lt, "local_use");
    w.raw(".");
    w.id(&fv, "field_use_in_ns");
    w.raw(" := ");
    w.id(&pa, "local_use");
    w.raw(";\n    ");
    w.id(&scale, "func_ret");
    w.raw(" := ");
    w.id(&lt, "local_use");
    w.raw(".");
    w.id(&fv, "field_use_in_ns");
    w.raw(" + 1;\nEND_FUNCTION\n\nFUNCTION_BLOCK ");
    w.id(&ctl, "fb_decl");
    w.raw("\nVAR_OUTPUT\n    ");
    w.id(&fo, "member_decl");
    w.raw(" : DINT;\nEND_VAR\nVAR\n    ");
    w.id(&fs, "member_decl");
    w.raw(" : ");
    inner(&mut w, rng, &sample, "type_use_pou_in_ns");
    w.raw(";\nEND_VAR\n    ");
    w.id(&fs, "member_use");
    w.raw(".");
    w.id(&fv, "field_use_in_ns");
    w.raw(" := ");
    w.id(&fs, "member_use");
    w.raw(".");
    w.id(&fv, "field_use_in_ns");
    w.raw(" + ");
    w.id(&scale, "func_call_in_ns");
    w.raw("(2);\n    ");
    w.id(&fo, "member_use");
    w.raw(" := ");
    w.id(&fs, "member_use");
    w.raw(".");
    w.id(&fv, "field_use_in_ns");
    w.raw(";\nEND_FUNCTION_BLOCK\n");
    for _ in 0..open_blocks {
        w.raw("END_NAMESPACE\n");
    }
    w.raw("\n");
    // ---- the user file
    if two_files {
        w.file = 1;
    }
    let using = |w: &mut NsW| {
        w.raw("USING ");
        for (i, seg) in path.iter().enumerate() {
            if i > 0 {
                w.raw(".");
            }
            let s = w.sp(seg);
            w.id(&s, "ns_using");
        }
        w.raw(";\n");
    };
    if style == "using_file" {
        using(&mut w);
    }
    // ---- declarations outside the namespace: its members in the type positions of a STRUCT field, an array
    // element, an alias, a function result and input, EXTENDS and IMPLEMENTS
    if with_outrec {
        w.raw("TYPE ");
        w.id(&outrec, "otype_decl");
        w.raw(" : STRUCT\n    ");
        w.id(&fp, "ofield_decl");
        w.raw(" : ");
        w.quse(&path, file_level(q_sample), &sample, "type_use_qual", "type_use_using");
        w.raw(";\n    ");
        w.id(&fq, "ofield_decl");
        w.raw(" : ARRAY[0..1] OF ");
        w.quse(&path, file_level(q_pack), &pack, "type_use_qual", "type_use_using");
        w.raw(";\nEND_STRUCT\nEND_TYPE\n\n");
    }
    if with_outal {
        w.raw("TYPE ");
        w.id(&outal, "otype_decl");
        w.raw(" : ");
        if with_alias {
            w.quse(&path, file_level(q_alias), &alias, "type_use_qual", "type_use_using");
        } else {
            w.quse(&path, file_level(q_sample), &sample, "type_use_qual", "type_use_using");
        }
        w.raw(";\nEND_TYPE\n\n");
    }
    if with_mk {
        w.raw("FUNCTION ");
        w.id(&mk, "ofunc_decl");
        w.raw(" : ");
        w.quse(&path, file_level(q_alias), &alias, "type_use_qual", "type_use_using");
        w.raw("\nVAR_INPUT\n    ");
        w.id(&mka, "local_decl");
        w.raw(" : ");
        w.quse(&path, file_level(q_alias), &alias, "type_use_qual", "type_use_using");
        w.raw(";\nEND_VAR\n    ");
        w.id(&mk, "ofunc_ret");
        w.raw(" := ");
        w.id(&mka, "local_use");
        w.raw(";\nEND_FUNCTION\n\n");
    }
    if with_child {
        w.raw("FUNCTION_BLOCK ");
        w.id(&child, "ofb_decl");
        w.raw(" EXTENDS ");
        w.quse(&path, file_level(q_ctl), &ctl, "fb_use_qual", "fb_use_using");
        w.raw("\nEND_FUNCTION_BLOCK\n\n");
    }
    if with_itf {
        // (IMPLEMENTS does not look through USING: the interface is always named by its full path)
        w.raw("FUNCTION_BLOCK ");
        w.id(&implfb, "ofb_decl");
        w.raw(" IMPLEMENTS ");
        w.quse(&path, true, &itf, "itf_use_qual", "itf_use_qual");
        w.raw("\nEND_FUNCTION_BLOCK\n\n");
    }
    w.raw("PROGRAM ");
    w.id(&prog, "prog_decl");
    w.raw("\n");
    if style == "using_pou" {
        w.raw("    ");
        using(&mut w);
    }
    w.raw("VAR\n    ");
    w.id(&vp, "local_decl");
    w.raw(" : ");
    w.quse(&path, q_pack, &pack, "type_use_qual", "type_use_using");
    w.raw(";\n    ");
    w.id(&vs, "local_decl");
    w.raw(" : ");
    w.quse(&path, q_sample, &sample, "type_use_qual", "type_use_using");
    w.raw(";\n    ");
    w.id(&vc, "local_decl");
    w.raw(" : ");
    w.quse(&path, q_ctl, &ctl, "fb_use_qual", "fb_use_using");
    w.raw(";\n");
    if with_alias {
        w.raw("    ");
        w.id(&va, "local_decl");
        w.raw(" : ");
        w.quse(&path, q_alias, &alias, "type_use_qual", "type_use_using");
        w.raw(";\n");
    }
    if with_outrec {
        w.raw("    ");
        w.id(&vo, "local_decl");
        w.raw(" : ");
        w.id(&outrec, "otype_use");
        w.raw(";\n");
    }
    if with_child {
        w.raw("    ");
        w.id(&vch, "local_decl");
        w.raw(" : ");
        w.id(&child, "ofb_use");
        w.raw(";\n");
    }
    if with_itf {
        w.raw("    ");
        w.id(&vi, "local_decl");
        w.raw(" : ");
        w.id(&implfb, "ofb_use");
        w.raw(";\n");
    }
    if with_sib {
        // (a USING of the inner namespace does not reach its sibling: always by the full path)
        let mut sp = path[..depth - 1].to_vec();
        sp.push(sib.clone());
        w.raw("    ");
        w.id(&vsib, "local_decl");
        w.raw(" : ");
        w.quse(&sp, true, &sibt, "type_use_qual", "type_use_qual");
        w.raw(";\n");
    }
    w.raw("    ");
    w.id(&vn, "local_decl");
    w.raw(" : DINT;\nEND_VAR\n    ");
    w.id(&vs, "local_use");
    w.raw(".");
    w.id(&fv, "field_use_out");
    w.raw(" := ");
    w.id(&vn, "local_use");
    w.raw(";\n    ");
    w.id(&vp, "local_use");
    w.raw(".");
    w.id(&ffirst, "field_use_out");
    w.raw(".");
    w.id(&fv, "field_use_nested");
    w.raw(" := ");
    w.id(&vs, "local_use");
    w.raw(".");
    w.id(&fv, "field_use_out");
    w.raw(";\n    ");
    if with_outrec {
        // (whole-struct assignments: a field access THROUGH a field whose type is named by a qualified name is
        // rejected by the analysis, `field access requires struct` - not rename's business)
        w.id(&vo, "local_use");
        w.raw(".");
        w.id(&fp, "ofield_use");
        w.raw(" := ");
        w.id(&vs, "local_use");
        w.raw(";\n    ");
        w.id(&vp, "local_use");
        w.raw(" := ");
        w.id(&vo, "local_use");
        w.raw(".");
        w.id(&fq, "ofield_use");
        w.raw("[1];\n    ");
    }
    if with_child {
        w.id(&vch, "local_use");
        w.raw("();\n    ");
    }
    if with_mk {
        w.id(&va, "local_use");
        w.raw(" := ");
        w.id(&mk, "ofunc_call");
        w.raw("(");
        w.id(&va, "local_use");
        w.raw(");\n    ");
    }
    w.id(&vc, "local_use");
    w.raw("();\n    ");
    w.id(&vn, "local_use");
    w.raw(" := (");
    w.quse(&path, q_scale, &scale, "func_call_qual", "func_call_using");
    w.raw("(");
    w.id(&vn, "local_use");
    w.raw(") + ");
    w.id(&vp, "local_use");
    w.raw(".");
    w.id(&fsecond, "field_use_out");
    w.raw(".");
    w.id(&fv, "field_use_nested");
    w.raw(" + ");
    w.id(&vc, "local_use");
    w.raw(".");
    w.id(&fo, "member_use_out");
    w.raw(") MOD 997;\nEND_PROGRAM\n");
    NsProject { texts: w.texts, toks: w.toks, form, style, func_style, echo, repeated_segment }
}

/// One namespace project: for every (identifier role, spelled-like-a-namespace-segment or not) class one random
/// identifier x a fresh name; the property's statement is evaluated on the implementation (`# nsorc` lines).
/// The model is not consulted (no `ren` lines).
fn run_ns_sub(n: u64, sub: usize, rng: &mut Rng, echo_mode: bool, out: &mut Out, dump: bool) -> Result<(), String> {
    let NsProject { texts, toks, form, style, func_style, echo, repeated_segment } = gen_ns_project(rng, echo_mode);
    if dump {
        for (i, t) in texts.iter().enumerate() {
            println!("===== case {n} sub {sub} (namespace, {form}, {style}) file {i}\n{t}");
        }
    }
    let db = make_db(&texts);
    out.line(format!(
        "# namespace-project sub={sub} form={form} style={style} files={} echo={} repeated_segment={}",
        texts.len(), echo.len(), repeated_segment as u8
    ));
    // the project text, so that a replay file shows the failing input
    for (i, t) in texts.iter().enumerate() {
        for l in t.lines() {
            out.line(format!("# nssrc sub={sub} f{i}| {l}"));
        }
    }
    if let Some(e) = has_error(&db, texts.len()) {
        out.count("ns_skipped_project_with_error_diagnostic");
        if echo_mode {
            out.count("ns_echo_skipped_project_with_error_diagnostic");
        }
        out.line(format!("# nsskip sub={sub} {}", e.replace('\n', " ")));
        return Ok(());
    }
    let idents: Vec<BTreeSet<(usize, usize)>> = texts.iter().map(|t| ident_tokens(t)).collect();
    for (f, set) in idents.iter().enumerate() {
        let mine: BTreeSet<(usize, usize)> = toks.iter().filter(|t| t.0 == f).map(|t| (t.1, t.1 + t.2.len())).collect();
        if *set != mine {
            return Err(format!("namespace case: role table differs from the lexer's identifier tokens in file {f}"));
        }
    }
    let mut cx = Ctx { compare_behaviour: true, texts: texts.clone(), db, idents, trace: vec![vec![], vec![], vec![]], base_run: None };
    // the runtime's compiler does not resolve namespace-level sibling types ("unknown type"), so namespace
    // projects are judged on the analysis only: when the base project does not compile, the run-time
    // clauses are not evaluated (base_run = Err makes `oracle` skip them)
    cx.base_run = Some(run_trace_forked(&cx.texts, &cx.trace));
    if let Some(Err(_)) = &cx.base_run {
        out.count("ns_project_not_compiled_by_runtime");
    }
    let is_ns_role = |r: &str| r.starts_with("ns_");
    let is_echo = |t: &(usize, usize, String, &'static str)| !is_ns_role(t.3) && echo.contains(&norm(&t.2));
    let mut by_role: BTreeMap<(&'static str, bool), Vec<usize>> = BTreeMap::new();
    for (i, t) in toks.iter().enumerate() {
        by_role.entry((t.3, is_echo(t))).or_default().push(i);
    }
    if !echo.is_empty() {
        out.count("ns_echo_projects");
    }
    let mut k = 0;
    for ((role, ech), list) in by_role.iter() {
        let (f, start, name, _) = toks[*rng.pick(list)].clone();
        k += 1;
        let new_name = format!("zq{k}N");
        let off = start + rng.below(name.len() as u64) as usize;
        let verdict = match call_rename(&cx.db, f, off, &new_name) {
            Err(()) => "panic".to_string(),
            Ok(None) => "refused".to_string(),
            Ok(Some(edits)) => {
                let me = edits.iter().any(|(ef, es, _, _)| *ef == f && *es == start);
                // "edits that each replace one identifier occurrence" of the renamed symbol: by construction every
                // non-namespace symbol of the project has its own name (a namespace member may only share its name
                // with segments of the namespace path), so the occurrences of the symbol under the cursor are
                // exactly the non-segment identifiers of that name
                let occ = if is_ns_role(role) {
                    String::new()
                } else {
                    let want: BTreeSet<(usize, usize)> =
                        toks.iter().filter(|t| !is_ns_role(t.3) && norm(&t.2) == norm(&name)).map(|t| (t.0, t.1)).collect();
                    let got: BTreeSet<(usize, usize)> = edits.iter().map(|e| (e.0, e.1)).collect();
                    let show = |set: Vec<&(usize, usize)>| {
                        set.iter()
                            .map(|(ef, es)| {
                                let t = toks.iter().find(|t| t.0 == *ef && t.1 == *es);
                                format!("f{ef}:{es}:{}:{}", t.map(|t| t.2.as_str()).unwrap_or("?"), t.map(|t| t.3).unwrap_or("not-an-identifier"))
                            })
                            .collect::<Vec<_>>()
                            .join(",")
                    };
                    if want == got {
                        " occ=1".to_string()
                    } else {
                        format!(" occ=0 extra=[{}] missing=[{}]", show(got.difference(&want).collect()), show(want.difference(&got).collect()))
                    }
                };
                format!("accepted edits={} self={}{} {}", edits.len(), me as u8, occ, oracle(&mut cx, Some((f, start, name.clone())), &edits, &new_name))
            }
        };
        out.count(&format!("ns_{}", verdict.split(' ').next().unwrap_or("?")));
        if *ech {
            out.count(&format!("ns_echo_request_{role}"));
        }
        let st = if role.starts_with("func_") { func_style } else { style };
        out.line(format!(
            "# nsorc role={role} style={st} form={form} sub={sub} echo={} at={f}:{off} old={name} new={new_name} {}",
            *ech as u8,
            verdict.replace('\n', " ")
        ));
    }
    out.count("ns_projects");
    Ok(())
}

/// One namespace case: a project with all names distinct, then two projects with name coincidences between the
/// segments of qualified names (each from its own random stream, so that adding one does not change the others).
fn run_ns_project(n: u64, seed: u64, out: &mut Out, dump: bool) -> Result<(), String> {
    out.line(format!("case {n}"));
    for sub in 0..3usize {
        let mut rng = Rng::for_case(seed ^ (0x6e73_0000 + sub as u64), n);
        run_ns_sub(n, sub, &mut rng, sub > 0, out, dump)?;
    }
    out.count("ns_cases");
    out.line("end");
    Ok(())
}

// ------------------------------------------------------------------------------------------------
// fixed witnesses of the recorded findings (replayed on the real code in every run)
// ------------------------------------------------------------------------------------------------

const W_GLOBAL_LOCAL: &str = "CONFIGURATION Conf\nVAR_GLOBAL\n    g : DINT;\nEND_VAR\nTASK Fast (INTERVAL := T#10ms, PRIORITY := 1);\nPROGRAM Inst WITH Fast : Main;\nEND_CONFIGURATION\n\nPROGRAM Main\nVAR\n    x : DINT;\n    y : DINT;\nEND_VAR\n    x := g + 1;\n    y := x;\nEND_PROGRAM\n";
const W_XFILE: &str = "FUNCTION Foo : DINT\nVAR_INPUT\n    a : DINT;\nEND_VAR\n    Foo := a + 1;\nEND_FUNCTION\n=====\nFUNCTION Bar : DINT\nVAR_INPUT\n    a : DINT;\nEND_VAR\n    Bar := a + Foo(a);\nEND_FUNCTION\nPROGRAM Main\nVAR\n    x : DINT;\nEND_VAR\n    x := Bar(2) + Foo(1);\nEND_PROGRAM\n";
const W_ARG: &str = "FUNCTION AddK : DINT\nVAR_INPUT\n    k : DINT;\nEND_VAR\n    AddK := k + 1;\nEND_FUNCTION\n\nPROGRAM Main\nVAR\n    r : DINT;\nEND_VAR\n    r := AddK(k := 1);\nEND_PROGRAM\n";
/// the other two forms of named arguments: FB invocation `fb(p := x, q => y)` and method call `inst.m(p := x)`
const W_ARG_FB: &str = "FUNCTION_BLOCK Acc\nVAR_INPUT\n    k : DINT;\nEND_VAR\nVAR_OUTPUT\n    q : DINT;\nEND_VAR\nMETHOD PUBLIC Add : DINT\nVAR_INPUT\n    m : DINT;\nEND_VAR\n    Add := m + k;\nEND_METHOD\n    q := q + k;\nEND_FUNCTION_BLOCK\n\nPROGRAM Main\nVAR\n    fbi : Acc;\n    r : DINT;\n    s : DINT;\nEND_VAR\n    fbi(k := 2, q => r);\n    s := fbi.Add(m := 3);\nEND_PROGRAM\n";
const W_TWO_METHODS: &str = "FUNCTION_BLOCK FbA\nVAR\n    acc : DINT;\nEND_VAR\nMETHOD PUBLIC Run : DINT\nVAR_INPUT\n    t : DINT;\nEND_VAR\n    acc := acc + t;\n    Run := acc;\nEND_METHOD\nEND_FUNCTION_BLOCK\n\nFUNCTION_BLOCK FbB\nVAR\n    acc : DINT;\nEND_VAR\nMETHOD PUBLIC Run : DINT\nVAR_INPUT\n    t : DINT;\nEND_VAR\n    acc := acc + t;\n    Run := acc;\nEND_METHOD\nEND_FUNCTION_BLOCK\n\nPROGRAM Main\nVAR\n    a : FbA;\n    b : FbB;\n    r : DINT;\nEND_VAR\n    r := a.Run(1);\n    r := b.Run(2);\nEND_PROGRAM\n";
const W_INST: &str = "CONFIGURATION Conf\nVAR_GLOBAL\n    dd : DINT := 9;\nEND_VAR\nTASK Fast (INTERVAL := T#10ms, PRIORITY := 1);\nPROGRAM k WITH Fast : Main;\nEND_CONFIGURATION\n\nPROGRAM Main\nVAR\n    x : DINT;\nEND_VAR\n    x := dd + 1;\n    dd := x;\nEND_PROGRAM\n";
const W_FIELD: &str = "PROGRAM Run\nVAR\n    hh : Pump;\n    r : DINT;\nEND_VAR\n    r := hh.gg(v := 1);\nEND_PROGRAM\n=====\nTYPE Rec : STRUCT\n    gg : DINT;\nEND_STRUCT\nEND_TYPE\n\nFUNCTION_BLOCK Pump\nMETHOD PUBLIC gg : DINT\nVAR_INPUT\n    v : DINT;\nEND_VAR\n    gg := v + 1;\nEND_METHOD\nEND_FUNCTION_BLOCK\n";

const W_SKIPPED: &str = "PROGRAM Main\nVAR\n    s : Rec;\nEND_VAR\n    s.a := 1;\n    s.b := 2;\nEND_PROGRAM\n=====\nTYPE Rec : STRUCT\n    a : DINT;\n    b : DINT;\nEND_STRUCT\nEND_TYPE\n";

const W_NS: &str = "NAMESPACE Outer\nNAMESPACE Inner\nTYPE Sample : STRUCT\n    v : DINT;\nEND_STRUCT\nEND_TYPE\n\nFUNCTION Scale : DINT\nVAR_INPUT\n    a : DINT;\nEND_VAR\nVAR\n    t : Sample;\nEND_VAR\n    t.v := a;\n    Scale := t.v + 1;\nEND_FUNCTION\nEND_NAMESPACE\nEND_NAMESPACE\n\nPROGRAM Main\nVAR\n    s : Outer.Inner.Sample;\n    n : DINT;\nEND_VAR\n    s.v := n;\n    n := Outer.Inner.Scale(n);\nEND_PROGRAM\n";

/// (finding class, project text, text that locates the cursor, occurrence index of that text, new name)
const WITNESSES: &[(&str, &str, &str, usize, &str)] = &[
    ("capture", W_GLOBAL_LOCAL, "g : DINT", 0, "x"),
    ("shadow", W_GLOBAL_LOCAL, "x : DINT", 0, "g"),
    ("capture-cross-file", W_XFILE, "Foo : DINT", 0, "Bar"),
    // C16-missed-arg / -ctask / -cprog are repaired in /repo: regression witnesses, a reproduction is a violation
    ("missed-arg", W_ARG, "k : DINT", 0, "u"),
    ("missed-arg-fb-input", W_ARG_FB, "k : DINT", 0, "u"),
    ("missed-arg-fb-output", W_ARG_FB, "q : DINT", 0, "w"),
    ("missed-arg-method", W_ARG_FB, "m : DINT", 0, "u"),
    ("missed-ctask", W_GLOBAL_LOCAL, "Fast (INTERVAL", 0, "Quick"),
    ("missed-cprog", W_GLOBAL_LOCAL, "Main\nVAR", 0, "Other"),
    ("pou-dup", W_TWO_METHODS, "t : DINT", 1, "u"),
    ("inst-clash", W_INST, "dd : DINT", 0, "k"),
    ("field-typeid", W_FIELD, "gg : DINT;", 0, "zz"),
    ("conflict-skipped", W_SKIPPED, "a := 1", 0, "b"),
    ("ns-field", W_NS, "v := a", 0, "zq"),
    ("ns-func-qualified", W_NS, "Scale : DINT", 0, "zq"),
    ("ns-namespace-rename", W_NS, "Outer\nNAMESPACE", 0, "zq"),
];

fn run_witnesses(out: &mut Out) {
    out.line("case witnesses");
    for (class, text, needle, nth, new_name) in WITNESSES {
        let texts: Vec<String> = text.split("=====\n").map(|s| s.to_string()).collect();
        let mut found = None;
        let mut seen = 0usize;
        'f: for (fi, t) in texts.iter().enumerate() {
            let mut from = 0;
            while let Some(p) = t[from..].find(needle) {
                if seen == *nth {
                    found = Some((fi, from + p));
                    break 'f;
                }
                seen += 1;
                from += p + 1;
            }
        }
        let Some((file, pos)) = found else {
            out.line(format!("# witness {class} reproduced=0 detail=cursor-not-found"));
            continue;
        };
        let db = make_db(&texts);
        if let Some(e) = has_error(&db, texts.len()) {
            out.line(format!("# witness {class} reproduced=0 detail=witness-project-has-errors:{}", e.replace(' ', "_")));
            continue;
        }
        let idents: Vec<BTreeSet<(usize, usize)>> = texts.iter().map(|t| ident_tokens(t)).collect();
        let tok = idents[file].iter().find(|(s, e)| *s <= pos && pos < *e).copied();
        let mut cx = Ctx { compare_behaviour: true, texts: texts.clone(), db, idents, trace: vec![vec![0], vec![3], vec![-7], vec![0]], base_run: None };
        let verdict = match call_rename(&cx.db, file, pos, new_name) {
            Ok(Some(edits)) => {
                let decl_occ = tok.map(|(s, e)| (file, s, texts[file][s..e].to_string()));
                oracle(&mut cx, decl_occ, &edits, new_name)
            }
            Ok(None) => "refused".to_string(),
            Err(()) => "panic".to_string(),
        };
        let v: Vec<&str> = verdict.split(' ').collect();
        // a panic of `rename` is never acceptable (for a recorded open finding it would otherwise hide as "not reproduced")
        let failed = v.iter().any(|w| matches!(*w, "wf=0" | "diag=0" | "comp=0" | "beh=0" | "back=0" | "panic"));
        out.line(format!("# witness {class} reproduced={} detail={}", failed as u8, verdict.chars().take(160).collect::<String>()));
        out.count(if failed { "witness_reproduced" } else { "witness_not_reproduced" });
    }
    out.line("end");
}

pub fn run(args: &Args) -> i32 {
    if let Some(p) = args.extra.get("tree") {
        let text = std::fs::read_to_string(p).expect("read");
        let parsed = trust_syntax::parser::parse(&text);
        println!("{:#?}", parsed.syntax());
        return 0;
    }
    if let Some(p) = args.extra.get("sweep") {
        // developer tool: every identifier token of a project x one fresh name, oracle verdict per request
        let text = std::fs::read_to_string(p).expect("read");
        let texts: Vec<String> = text.split("=====\n").map(|s| s.to_string()).collect();
        let db = make_db(&texts);
        println!("errors: {:?}", has_error(&db, texts.len()));
        let idents: Vec<BTreeSet<(usize, usize)>> = texts.iter().map(|t| ident_tokens(t)).collect();
        let mut cx = Ctx { compare_behaviour: true, texts: texts.clone(), db, idents: idents.clone(), trace: vec![vec![0], vec![3]], base_run: None };
        for (f, set) in idents.iter().enumerate() {
            for (s0, e0) in set {
                let v = match call_rename(&cx.db, f, *s0, "zq9") {
                    Ok(Some(edits)) => {
                        let me = edits.iter().any(|(ef, es, _, _)| *ef == f && es == s0);
                        format!("{} edits self={} {}", edits.len(), me as u8, oracle(&mut cx, Some((f, *s0, texts[f][*s0..*e0].to_string())), &edits, "zq9"))
                    }
                    Ok(None) => "refused".into(),
                    Err(()) => "panic".into(),
                };
                println!("f{f} {s0:4} {:12} {}", &texts[f][*s0..*e0], v.chars().take(230).collect::<String>());
            }
        }
        return 0;
    }
    if let Some(p) = args.extra.get("probe") {
        return probe(p, args.extra.get("name").map(|s| s.as_str()).unwrap_or("zz"));
    }
    // the real code may panic inside catch_unwind; keep the default hook quiet
    std::panic::set_hook(Box::new(|_| {}));
    let ops = args.extra_usize("ops", 16);
    let mut out = Out::new();
    if args.only.is_none() {
        run_witnesses(&mut out);
    }
    for n in args.case_numbers() {
        // every 8th case is a namespace case (three projects, oracle only)
        if n % 8 == 7 {
            if let Err(e) = run_ns_project(n, args.seed, &mut out, args.extra.contains_key("dump")) {
                eprintln!("case {n}: {e}");
                return 3;
            }
            out.count("cases");
            continue;
        }
        let mut rng = Rng::for_case(args.seed, n);
        let p = gen_project(&mut rng);
        if args.extra.contains_key("dump") {
            let rd = render(&p);
            for (i, t) in rd.texts.iter().enumerate() {
                println!("===== case {n} file {i}\n{t}");
            }
        }
        if let Err(e) = run_project(n, &mut rng, &p, ops, &mut out) {
            eprintln!("case {n}: {e}");
            return 3;
        }
        out.count("cases");
    }
    out.finish(&args.out);
    0
}

// ------------------------------------------------------------------------------------------------
// developer probe: `vharness c16 --probe file --name new` (files separated by `=====`, cursor `<|>`)
// ------------------------------------------------------------------------------------------------

fn probe(path: &str, new_name: &str) -> i32 {
    let text = std::fs::read_to_string(path).expect("read");
    let mut files: Vec<String> = text.split("=====\n").map(|s| s.to_string()).collect();
    let mut cursor = None;
    for (i, f) in files.iter_mut().enumerate() {
        if let Some(pos) = f.find("<|>") {
            f.replace_range(pos..pos + 3, "");
            cursor = Some((i, pos));
        }
    }
    let (cf, cpos) = cursor.expect("cursor marker <|>");
    let db = make_db(&files);
    for i in 0..files.len() {
        for d in db.diagnostics(FileId(i as u32)).iter() {
            println!("diag-before f{i} {:?} {:?} {}", d.severity, d.code, d.message);
        }
    }
    let Ok(Some(edits)) = call_rename(&db, cf, cpos, new_name) else {
        println!("REFUSED");
        return 0;
    };
    for (f, s, e, t) in &edits {
        println!("edit f{f} {s}..{e} {:?} -> {:?}", &files[*f][*s..*e], t);
    }
    let out = apply(&files, &edits).expect("apply");
    let db2 = make_db(&out);
    for (i, f) in out.iter().enumerate() {
        println!("--- f{i} after\n{f}");
    }
    for i in 0..out.len() {
        for d in db2.diagnostics(FileId(i as u32)).iter() {
            println!("diag-after f{i} {:?} {:?} {}", d.severity, d.code, d.message);
        }
    }
    let a: Vec<&str> = files.iter().map(|s| s.as_str()).collect();
    let b: Vec<&str> = out.iter().map(|s| s.as_str()).collect();
    match TestHarness::from_sources(&a) {
        Ok(_) => println!("compile-before ok"),
        Err(e) => println!("compile-before ERR {e}"),
    }
    for (tag, srcs) in [("before", &a), ("after", &b)] {
        if let Ok(mut h) = TestHarness::from_sources(srcs) {
            for c in 0..2 {
                h.advance_time(Duration::from_millis(10));
                let r = h.cycle();
                println!("run-{tag} cycle {c} errors={:?} state={}", r.errors, dump_state(&h));
            }
        }
    }
    match TestHarness::from_sources(&b) {
        Ok(_) => println!("compile-after ok"),
        Err(e) => println!("compile-after ERR {e}"),
    }
    0
}
