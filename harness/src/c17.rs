//! C17 — the debugger is transparent and never wedges the runtime.
//!
//! Layer 1 (`kind mon`): a real `DebugControl` is driven hook call by hook call.  A "cycle" thread
//! calls the public `DebugHook::on_statement`; the main thread plays the debug adapter and calls
//! `apply_action`, `pause_entry`, `set_breakpoints_for_file`, `clear_breakpoints` either while the
//! cycle thread is outside the hook or (from this second thread) while it sleeps on the Condvar.
//! Every operation is answered with what the public getters of `DebugControl` show afterwards.
//! Bursts of controller calls against a sleeping thread are genuinely racy: the observed outcome is
//! written on the op line and the model must admit it under some wake-up schedule.  `free` lets the
//! cycle thread run a list of hooks without any synchronisation while the main thread fires a Pause
//! at an arbitrary moment.
//!
//! Layer 2 (`kind rt`, module `rt` below): a real `Runtime` built from generated Structured Text.
//!
//! A watchdog bounds every wait; when it fires the operation is answered with `hang` — the
//! implementation failed to come back, which is a violation of the property (the wait can only be
//! too short on a machine that does not schedule a runnable thread for several seconds).

use std::sync::atomic::{AtomicBool, AtomicUsize, Ordering};
use std::sync::mpsc::{channel, Receiver, RecvTimeoutError, Sender};
use std::sync::Arc;
use std::thread::{self, JoinHandle};
use std::time::{Duration, Instant};

use crate::rng::Rng;
use crate::util::Out;
use crate::Args;
use trust_runtime::debug::{
    ControlAction, ControlOutcome, DebugBreakpoint, DebugControl, DebugHook, DebugMode, DebugStop,
    DebugStopReason, HitCondition, LogFragment, SourceLocation,
};

#[path = "c17/rt.rs"]
mod rt;
#[path = "c17/ex.rs"]
mod ex;

/// Number of operations that hit the watchdog in this process.  A hang is a violation of the
/// property; after a few of them the remaining cases are skipped (each costs a full watchdog
/// period and adds nothing).
pub(crate) static HANGS: AtomicUsize = AtomicUsize::new(0);
const MAX_HANGS: usize = 3;

pub(crate) fn opt(v: Option<u32>) -> String {
    v.map(|x| x.to_string()).unwrap_or_else(|| "-".into())
}

pub(crate) fn show_loc(l: Option<SourceLocation>) -> String {
    match l {
        Some(l) => format!("{}:{}:{}", l.file_id, l.start, l.end),
        None => "-".into(),
    }
}

pub(crate) fn show_reason(r: DebugStopReason) -> &'static str {
    match r {
        DebugStopReason::Breakpoint => "B",
        DebugStopReason::Step => "S",
        DebugStopReason::Pause => "P",
        DebugStopReason::Entry => "E",
    }
}

pub(crate) fn show_stop(s: &DebugStop) -> String {
    format!(
        "{}/{}/{}/{}",
        show_reason(s.reason),
        show_loc(s.location),
        opt(s.thread_id),
        s.breakpoint_generation
            .map(|g| g.to_string())
            .unwrap_or_else(|| "-".into())
    )
}

pub(crate) fn show_list(xs: &[String]) -> String {
    if xs.is_empty() {
        "-".into()
    } else {
        xs.join(",")
    }
}

/// Controller commands of the line protocol.
#[derive(Clone, Copy, Debug, PartialEq)]
pub(crate) enum Cmd {
    Pause(Option<u32>),
    Cont,
    In(Option<u32>),
    Over(Option<u32>),
    Out(Option<u32>),
    Entry,
}

impl Cmd {
    pub(crate) fn text(&self) -> String {
        match self {
            Cmd::Pause(t) => format!("pause {}", opt(*t)),
            Cmd::Cont => "cont -".into(),
            Cmd::In(t) => format!("in {}", opt(*t)),
            Cmd::Over(t) => format!("over {}", opt(*t)),
            Cmd::Out(t) => format!("out {}", opt(*t)),
            Cmd::Entry => "entry -".into(),
        }
    }
    pub(crate) fn is_pause(&self) -> bool {
        matches!(self, Cmd::Pause(_) | Cmd::Entry)
    }
    /// Applies the command to the real control; returns the outcome letter.
    pub(crate) fn apply(&self, control: &DebugControl) -> &'static str {
        let outcome = match self {
            Cmd::Pause(t) => control.apply_action(ControlAction::Pause(*t)),
            Cmd::Cont => control.apply_action(ControlAction::Continue),
            Cmd::In(t) => control.apply_action(ControlAction::StepIn(*t)),
            Cmd::Over(t) => control.apply_action(ControlAction::StepOver(*t)),
            Cmd::Out(t) => control.apply_action(ControlAction::StepOut(*t)),
            Cmd::Entry => {
                control.pause_entry();
                return "-";
            }
        };
        match outcome {
            ControlOutcome::Applied => "A",
            ControlOutcome::Ignored => "I",
        }
    }
}

/// Breakpoint of the line protocol: `<f>:<s>:<e>:<hc>:<cond>:<log>`.
#[derive(Clone, Debug)]
pub(crate) struct BpSpec {
    pub loc: SourceLocation,
    pub hit: Option<HitCondition>,
    /// `Some(b)`: a condition that evaluates to `b` when a context is available
    pub cond: Option<bool>,
    pub log: bool,
}

impl BpSpec {
    pub(crate) fn text(&self) -> String {
        let hc = match self.hit {
            None => "-".to_string(),
            Some(HitCondition::Equal(n)) => format!("={n}"),
            Some(HitCondition::AtLeast(n)) => format!(">={n}"),
            Some(HitCondition::GreaterThan(n)) => format!(">{n}"),
        };
        let c = match self.cond {
            None => "-",
            Some(true) => "t",
            Some(false) => "f",
        };
        format!(
            "{}:{}:{}:{}:{}:{}",
            self.loc.file_id,
            self.loc.start,
            self.loc.end,
            hc,
            c,
            if self.log { 1 } else { 0 }
        )
    }
    pub(crate) fn build(&self) -> DebugBreakpoint {
        let mut bp = DebugBreakpoint::new(self.loc);
        bp.hit_condition = self.hit;
        bp.condition = self.cond.map(|b| {
            trust_runtime::eval::expr::Expr::Literal(trust_runtime::value::Value::Bool(b))
        });
        if self.log {
            bp.log_message = Some(vec![LogFragment::Text("log".into())]);
        }
        bp
    }
}

/// Everything the public getters show, in the canonical form shared with the Lean driver.
pub(crate) fn observe(control: &DebugControl, in_hook: bool, out: &str, stops: &[DebugStop], logs: usize) -> String {
    let mode = match control.mode() {
        DebugMode::Running => "R",
        DebugMode::Paused => "P",
    };
    let gens: Vec<String> = (0..3u32)
        .map(|f| {
            control
                .breakpoint_generation(f)
                .map(|g| g.to_string())
                .unwrap_or_else(|| "-".into())
        })
        .collect();
    let bps: Vec<String> = control
        .breakpoints()
        .iter()
        .map(|bp| format!("{}:{}:{}", show_loc(Some(bp.location)), bp.hits, bp.generation))
        .collect();
    let stops: Vec<String> = stops.iter().map(show_stop).collect();
    format!(
        "r={} out={} stops={} mode={} cur={} tgt={} depth={} loc={} gens={} bps={} logs={}",
        if in_hook { "w" } else { "i" },
        out,
        show_list(&stops),
        mode,
        opt(control.current_thread()),
        opt(control.target_thread()),
        control.last_call_depth(),
        show_loc(control.last_location()),
        gens.join(","),
        show_list(&bps),
        logs
    )
}

// ------------------------------------------------------------------------------------------------
// layer 1
// ------------------------------------------------------------------------------------------------

type Hook = (Option<SourceLocation>, u32);

enum TCmd {
    Hook(Hook),
    Thread(Option<u32>),
    Free(Vec<Hook>),
    Exit,
}

#[derive(Debug)]
enum Ev {
    Stop(#[allow(dead_code)] DebugStop),
    Returned,
    Ready,
    FreeDone,
}

const SENTINEL_FILE: u32 = u32::MAX;

fn sentinel(code: u32) -> DebugStop {
    DebugStop {
        reason: DebugStopReason::Entry,
        location: Some(SourceLocation::new(SENTINEL_FILE, code, 0)),
        thread_id: None,
        breakpoint_generation: None,
    }
}

struct Mon {
    control: DebugControl,
    cmd_tx: Sender<TCmd>,
    ev_rx: Receiver<DebugStop>,
    handle: Option<JoinHandle<()>>,
    progress: Arc<AtomicUsize>,
    go: Arc<AtomicBool>,
    in_hook: bool,
    watchdog: Duration,
    /// stops seen on the stop channel / through `drain_stops` over the whole case
    chan_stops: Vec<String>,
    drained_stops: Vec<String>,
    logs: usize,
}

struct Hang;

impl Mon {
    fn new(watchdog: Duration) -> Mon {
        let control = DebugControl::new();
        // One FIFO channel carries the control's own stop notifications and the cycle thread's
        // progress markers (sentinel stops), so their order is the order in which they happened.
        let (ev_tx, ev_rx) = channel::<DebugStop>();
        control.set_stop_sender(ev_tx.clone());
        let (cmd_tx, cmd_rx) = channel::<TCmd>();
        let progress = Arc::new(AtomicUsize::new(0));
        let go = Arc::new(AtomicBool::new(false));
        let mut hook = control.clone();
        let setter = control.clone();
        let (p2, g2) = (progress.clone(), go.clone());
        let handle = thread::spawn(move || {
            while let Ok(cmd) = cmd_rx.recv() {
                match cmd {
                    TCmd::Hook((loc, depth)) => {
                        hook.on_statement(loc.as_ref(), depth);
                        let _ = ev_tx.send(sentinel(1));
                    }
                    TCmd::Thread(t) => {
                        setter.set_current_thread(t);
                        let _ = ev_tx.send(sentinel(1));
                    }
                    TCmd::Free(hooks) => {
                        let _ = ev_tx.send(sentinel(2));
                        while !g2.load(Ordering::Acquire) {
                            std::hint::spin_loop();
                        }
                        for (i, (loc, depth)) in hooks.iter().enumerate() {
                            p2.store(i, Ordering::SeqCst);
                            hook.on_statement(loc.as_ref(), *depth);
                        }
                        p2.store(hooks.len(), Ordering::SeqCst);
                        let _ = ev_tx.send(sentinel(3));
                    }
                    TCmd::Exit => break,
                }
            }
        });
        Mon {
            control,
            cmd_tx,
            ev_rx,
            handle: Some(handle),
            progress,
            go,
            in_hook: false,
            watchdog,
            chan_stops: Vec::new(),
            drained_stops: Vec::new(),
            logs: 0,
        }
    }

    fn wait_event(&mut self) -> Result<Ev, Hang> {
        match self.ev_rx.recv_timeout(self.watchdog) {
            Ok(stop) => Ok(self.classify(stop)),
            Err(RecvTimeoutError::Timeout) | Err(RecvTimeoutError::Disconnected) => Err(Hang),
        }
    }

    fn classify(&mut self, stop: DebugStop) -> Ev {
        if let Some(loc) = stop.location {
            if loc.file_id == SENTINEL_FILE {
                return match loc.start {
                    1 => Ev::Returned,
                    2 => Ev::Ready,
                    _ => Ev::FreeDone,
                };
            }
        }
        self.chan_stops.push(show_stop(&stop));
        Ev::Stop(stop)
    }

    /// Waits until the cycle thread is back (`Returned`); stops on the way are only counted.
    fn wait_returned(&mut self) -> Result<(), Hang> {
        loop {
            match self.wait_event()? {
                Ev::Returned => {
                    self.in_hook = false;
                    return Ok(());
                }
                _ => continue,
            }
        }
    }

    /// Waits for the first event after the cycle thread was started or woken: it either parks again
    /// after announcing a stop, or comes back.
    fn wait_stop_or_returned(&mut self) -> Result<(), Hang> {
        match self.wait_event()? {
            Ev::Returned => self.in_hook = false,
            _ => self.in_hook = true,
        }
        Ok(())
    }

    fn drain(&mut self) -> Vec<DebugStop> {
        // `drain_stops` takes the monitor lock: it returns only after the cycle thread released it
        // (by waiting or by leaving the hook), so everything emitted in that section is included.
        let stops = self.control.drain_stops();
        self.drained_stops.extend(stops.iter().map(show_stop));
        self.logs += self.control.drain_logs().len();
        stops
    }

    fn obs(&mut self, out: &str) -> String {
        let stops = self.drain();
        observe(&self.control, self.in_hook, out, &stops, self.logs)
    }

    fn hook(&mut self, h: Hook) -> Result<String, Hang> {
        self.cmd_tx.send(TCmd::Hook(h)).map_err(|_| Hang)?;
        self.in_hook = true;
        self.wait_stop_or_returned()?;
        Ok(self.obs("-"))
    }

    fn thread(&mut self, t: Option<u32>) -> Result<String, Hang> {
        self.cmd_tx.send(TCmd::Thread(t)).map_err(|_| Hang)?;
        self.wait_returned()?;
        Ok(self.obs("-"))
    }

    /// A single controller call (from this second thread when the cycle thread sleeps).
    fn act(&mut self, c: Cmd) -> Result<String, Hang> {
        let out = c.apply(&self.control);
        if self.in_hook && matches!(self.control.mode(), DebugMode::Running) {
            // the sleeping thread was told to run: it has to come back
            self.wait_returned()?;
        }
        Ok(self.obs(out))
    }

    /// Several controller calls back to back against a sleeping cycle thread (at most one of them
    /// a pause request, so that the thread ends in exactly one of: came back / parked after one
    /// more stop / never woken).
    fn burst(&mut self, cmds: &[Cmd]) -> Result<String, Hang> {
        let mut out = String::new();
        let mut resumed = false;
        for c in cmds {
            let o = c.apply(&self.control);
            out.push_str(o);
            if !c.is_pause() {
                resumed = true;
            }
        }
        if self.in_hook {
            if matches!(self.control.mode(), DebugMode::Running) {
                self.wait_returned()?;
            } else if resumed {
                self.wait_stop_or_returned()?;
            }
        }
        Ok(self.obs(&out))
    }

    /// Free run of `hooks` with a Pause fired from this thread after `spin` spins.  Returns the
    /// index of the hook the pause landed in (`hooks.len()` = after all) and the observation.
    fn free(&mut self, hooks: &[Hook], spin: u64) -> Result<(usize, String), Hang> {
        self.progress.store(0, Ordering::SeqCst);
        self.go.store(false, Ordering::SeqCst);
        self.cmd_tx.send(TCmd::Free(hooks.to_vec())).map_err(|_| Hang)?;
        match self.wait_event()? {
            Ev::Ready => {}
            _ => return Err(Hang),
        }
        self.go.store(true, Ordering::Release);
        for _ in 0..spin {
            std::hint::spin_loop();
        }
        let out = Cmd::Pause(None).apply(&self.control);
        let landed;
        self.in_hook = true;
        match self.wait_event()? {
            Ev::FreeDone => {
                landed = hooks.len();
                self.in_hook = false;
            }
            Ev::Stop(_) => {
                landed = self.progress.load(Ordering::SeqCst);
                let _ = Cmd::Cont.apply(&self.control);
                loop {
                    match self.wait_event()? {
                        Ev::FreeDone => break,
                        _ => continue,
                    }
                }
                self.in_hook = false;
            }
            _ => return Err(Hang),
        }
        Ok((landed, self.obs(out)))
    }

    fn finish(&mut self) -> Result<String, Hang> {
        self.control.clear_breakpoints();
        let out = Cmd::Cont.apply(&self.control);
        if self.in_hook {
            self.wait_returned()?;
        }
        Ok(self.obs(out))
    }

    /// Ends the cycle thread; if it cannot be brought back it is leaked (never blocks the harness).
    fn shutdown(mut self) {
        self.control.clear_breakpoints();
        self.control.continue_run();
        let _ = self.cmd_tx.send(TCmd::Exit);
        self.go.store(true, Ordering::Release);
        let deadline = Instant::now() + Duration::from_millis(1500);
        if let Some(h) = self.handle.take() {
            while !h.is_finished() && Instant::now() < deadline {
                self.control.continue_run();
                thread::sleep(Duration::from_millis(2));
            }
            if h.is_finished() {
                let _ = h.join();
            }
        }
    }
}

/// Statement spans of an imaginary two-file program (nested spans = compound statements).
const LOCS: [(u32, u32, u32); 11] = [
    (0, 0, 10),
    (0, 12, 20),
    (0, 22, 60),
    (0, 30, 40),
    (0, 45, 55),
    (0, 62, 70),
    (1, 0, 8),
    (1, 10, 18),
    (1, 20, 50),
    (1, 25, 35),
    (2, 0, 5),
];

/// Breakpoint spans: statement spans plus near misses (adjacent, one-byte overlaps, other file).
const BP_EXTRA: [(u32, u32, u32); 8] = [
    (0, 9, 12),
    (0, 10, 12),
    (0, 20, 22),
    (0, 19, 23),
    (0, 40, 45),
    (1, 8, 10),
    (1, 17, 21),
    (0, 70, 80),
];

fn pick_loc(rng: &mut Rng) -> SourceLocation {
    let (f, s, e) = *rng.pick(&LOCS);
    SourceLocation::new(f, s, e)
}

fn pick_thread_arg(rng: &mut Rng, cur: Option<u32>) -> Option<u32> {
    match rng.below(8) {
        0..=3 => None,
        4 | 5 => cur.or(Some(1)),
        6 => Some(1 + rng.below(3) as u32),
        _ => Some(1 + rng.below(4) as u32),
    }
}

fn pick_bp(rng: &mut Rng, file: u32) -> BpSpec {
    // mostly a span of the requested file (the adapter always does that): a statement span or a
    // near miss; sometimes a span of another file registered under this file id
    let pool: Vec<(u32, u32, u32)> = LOCS
        .iter()
        .chain(BP_EXTRA.iter())
        .filter(|(f, _, _)| *f == file)
        .copied()
        .collect();
    let (f, s, e) = if !pool.is_empty() && rng.chance(7, 8) {
        *rng.pick(&pool)
    } else if rng.chance(1, 2) {
        *rng.pick(&LOCS)
    } else {
        let (_, s, e) = *rng.pick(&LOCS);
        (file, s, e)
    };
    let hit = match rng.below(10) {
        0 => Some(HitCondition::Equal(1 + rng.below(3))),
        1 => Some(HitCondition::AtLeast(rng.below(4))),
        2 => Some(HitCondition::GreaterThan(rng.below(3))),
        _ => None,
    };
    BpSpec {
        loc: SourceLocation::new(f, s, e),
        hit,
        cond: match rng.below(12) {
            0 => Some(true),
            1 => Some(false),
            _ => None,
        },
        log: rng.chance(1, 12),
    }
}

fn pick_resume(rng: &mut Rng, cur: Option<u32>) -> Cmd {
    match rng.below(10) {
        0..=2 => Cmd::Cont,
        3..=5 => Cmd::In(pick_thread_arg(rng, cur)),
        6 | 7 => Cmd::Over(pick_thread_arg(rng, cur)),
        _ => Cmd::Out(pick_thread_arg(rng, cur)),
    }
}

fn pick_pause(rng: &mut Rng, cur: Option<u32>) -> Cmd {
    if rng.chance(1, 6) {
        Cmd::Entry
    } else {
        Cmd::Pause(pick_thread_arg(rng, cur))
    }
}

struct Walk {
    cur: Option<u32>,
    depth: u32,
}

impl Walk {
    fn next_hook(&mut self, rng: &mut Rng) -> Hook {
        match rng.below(8) {
            0 | 1 => self.depth = (self.depth + 1).min(5),
            2 | 3 => self.depth = self.depth.saturating_sub(1),
            4 if rng.chance(1, 3) => self.depth = 0,
            _ => {}
        }
        let loc = if rng.chance(1, 25) { None } else { Some(pick_loc(rng)) };
        (loc, self.depth)
    }
}

fn hook_text(h: &Hook) -> String {
    match h.0 {
        Some(l) => format!("{} {} {} {}", l.file_id, l.start, l.end, h.1),
        None => format!("- {}", h.1),
    }
}

fn run_mon_case(n: u64, rng: &mut Rng, nops: usize, watchdog: Duration, out: &mut Out) -> bool {
    let mut mon = Mon::new(watchdog);
    let mut walk = Walk { cur: Some(1), depth: 0 };
    out.line(format!("case {n}"));
    out.line("kind mon");
    let mut total_stops = 0usize;
    let mut second_thread_actions = 0usize;
    let mut hung = false;
    let style = rng.below(4); // 0: breakpoint heavy, 1: stepping heavy, 2: pause heavy, 3: mixed
    let mut ops = 0usize;
    while ops < nops {
        ops += 1;
        let in_hook = mon.in_hook;
        let r = rng.below(100);
        let (op_line, res): (String, Result<String, Hang>) = if !in_hook {
            // cycle thread outside the monitor
            if r < 55 {
                let h = walk.next_hook(rng);
                out.count("op_hook");
                (format!("hook {}", hook_text(&h)), mon.hook(h))
            } else if r < 63 {
                let t = match rng.below(6) {
                    0 => None,
                    k => Some(1 + (k as u32 - 1) % 3),
                };
                walk.cur = t;
                if rng.chance(3, 4) {
                    walk.depth = 0;
                }
                out.count("op_thread");
                (format!("thread {}", opt(t)), mon.thread(t))
            } else if r < 80 {
                let c = match style {
                    1 => {
                        if rng.chance(2, 3) {
                            pick_resume(rng, walk.cur)
                        } else {
                            pick_pause(rng, walk.cur)
                        }
                    }
                    _ => {
                        if rng.chance(2, 3) {
                            pick_pause(rng, walk.cur)
                        } else {
                            pick_resume(rng, walk.cur)
                        }
                    }
                };
                out.count("op_act_outside");
                (format!("act {}", c.text()).replace("act entry -", "entry"), mon.act(c))
            } else if r < 92 || (style == 0 && r < 96) {
                bp_op(rng, &mut mon, out)
            } else if mon.control.breakpoint_count() == 0 {
                // free run: needs Running, no step armed, no breakpoints -> precede by Continue
                out.count("op_free");
                let pre = mon.act(Cmd::Cont);
                match pre {
                    Err(h) => ("act cont -".to_string(), Err(h)),
                    Ok(o) => {
                        out.line("act cont -");
                        out.line(format!("impl {o}"));
                        let k = 10 + rng.below(200) as usize;
                        let hooks: Vec<Hook> = (0..k)
                            .map(|_| {
                                let mut h = walk.next_hook(rng);
                                if h.0.is_none() {
                                    h.0 = Some(pick_loc(rng));
                                }
                                h
                            })
                            .collect();
                        let spin = match rng.below(8) {
                            0 => 0,
                            1 => rng.below(500),
                            2..=4 => rng.below(8000),
                            _ => rng.below(40000),
                        };
                        for h in &hooks {
                            out.line(format!("fh {}", hook_text(h)));
                        }
                        match mon.free(&hooks, spin) {
                            Ok((j, o)) => {
                                out.count(if j == hooks.len() {
                                    "free_landed_after_all"
                                } else if j == 0 {
                                    "free_landed_first"
                                } else {
                                    "free_landed_inside"
                                });
                                second_thread_actions += 1;
                                (format!("free {j}"), Ok(o))
                            }
                            Err(h) => ("free 0".to_string(), Err(h)),
                        }
                    }
                }
            } else {
                bp_op(rng, &mut mon, out)
            }
        } else {
            // cycle thread asleep inside the hook: everything comes from the second thread
            second_thread_actions += 1;
            if r < 55 {
                let c = pick_resume(rng, walk.cur);
                out.count("op_resume_while_parked");
                (format!("act {}", c.text()), mon.act(c))
            } else if r < 63 {
                let c = pick_pause(rng, walk.cur);
                out.count("op_pause_while_parked");
                (format!("act {}", c.text()).replace("act entry -", "entry"), mon.act(c))
            } else if r < 75 {
                bp_op(rng, &mut mon, out)
            } else {
                // burst: 2 or 3 calls, at most one pause request
                let len = 2 + rng.below(2) as usize;
                let pause_at = if rng.chance(4, 5) { Some(rng.below(len as u64) as usize) } else { None };
                let cmds: Vec<Cmd> = (0..len)
                    .map(|i| {
                        if Some(i) == pause_at {
                            pick_pause(rng, walk.cur)
                        } else {
                            pick_resume(rng, walk.cur)
                        }
                    })
                    .collect();
                out.count("op_burst");
                let text: Vec<String> = cmds.iter().map(|c| c.text()).collect();
                match mon.burst(&cmds) {
                    Ok(o) => {
                        if o.starts_with("r=i") {
                            out.count("burst_thread_came_back");
                        } else {
                            out.count("burst_thread_parked_again");
                        }
                        (format!("burst {} | {}", text.join(" "), o), Ok(o))
                    }
                    Err(h) => (format!("burst {} | hang", text.join(" ")), Err(h)),
                }
            }
        };
        out.line(op_line);
        match res {
            Ok(o) => {
                if let Some(pos) = o.find("stops=") {
                    let field = o[pos + 6..].split(' ').next().unwrap_or("-");
                    if field != "-" {
                        let k = field.split(',').count();
                        total_stops += k;
                        for s in field.split(',') {
                            out.count(&format!("stop_{}", &s[..1]));
                        }
                    }
                }
                out.line(format!("impl {o}"));
            }
            Err(Hang) => {
                out.line("impl hang");
                out.count("hang");
                HANGS.fetch_add(1, Ordering::SeqCst);
                hung = true;
                break;
            }
        }
    }
    if !hung {
        out.line("finish");
        match mon.finish() {
            Ok(o) => out.line(format!("impl {o}")),
            Err(Hang) => {
                out.line("impl hang");
                out.count("hang");
                HANGS.fetch_add(1, Ordering::SeqCst);
                hung = true;
            }
        }
        // the stop channel and `drain_stops` must have seen the same sequence
        out.line("# stop channel vs drain_stops");
        if mon.chan_stops != mon.drained_stops {
            out.line(format!(
                "chan-vs-drain {} {}",
                show_list(&mon.chan_stops),
                show_list(&mon.drained_stops)
            ));
            out.line("impl differ");
            out.count("chan_vs_drain_differs");
        }
    }
    if total_stops >= 2 && second_thread_actions >= 1 {
        out.line("tag nontrivial");
    }
    out.line("end");
    mon.shutdown();
    !hung
}

fn bp_op(rng: &mut Rng, mon: &mut Mon, out: &mut Out) -> (String, Result<String, Hang>) {
    if rng.chance(1, 6) {
        out.count("op_clearbp");
        mon.control.clear_breakpoints();
        ("clearbp".to_string(), Ok(mon.obs("-")))
    } else {
        out.count("op_setbp");
        let file = rng.below(2) as u32;
        let k = match rng.below(6) {
            0 => 0,
            1 | 2 => 1,
            3 | 4 => 2,
            _ => 3,
        };
        let bps: Vec<BpSpec> = (0..k).map(|_| pick_bp(rng, file)).collect();
        mon.control
            .set_breakpoints_for_file(file, bps.iter().map(|b| b.build()).collect());
        let text: Vec<String> = bps.iter().map(|b| b.text()).collect();
        (
            format!("bp {} {}", file, text.join(" ")).trim_end().to_string(),
            Ok(mon.obs("-")),
        )
    }
}

pub fn run(args: &Args) -> i32 {
    if args.extra.contains_key("shadow") {
        ex::probe_shadow();
        return 0;
    }
    if args.extra.contains_key("probe") {
        rt::probe(args.seed);
        return 0;
    }
    let nops = args.extra_usize("ops", 60);
    let rt_cases = args.extra_usize("rt", 0) as u64;
    let ex_cases = args.extra_usize("ex", 0) as u64;
    let rt_runs = args.extra_usize("rt_runs", 3);
    let rt_all_threads = args.extra_usize("rt_all_threads", 0) != 0;
    let jobs = args.extra_usize("jobs", 4).max(1);
    let watchdog = Duration::from_millis(args.extra_usize("watchdog_ms", 5000) as u64);
    let numbers: Vec<u64> = match args.only {
        Some(n) => vec![n],
        None => (0..args.cases + rt_cases + ex_cases).collect(),
    };
    // Cases are independent (own DebugControl / Runtime, own Rng stream): run them on a few worker
    // threads and merge the per-case outputs in case order, so the file does not depend on `jobs`.
    let next = AtomicUsize::new(0);
    let results: std::sync::Mutex<Vec<Option<Result<Out, String>>>> =
        std::sync::Mutex::new((0..numbers.len()).map(|_| None).collect());
    thread::scope(|scope| {
        for _ in 0..jobs.min(numbers.len().max(1)) {
            scope.spawn(|| loop {
                let i = next.fetch_add(1, Ordering::SeqCst);
                if i >= numbers.len() {
                    break;
                }
                let n = numbers[i];
                let mut rng = Rng::for_case(args.seed, n);
                let mut out = Out::new();
                if HANGS.load(Ordering::SeqCst) >= MAX_HANGS {
                    out.count("cases_skipped_after_hangs");
                    results.lock().expect("results")[i] = Some(Ok(out));
                    continue;
                }
                let res = if n < args.cases {
                    run_mon_case(n, &mut rng, nops, watchdog, &mut out);
                    out.count("cases_mon");
                    Ok(out)
                } else if n >= args.cases + rt_cases {
                    match ex::run_ex_case(n, &mut rng, watchdog, &mut out) {
                        Ok(()) => {
                            out.count("cases_ex");
                            Ok(out)
                        }
                        Err(e) => Err(format!("case {n}: {e}")),
                    }
                } else {
                    match rt::run_rt_case(n, &mut rng, watchdog, rt_all_threads, rt_runs, &mut out) {
                        Ok(()) => {
                            out.count("cases_rt");
                            Ok(out)
                        }
                        Err(e) => Err(format!("case {n}: {e}")),
                    }
                };
                results.lock().expect("results")[i] = Some(res);
            });
        }
    });
    let mut out = Out::new();
    for r in results.into_inner().expect("results") {
        match r {
            Some(Ok(o)) => {
                out.buf.push_str(&o.buf);
                for (k, v) in o.stats {
                    out.add(&k, v);
                }
            }
            Some(Err(e)) => {
                eprintln!("{e}");
                return 3;
            }
            None => {
                eprintln!("a case was not run");
                return 3;
            }
        }
    }
    out.finish(&args.out);
    0
}
