//! C17 third surface (`kind ex`): expressions the debugger evaluates on the live program.
//!
//! Watch expressions, breakpoint conditions and logpoint fragments are evaluated by the debug hook on
//! the LIVE `EvalContext` of the cycle thread; the only thing that keeps them from changing program
//! state is the purity guard of `harness::parse_debug_expression` / `parse_debug_lvalue`
//! (`expression_has_side_effects`).  Per case: one ST program with side-effecting user functions
//! (global write, VAR_IN_OUT, FB call) and a batch of generated expressions mixing allow-listed pure
//! stdlib calls (any case, positional and named arguments, conversions) with user / unknown /
//! unresolvable callees, nested and in every argument position.
//!
//!   (a) `expr` / `lval`: the real guard's verdict (accepted / rejected as impure) is compared with the
//!       Lean model's `hasSideEffects` on the same tree (every call checked, unknown callee => impure);
//!   (b) `state`: every ACCEPTED expression is registered through the public API as a watch
//!       expression, as the condition of a breakpoint and as a logpoint fragment, the program is run
//!       with a breakpoint on every statement, and the program state at every stop and at the end
//!       must equal the run without the expression (which layer 2 ties to the undebugged run).

use std::time::Duration;

use super::rt::{state_text, Ev, Session};
use crate::rng::Rng;
use crate::util::Out;
use trust_runtime::debug::{DebugBreakpoint, LogFragment, SourceLocation};
use trust_runtime::eval::expr::Expr;
use trust_runtime::harness::{parse_debug_expression, parse_debug_lvalue, CompileSession};
use trust_runtime::value::Duration as RtDuration;
use trust_runtime::Runtime;

const PROGRAM: &str = r#"CONFIGURATION Conf
VAR_GLOBAL
    calls : INT := 0;
    total : INT := 0;
    aux : INT := 5;
    d0 : DATE := D#2020-03-04;
    garr : ARRAY[0..3] OF INT;
END_VAR
TASK MainTask (INTERVAL := T#10ms, PRIORITY := 1);
PROGRAM P1 WITH MainTask : Main;
END_CONFIGURATION

FUNCTION Bump : INT
VAR_INPUT
    v : INT;
END_VAR
    calls := calls + INT#1;
    Bump := v + calls;
END_FUNCTION

FUNCTION Pure2 : INT
VAR_INPUT
    v : INT;
END_VAR
    Pure2 := v + INT#2;
END_FUNCTION

FUNCTION BumpIO : INT
VAR_IN_OUT
    r : INT;
END_VAR
    r := r + INT#1;
    BumpIO := r;
END_FUNCTION

FUNCTION_BLOCK Acc
VAR_INPUT
    v : INT;
END_VAR
VAR_OUTPUT
    o : INT;
END_VAR
VAR
    n : INT;
END_VAR
    n := n + v;
    o := n;
END_FUNCTION_BLOCK

PROGRAM Main
VAR
    fbc : Acc;
    k : INT;
END_VAR
    total := total + Bump(INT#1);
    fbc(v := INT#1);
    total := total + fbc.o;
    k := k + INT#1;
    total := total + INT#100;
END_PROGRAM
"#;

/// Expression tree as generated; rendered both as ST text (for the real guard) and in the prefix
/// form the Lean driver reads (`L`, `N k ..`, `C name k ..`, `U k ..`).
#[derive(Clone, Debug)]
enum E {
    Leaf(String),
    Un(&'static str, Box<E>),
    Bin(&'static str, Box<E>, Box<E>),
    Paren(Box<E>),
    /// call with a resolvable callee name; each argument: (formal name, is output `=>`, value)
    Call(String, Vec<(Option<&'static str>, bool, E)>),
    /// call whose target is not a name / field access: `(<target>)(args)` or `<call>(args)`
    Weird(Box<E>, bool, Vec<E>),
    Index(String, Box<E>),
}

impl E {
    fn text(&self) -> String {
        match self {
            E::Leaf(s) => s.clone(),
            E::Un(op, e) => format!("{op}{}", e.text()),
            E::Bin(op, a, b) => format!("{} {op} {}", a.text(), b.text()),
            E::Paren(e) => format!("({})", e.text()),
            E::Call(name, args) => {
                let parts: Vec<String> = args
                    .iter()
                    .map(|(formal, out, e)| match formal {
                        Some(f) if *out => format!("{f} => {}", e.text()),
                        Some(f) => format!("{f} := {}", e.text()),
                        None => e.text(),
                    })
                    .collect();
                format!("{name}({})", parts.join(", "))
            }
            E::Weird(target, paren, args) => {
                let parts: Vec<String> = args.iter().map(|e| e.text()).collect();
                if *paren {
                    format!("({})({})", target.text(), parts.join(", "))
                } else {
                    format!("{}({})", target.text(), parts.join(", "))
                }
            }
            E::Index(base, e) => format!("{base}[{}]", e.text()),
        }
    }

    fn tokens(&self, out: &mut Vec<String>) {
        match self {
            E::Leaf(_) => out.push("L".into()),
            E::Un(_, e) | E::Paren(e) => {
                out.push("N".into());
                out.push("1".into());
                e.tokens(out);
            }
            E::Bin(_, a, b) => {
                out.push("N".into());
                out.push("2".into());
                a.tokens(out);
                b.tokens(out);
            }
            E::Call(name, args) => {
                out.push("C".into());
                out.push(name.clone());
                out.push(args.len().to_string());
                for (_, _, e) in args {
                    e.tokens(out);
                }
            }
            E::Weird(target, _, args) => {
                out.push("U".into());
                out.push((args.len() + 1).to_string());
                target.tokens(out);
                for e in args {
                    e.tokens(out);
                }
            }
            E::Index(_, e) => {
                out.push("N".into());
                out.push("1".into());
                e.tokens(out);
            }
        }
    }

    fn token_line(&self) -> String {
        let mut v = Vec::new();
        self.tokens(&mut v);
        v.join(" ")
    }

    /// Does the tree call `name` (compared as the guard does, ASCII case-insensitively)?
    fn calls_name(&self, upper: &str) -> bool {
        match self {
            E::Leaf(_) => false,
            E::Un(_, e) | E::Paren(e) | E::Index(_, e) => e.calls_name(upper),
            E::Bin(_, a, b) => a.calls_name(upper) || b.calls_name(upper),
            E::Call(name, args) => {
                name.eq_ignore_ascii_case(upper) || args.iter().any(|(_, _, e)| e.calls_name(upper))
            }
            E::Weird(t, _, args) => t.calls_name(upper) || args.iter().any(|e| e.calls_name(upper)),
        }
    }

    /// Number of leaves (positions where an impure call can be planted).
    fn leaves(&self) -> usize {
        match self {
            E::Leaf(_) => 1,
            E::Un(_, e) | E::Paren(e) | E::Index(_, e) => e.leaves(),
            E::Bin(_, a, b) => a.leaves() + b.leaves(),
            E::Call(_, args) => args.iter().map(|(_, out, e)| if *out { 0 } else { e.leaves() }).sum(),
            E::Weird(t, _, args) => t.leaves() + args.iter().map(|e| e.leaves()).sum::<usize>(),
        }
    }

    /// Replaces the `n`-th leaf (in order) by `with`.
    fn plant(&mut self, n: &mut usize, with: &E) -> bool {
        match self {
            E::Leaf(_) => {
                if *n == 0 {
                    *self = with.clone();
                    true
                } else {
                    *n -= 1;
                    false
                }
            }
            E::Un(_, e) | E::Paren(e) | E::Index(_, e) => e.plant(n, with),
            E::Bin(_, a, b) => a.plant(n, with) || b.plant(n, with),
            E::Call(_, args) => {
                for (_, out, e) in args.iter_mut() {
                    if !*out && e.plant(n, with) {
                        return true;
                    }
                }
                false
            }
            E::Weird(t, _, args) => {
                if t.plant(n, with) {
                    return true;
                }
                for e in args.iter_mut() {
                    if e.plant(n, with) {
                        return true;
                    }
                }
                false
            }
        }
    }
}

fn leaf(rng: &mut Rng) -> E {
    E::Leaf(
        match rng.below(6) {
            0 => "total".to_string(),
            1 => "calls".to_string(),
            2 => "aux".to_string(),
            3 => "garr[1]".to_string(),
            _ => format!("INT#{}", rng.below(9)),
        },
    )
}

fn vary_case(rng: &mut Rng, name: &str) -> String {
    match rng.below(4) {
        0 => name.to_ascii_lowercase(),
        1 => {
            let mut s = name.to_ascii_lowercase();
            if let Some(c) = s.get_mut(0..1) {
                c.make_ascii_uppercase();
            }
            s
        }
        _ => name.to_string(),
    }
}

/// An expression whose calls are all allow-listed.
fn pure_expr(rng: &mut Rng, depth: u32) -> E {
    if depth == 0 {
        return leaf(rng);
    }
    let d = depth - 1;
    match rng.below(14) {
        0 | 1 => leaf(rng),
        2 => E::Bin(*rng.pick(&["+", "-", "*"]), Box::new(pure_expr(rng, d)), Box::new(pure_expr(rng, d))),
        3 => E::Paren(Box::new(pure_expr(rng, d))),
        4 => E::Un("-", Box::new(E::Paren(Box::new(pure_expr(rng, d))))),
        5 => E::Call(vary_case(rng, "ABS"), vec![(None, false, pure_expr(rng, d))]),
        6 => {
            let base = if rng.bool() { "MIN" } else { "MAX" };
            let name = vary_case(rng, base);
            if rng.chance(1, 4) {
                E::Call(name, vec![(Some("IN1"), false, pure_expr(rng, d)), (Some("IN2"), false, pure_expr(rng, d))])
            } else {
                let n = 2 + rng.below(2);
                E::Call(name, (0..n).map(|_| (None, false, pure_expr(rng, d))).collect())
            }
        }
        7 => E::Call(
            vary_case(rng, "LIMIT"),
            vec![(None, false, pure_expr(rng, d)), (None, false, pure_expr(rng, d)), (None, false, pure_expr(rng, d))],
        ),
        8 => E::Call(
            vary_case(rng, "SEL"),
            vec![
                (None, false, E::Bin(">", Box::new(pure_expr(rng, d)), Box::new(pure_expr(rng, d)))),
                (None, false, pure_expr(rng, d)),
                (None, false, pure_expr(rng, d)),
            ],
        ),
        9 => E::Call(
            vary_case(rng, "MUX"),
            vec![(None, false, E::Leaf(format!("INT#{}", rng.below(2)))), (None, false, pure_expr(rng, d)), (None, false, pure_expr(rng, d))],
        ),
        10 | 11 => {
            // conversions, incl. the prefix forms
            let (outer, inner) = *rng.pick(&[
                ("DINT_TO_INT", "INT_TO_DINT"),
                ("LINT_TO_INT", "INT_TO_LINT"),
                ("TO_INT", "TO_DINT"),
                ("DINT_TO_INT", "TO_DINT"),
                ("TO_INT", "INT_TO_LINT"),
            ]);
            E::Call(vary_case(rng, outer), vec![(None, false, E::Call(vary_case(rng, inner), vec![(None, false, pure_expr(rng, d))]))])
        }
        12 => E::Index("garr".into(), Box::new(E::Call(vary_case(rng, "LIMIT"), vec![
            (None, false, E::Leaf("INT#0".into())), (None, false, pure_expr(rng, d)), (None, false, E::Leaf("INT#3".into())),
        ]))),
        _ => E::Call(vary_case(rng, "ABS"), vec![(None, false, pure_expr(rng, d))]),
    }
}

/// A call that must be rejected: user function with a side effect (global write, in-out, FB call), a
/// pure user function (not on the allow-list), an undefined name, near misses of conversion names,
/// a method-style callee, and callees that are not names at all.
fn impure_call(rng: &mut Rng) -> (E, &'static str) {
    let arg = leaf(rng);
    match rng.below(11) {
        0 | 1 => (E::Call(vary_case(rng, "Bump"), vec![(None, false, arg)]), "user_global_write"),
        2 => (E::Call("Bump".into(), vec![(Some("v"), false, arg)]), "user_global_write"),
        3 => (E::Call("BumpIO".into(), vec![(None, false, E::Leaf("total".into()))]), "user_in_out"),
        4 => (E::Call("fbc".into(), vec![(Some("v"), false, arg)]), "fb_call"),
        5 => (E::Call("Pure2".into(), vec![(None, false, arg)]), "user_pure"),
        6 => (E::Call("NoSuchFn".into(), vec![(None, false, arg)]), "unknown_name"),
        7 => (
            E::Call(rng.pick(&["INT_TO_BUMP", "BUMP_TO_INT", "TO_BUMP", "ABSX", "XABS", "TRUNC_BUMP"]).to_string(), vec![(None, false, arg)]),
            "near_miss_name",
        ),
        8 => (E::Call("fbc.Run".into(), vec![(None, false, arg)]), "method_style"),
        9 => (E::Weird(Box::new(E::Leaf("Bump".into())), true, vec![arg]), "paren_callee"),
        _ => (
            E::Weird(Box::new(E::Call("Bump".into(), vec![(None, false, arg.clone())])), false, vec![arg]),
            "call_of_call",
        ),
    }
}

fn split_call(rng: &mut Rng) -> E {
    if rng.bool() {
        E::Call(
            "SPLIT_DATE".into(),
            vec![
                (None, false, E::Leaf("d0".into())),
                (None, false, E::Leaf("total".into())),
                (None, false, E::Leaf("aux".into())),
                (None, false, E::Leaf("aux".into())),
            ],
        )
    } else {
        E::Call(
            "SPLIT_DATE".into(),
            vec![
                (Some("IN"), false, E::Leaf("d0".into())),
                (Some("YEAR"), true, E::Leaf("total".into())),
                (Some("MONTH"), true, E::Leaf("aux".into())),
                (Some("DAY"), true, E::Leaf("aux".into())),
            ],
        )
    }
}

/// The program of a case: the template, or a variant in which the user function `Pure2` is renamed
/// to an allow-listed standard name and given a side effect (the compiler accepts that, and call
/// resolution prefers the user function): known finding C17-user-function-shadows-allowlisted-name.
fn program_source(shadow: Option<&str>) -> String {
    match shadow {
        None => PROGRAM.to_string(),
        Some(name) => PROGRAM
            .replace("FUNCTION Pure2 : INT", &format!("FUNCTION {name} : INT"))
            .replace("Pure2 := v + INT#2;", &format!("calls := calls + INT#1;\n    {name} := v + INT#2;")),
    }
}

fn build(src: &str) -> Result<Runtime, String> {
    CompileSession::from_source(src)
        .build_runtime()
        .map_err(|e| format!("ex program does not compile: {e}"))
}

/// All-statement-breakpoints run; returns the state fingerprint text at every stop and the final
/// state.  With `expr`, the expression is registered as a watch, as the condition of a breakpoint and
/// as a logpoint fragment (placed before the plain breakpoints so that they are evaluated).
fn observed_states(src: &str, cycles: u32, watchdog: Duration, expr: Option<&Expr>) -> Result<(Vec<String>, String), String> {
    let rt = build(src)?;
    let locs: Vec<SourceLocation> = rt.statement_locations(0).map(|l| l.to_vec()).unwrap_or_default();
    if locs.len() < 4 {
        return Err("ex program: statement locations missing".into());
    }
    let mut bps: Vec<DebugBreakpoint> = Vec::new();
    if let Some(e) = expr {
        for (i, l) in locs.iter().enumerate() {
            if i % 3 == 0 {
                let mut lp = DebugBreakpoint::new(*l);
                lp.log_message = Some(vec![LogFragment::Text("v=".into()), LogFragment::Expr(e.clone())]);
                bps.push(lp);
            }
            if i % 2 == 0 {
                let mut cb = DebugBreakpoint::new(*l);
                cb.condition = Some(e.clone());
                bps.push(cb);
            }
        }
    }
    bps.extend(locs.iter().map(|l| DebugBreakpoint::new(*l)));
    let watch = expr.cloned();
    let mut s = Session::start(rt, cycles, watchdog, move |c| {
        c.set_breakpoints_for_file(0, bps);
        if let Some(w) = watch {
            c.register_watch_expression(w);
        }
    });
    let mut states = Vec::new();
    loop {
        match s.wait() {
            Ok(Ev::Stop(_)) => {
                let text = s
                    .control
                    .snapshot()
                    .map(|snap| state_text(&snap.storage, true))
                    .unwrap_or_else(|| "<no snapshot>".into());
                states.push(text);
                if states.len() > 5000 {
                    s.abandon();
                    return Err("ex run: too many stops".into());
                }
                s.control.continue_run();
            }
            Ok(Ev::Done) => break,
            Err(_) => {
                s.abandon();
                return Err("hang".into());
            }
        }
    }
    let (rt, errors) = s.join().ok_or("ex run: join failed")?;
    if !errors.is_empty() {
        return Err(format!("ex run: cycle errors {errors:?}"));
    }
    Ok((states, state_text(rt.storage(), false)))
}

fn verdict(res: &Result<impl Sized, trust_runtime::harness::CompileError>) -> String {
    match res {
        Ok(_) => "acc".into(),
        Err(e) => {
            let msg = e.to_string();
            if msg.contains("side-effect free") {
                "rej-se".into()
            } else {
                format!("rej-other {}", msg.replace('\n', " "))
            }
        }
    }
}

pub fn run_ex_case(n: u64, rng: &mut Rng, watchdog: Duration, out: &mut Out) -> Result<(), String> {
    let cycles = 3;
    let shadow: Option<&str> = if rng.chance(1, 6) {
        Some(*rng.pick(&["ABS", "MAX", "TO_INT", "INT_TO_LINT", "LIMIT"]))
    } else {
        None
    };
    let src = program_source(shadow);
    let src = src.as_str();
    let mut rt = build(src)?;
    // reference: undebugged final state, and the per-stop states without any expression
    let mut plain = build(src)?;
    for _ in 0..cycles {
        plain.advance_time(RtDuration::from_millis(10));
        plain.execute_cycle().map_err(|e| format!("ex plain run: {e:?}"))?;
    }
    let plain_final = state_text(plain.storage(), false);
    out.line(format!("case {n}"));
    out.line("kind ex");
    if let Some(name) = shadow {
        out.line(format!("# program variant: user FUNCTION {name} (with a side effect) shadows the standard function"));
        out.count("ex_cases_with_shadowing_user_function");
    }
    let (ref_states, ref_final) = match observed_states(src, cycles, watchdog, None) {
        Ok(r) => r,
        Err(e) => {
            out.line("state");
            out.line(format!("impl reference run failed: {e}"));
            out.line("end");
            return Ok(());
        }
    };
    out.line("# reference run (breakpoint on every statement, no expression) vs undebugged run");
    out.line("state");
    out.line(if ref_final == plain_final { "impl same".to_string() } else { "impl final differs".to_string() });
    let nexpr = 10 + rng.below(8);
    let mut nontrivial = false;
    for _ in 0..nexpr {
        // a pure skeleton; then, mostly, one offending call planted at a random leaf position
        let depth = 1 + rng.below(3) as u32;
        let mut e = pure_expr(rng, depth);
        let mut kind = "pure";
        let r = rng.below(10);
        if r < 5 {
            let (bad, k) = impure_call(rng);
            let mut pos = rng.below(e.leaves().max(1) as u64) as usize;
            e.plant(&mut pos, &bad);
            kind = k;
        } else if r == 5 {
            let sp = split_call(rng);
            if rng.bool() {
                e = sp;
            } else {
                let mut pos = rng.below(e.leaves().max(1) as u64) as usize;
                e.plant(&mut pos, &sp);
            }
            kind = "split";
        }
        let text = e.text();
        // only syntactically valid input reaches the guard (the real parser decides)
        let wrapped = format!("PROGRAM __WATCH\n__watch := {text};\nEND_PROGRAM");
        if !trust_syntax::parser::parse(&wrapped).ok() {
            out.count(&format!("ex_not_parsed_{kind}"));
            continue;
        }
        let profile = rt.profile();
        let as_lvalue = rng.chance(1, 6);
        if as_lvalue {
            // assignment-target surface: `garr[<expr>]`
            let target = E::Index("garr".into(), Box::new(e.clone()));
            let res = parse_debug_lvalue(&target.text(), rt.registry_mut(), profile, &[]);
            out.line(format!("# {}", target.text()));
            out.line(format!("lval {}", target.token_line()));
            let v = verdict(&res);
            out.line(format!("impl {v}"));
            out.count(&format!("ex_lval_{}", v.split(' ').next().unwrap_or("")));
            continue;
        }
        let res = parse_debug_expression(&text, rt.registry_mut(), profile, &[]);
        out.line(format!("# {text}"));
        out.line(format!("expr {}", e.token_line()));
        let v = verdict(&res);
        out.line(format!("impl {v}"));
        out.count(&format!("ex_{kind}_{}", v.split(' ').next().unwrap_or("")));
        if let Ok(expr) = res {
            // (b) transparency of every accepted expression
            let outcome = match observed_states(src, cycles, watchdog, Some(&expr)) {
                Ok((states, fin)) => {
                    if states.len() != ref_states.len() {
                        format!("stop count differs ({} vs {})", states.len(), ref_states.len())
                    } else if let Some(i) = states.iter().zip(ref_states.iter()).position(|(a, b)| a != b) {
                        format!("state differs at stop {i}")
                    } else if fin != ref_final {
                        "final differs".to_string()
                    } else {
                        "same".to_string()
                    }
                }
                Err(e) => {
                    if e == "hang" {
                        super::HANGS.fetch_add(1, std::sync::atomic::Ordering::SeqCst);
                        out.count("hang");
                    }
                    e
                }
            };
            let shadowed_call = shadow.is_some_and(|name| e.calls_name(name));
            if shadowed_call {
                // known finding C17-user-function-shadows-allowlisted-name
                out.line(format!("# known-shadow {outcome}"));
                out.count(if outcome == "same" { "ex_known_shadow_same" } else { "ex_known_shadow_changed_state" });
            } else {
                out.line("state");
                out.line(format!("impl {outcome}"));
                out.count("ex_state_runs");
                nontrivial = true;
            }
        }
    }
    if nontrivial {
        out.line("tag nontrivial");
    }
    out.line("end");
    Ok(())
}

/// Experiment (`--probe 1 --shadow 1`): can a user function shadow an allow-listed name?
pub fn probe_shadow() {
    for name in ["ABS", "INT_TO_DINT", "TO_INT", "MAX", "SPLIT_DATE", "TRUNC"] {
        let src = PROGRAM.replace("FUNCTION Pure2 : INT", &format!("FUNCTION {name} : INT")).replace("Pure2 := v + INT#2;", &format!("calls := calls + INT#1; {name} := v;"));
        match CompileSession::from_source(src.as_str()).build_runtime() {
            Ok(_) => println!("{name}: user function with this name COMPILES"),
            Err(e) => println!("{name}: rejected: {}", e.to_string().lines().next().unwrap_or("")),
        }
    }
}
