//! Layer 2 (stub).
use crate::rng::Rng;
use crate::util::Out;
use std::time::Duration;

pub fn run_rt_case(_n: u64, _rng: &mut Rng, _watchdog: Duration, _out: &mut Out) -> Result<(), String> {
    Ok(())
}
