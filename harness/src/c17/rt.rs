//! C17 layer 2: a real `Runtime` built from generated Structured Text (two source files, two tasks
//! plus a background program, nested FUNCTION / FUNCTION_BLOCK calls, FOR / WHILE / IF / CASE),
//! executed on a cycle thread while the main thread plays the debugger.
//!
//! Per case:
//!   1. undebugged run -> final program state (fingerprint of all globals / instances);
//!   2. trace run: a breakpoint on every statement, Continue at every stop -> the statement trace
//!      (location, thread, call depth, fingerprint of the *whole* program state incl. frames);
//!      checked against static facts (every location is a registered statement location, the call
//!      depth equals the nesting level of the POU that contains it) and, per thread, against a
//!      StepIn-only run of that thread;
//!   3. scripted runs: generated commands at every stop (continue, step in/over/out with and
//!      without thread, breakpoint changes with hit counts / conditions / logpoints, thread-scoped
//!      pauses, and pauses fired asynchronously from the main thread after a random delay).  Every
//!      stop is located in the trace by its fingerprint — so the program state at every stop is
//!      compared with the undebugged sequence — and the Lean model, fed with the trace and the
//!      commands, must predict the same stop (reason, location, thread, generation, depth, index).
//!      The final state must equal the undebugged one.

use std::collections::hash_map::DefaultHasher;
use std::hash::{Hash, Hasher};
use std::sync::mpsc::{channel, Receiver, RecvTimeoutError};
use std::thread::{self, JoinHandle};
use std::time::{Duration, Instant};

use super::{opt, show_loc, show_stop, BpSpec, Cmd};
use crate::rng::Rng;
use crate::util::Out;
use trust_runtime::debug::{
    DebugBreakpoint, DebugControl, DebugMode, DebugStop, DebugStopReason, HitCondition, SourceLocation,
};
use trust_runtime::harness::{CompileSession, SourceFile};
use trust_runtime::memory::VariableStorage;
use trust_runtime::value::Duration as RtDuration;
use trust_runtime::Runtime;

const MODULUS: i64 = 1_000_003;

// ------------------------------------------------------------------------------------------------
// program generator
// ------------------------------------------------------------------------------------------------

/// A POU of the generated program: its byte range in its file and its static call level.
#[derive(Clone, Debug)]
pub struct Pou {
    pub file: u32,
    pub start: usize,
    pub end: usize,
    pub level: u32,
}

pub struct Program {
    pub files: Vec<String>,
    pub pous: Vec<Pou>,
    pub nthreads: u32,
}

struct Gen<'a> {
    rng: &'a mut Rng,
    next_k: i64,
    /// number of functions / function blocks per level (index 0 = level 1)
    nfun: Vec<usize>,
}

impl<'a> Gen<'a> {
    fn k(&mut self) -> i64 {
        self.next_k += 1;
        self.next_k * 7 + 1
    }

    /// A block of statements over accumulator `acc` at static level `level`; `fbs` are the FB
    /// instance names available in this POU, `nest` bounds statement nesting.
    fn block(&mut self, acc: &str, level: u32, fbs: &[(String, String)], nest: u32, ind: &str, out: &mut String, budget: &mut i32) {
        let n = 1 + self.rng.below(3);
        for _ in 0..n {
            self.stmt(acc, level, fbs, nest, ind, out, budget);
        }
    }

    /// A POU body: random statements around one guaranteed call of each available kind.
    fn body(&mut self, acc: &str, level: u32, fbs: &[(String, String)], nest: u32, out: &mut String, budget: &mut i32) {
        self.block(acc, level, fbs, nest, "    ", out, budget);
        if (level as usize) < self.nfun.len() && self.nfun[level as usize] > 0 && self.rng.chance(4, 5) {
            let f = self.rng.below(self.nfun[level as usize] as u64);
            out.push_str(&format!("    {acc} := F{}_{}({acc});\n", level + 1, f));
        }
        if !fbs.is_empty() && self.rng.chance(4, 5) {
            let (inst, _) = &fbs[self.rng.below(fbs.len() as u64) as usize];
            out.push_str(&format!("    {inst}(v := {acc});\n"));
            out.push_str(&format!("    {acc} := ({acc} + {inst}.o) MOD {MODULUS};\n"));
        }
        if self.rng.chance(1, 2) {
            self.block(acc, level, fbs, nest, "    ", out, budget);
        }
    }

    fn simple(&mut self, acc: &str, ind: &str, out: &mut String) {
        let k = self.k();
        out.push_str(&format!("{ind}{acc} := ({acc} * 31 + {k}) MOD {MODULUS};\n"));
    }

    fn stmt(&mut self, acc: &str, level: u32, fbs: &[(String, String)], nest: u32, ind: &str, out: &mut String, budget: &mut i32) {
        *budget -= 1;
        let inner = format!("{ind}    ");
        let can_nest = nest < 2 && *budget > 0;
        let can_call = (level as usize) < self.nfun.len() + 0 && *budget > 0;
        let choice = self.rng.below(12);
        match choice {
            0..=3 => self.simple(acc, ind, out),
            4 if can_nest => {
                out.push_str(&format!("{ind}IF ({acc} MOD 2) = 0 THEN\n"));
                self.block(acc, level, fbs, nest + 1, &inner, out, budget);
                if self.rng.chance(2, 3) {
                    out.push_str(&format!("{ind}ELSE\n"));
                    self.block(acc, level, fbs, nest + 1, &inner, out, budget);
                }
                out.push_str(&format!("{ind}END_IF;\n"));
            }
            5 if can_nest => {
                let var = if nest == 0 { "i" } else { "j" };
                let n = self.rng.below(4);
                out.push_str(&format!("{ind}FOR {var} := 1 TO {n} DO\n"));
                self.block(acc, level, fbs, nest + 1, &inner, out, budget);
                out.push_str(&format!("{ind}END_FOR;\n"));
            }
            6 if can_nest => {
                let var = if nest == 0 { "w" } else { "v" };
                let n = self.rng.below(3);
                out.push_str(&format!("{ind}{var} := 0;\n"));
                out.push_str(&format!("{ind}WHILE {var} < {n} DO\n"));
                out.push_str(&format!("{inner}{var} := {var} + 1;\n"));
                self.block(acc, level, fbs, nest + 1, &inner, out, budget);
                out.push_str(&format!("{ind}END_WHILE;\n"));
            }
            7 if can_nest => {
                out.push_str(&format!("{ind}CASE ({acc} MOD 3) OF\n"));
                out.push_str(&format!("{inner}0:\n"));
                self.simple(acc, &format!("{inner}    "), out);
                out.push_str(&format!("{inner}1:\n"));
                self.block(acc, level, fbs, nest + 1, &format!("{inner}    "), out, budget);
                out.push_str(&format!("{ind}ELSE\n"));
                self.simple(acc, &inner, out);
                out.push_str(&format!("{ind}END_CASE;\n"));
            }
            8 | 9 if can_call && self.nfun[level as usize] > 0 => {
                let f = self.rng.below(self.nfun[level as usize] as u64);
                out.push_str(&format!("{ind}{acc} := F{}_{}({acc});\n", level + 1, f));
            }
            10 | 11 if !fbs.is_empty() && *budget > 0 => {
                let (inst, _) = &fbs[self.rng.below(fbs.len() as u64) as usize];
                out.push_str(&format!("{ind}{inst}(v := {acc});\n"));
                out.push_str(&format!("{ind}{acc} := ({acc} + {inst}.o) MOD {MODULUS};\n"));
            }
            _ => self.simple(acc, ind, out),
        }
    }
}

const LOCALS: &str = "    i : DINT;\n    j : DINT;\n    w : DINT;\n    v : DINT;\n";

pub fn gen_program(rng: &mut Rng) -> Program {
    let levels = 1 + rng.below(3) as usize; // call levels below the programs
    let nfun: Vec<usize> = (0..levels).map(|_| 1 + rng.below(2) as usize).collect();
    let nfb: Vec<usize> = (0..levels).map(|l| if l < 2 { rng.below(3).min(1) as usize + (l == 0) as usize * rng.below(2) as usize } else { 0 }).collect();
    let mut g = Gen { rng, next_k: 0, nfun: nfun.clone() };
    let mut lib = String::new();
    let mut pous = Vec::new();
    // deepest level first so that every callee is declared (order does not matter to the compiler,
    // but it keeps the file readable)
    for level in (1..=levels as u32).rev() {
        for f in 0..nfun[level as usize - 1] {
            let start = lib.len();
            lib.push_str(&format!(
                "FUNCTION F{level}_{f} : LINT\nVAR_INPUT\n    a : LINT;\nEND_VAR\nVAR\n    t : LINT;\n{LOCALS}END_VAR\n    t := a;\n"
            ));
            g.simple("t", "    ", &mut lib);
            let mut budget = 5;
            g.body("t", level, &[], 0, &mut lib, &mut budget);
            lib.push_str(&format!("    F{level}_{f} := t;\nEND_FUNCTION\n\n"));
            pous.push(Pou { file: 1, start, end: lib.len(), level });
        }
        for f in 0..nfb[level as usize - 1] {
            let start = lib.len();
            let mut fbs: Vec<(String, String)> = Vec::new();
            let mut decl = String::new();
            if (level as usize) < levels {
                for q in 0..nfb[level as usize] {
                    fbs.push((format!("sub{q}"), format!("B{}_{q}", level + 1)));
                    decl.push_str(&format!("    sub{q} : B{}_{q};\n", level + 1));
                }
            }
            lib.push_str(&format!(
                "FUNCTION_BLOCK B{level}_{f}\nVAR_INPUT\n    v : LINT;\nEND_VAR\nVAR_OUTPUT\n    o : LINT;\nEND_VAR\nVAR\n    acc : LINT;\n    i : DINT;\n    j : DINT;\n    w : DINT;\n{decl}END_VAR\n    acc := (acc + v) MOD {MODULUS};\n"
            ));
            let mut budget = 4;
            // the FB has an input called `v`, so its body must not use the WHILE counter `v`:
            // nest = 2 restricts it to simple statements and calls
            g.body("acc", level, &fbs, 2, &mut lib, &mut budget);
            lib.push_str("    o := acc;\nEND_FUNCTION_BLOCK\n\n");
            pous.push(Pou { file: 1, start, end: lib.len(), level });
        }
    }
    // programs
    let nprog = 2 + g.rng.below(2) as usize; // 2 or 3 programs
    let background = nprog == 3 || g.rng.chance(1, 3);
    let mut main = String::new();
    main.push_str("CONFIGURATION C\nVAR_GLOBAL\n    x : LINT := 7;\n    y : LINT := 3;\nEND_VAR\n");
    let ntasks = if background { nprog - 1 } else { nprog };
    for t in 0..ntasks {
        main.push_str(&format!(
            "TASK T{t} (INTERVAL := T#{}ms, PRIORITY := {});\n",
            10 * (t + 1),
            t + 1
        ));
    }
    for p in 0..nprog {
        if p < ntasks {
            main.push_str(&format!("PROGRAM I{p} WITH T{p} : P{p};\n"));
        } else {
            main.push_str(&format!("PROGRAM I{p} : P{p};\n"));
        }
    }
    main.push_str("END_CONFIGURATION\n\n");
    for p in 0..nprog {
        let start = main.len();
        let acc = if p % 2 == 0 { "x" } else { "y" };
        let mut fbs: Vec<(String, String)> = Vec::new();
        let mut decl = String::new();
        for f in 0..nfb[0] {
            fbs.push((format!("fb{f}"), format!("B1_{f}")));
            decl.push_str(&format!("    fb{f} : B1_{f};\n"));
        }
        main.push_str(&format!(
            "PROGRAM P{p}\nVAR_EXTERNAL\n    x : LINT;\n    y : LINT;\nEND_VAR\nVAR\n{LOCALS}{decl}END_VAR\n"
        ));
        let mut budget = 7;
        g.body(acc, 0, &fbs, 0, &mut main, &mut budget);
        g.simple(acc, "    ", &mut main);
        main.push_str("END_PROGRAM\n\n");
        pous.push(Pou { file: 0, start, end: main.len(), level: 0 });
    }
    Program { files: vec![main, lib], pous, nthreads: nprog as u32 }
}

pub fn build(p: &Program) -> Result<Runtime, String> {
    let session = CompileSession::from_sources(vec![
        SourceFile::with_path("main.st", p.files[0].clone()),
        SourceFile::with_path("lib.st", p.files[1].clone()),
    ]);
    session.build_runtime().map_err(|e| format!("compile: {e}"))
}

// ------------------------------------------------------------------------------------------------
// program state fingerprints
// ------------------------------------------------------------------------------------------------

/// Canonical text of the whole program state (globals, retain, instances, frames), without ids
/// that are allocation artefacts.
pub fn state_text(storage: &VariableStorage, with_frames: bool) -> String {
    let mut s = String::new();
    for (k, v) in storage.globals() {
        s.push_str(&format!("g {k}={v:?};"));
    }
    for (k, v) in storage.retain() {
        s.push_str(&format!("r {k}={v:?};"));
    }
    let mut inst: Vec<_> = storage.instances().iter().collect();
    inst.sort_by_key(|(id, _)| id.0);
    for (id, data) in inst {
        s.push_str(&format!("i {} {}:", id.0, data.type_name));
        for (k, v) in &data.variables {
            s.push_str(&format!("{k}={v:?},"));
        }
        s.push(';');
    }
    if with_frames {
        for f in storage.frames() {
            // frame ids are allocated in call order: they tell two calls of the same POU with the
            // same arguments apart
            s.push_str(&format!("f {} #{}:", f.owner, f.id.0));
            for (k, v) in &f.variables {
                s.push_str(&format!("{k}={v:?},"));
            }
            s.push_str(&format!("ret={:?};", f.return_value));
        }
    }
    s
}

fn hash_text(s: &str) -> u64 {
    let mut h = DefaultHasher::new();
    s.hash(&mut h);
    h.finish()
}

// ------------------------------------------------------------------------------------------------
// running a runtime on a cycle thread
// ------------------------------------------------------------------------------------------------

const DONE_FILE: u32 = u32::MAX;

pub enum Ev {
    Stop(DebugStop),
    Done,
}

pub struct Hang;

pub struct Session {
    pub control: DebugControl,
    ev_rx: Receiver<DebugStop>,
    handle: Option<JoinHandle<(Runtime, Vec<String>)>>,
    watchdog: Duration,
    pub logs: usize,
    pub done: bool,
}

impl Session {
    /// Starts `cycles` cycles (10 ms apart) on a new thread.  `setup` runs on the control before the
    /// thread starts.
    pub fn start(mut runtime: Runtime, cycles: u32, watchdog: Duration, setup: impl FnOnce(&DebugControl)) -> Session {
        let control = runtime.enable_debug();
        let (tx, ev_rx) = channel::<DebugStop>();
        control.set_stop_sender(tx.clone());
        setup(&control);
        let handle = thread::spawn(move || {
            let mut errors = Vec::new();
            for _ in 0..cycles {
                runtime.advance_time(RtDuration::from_millis(10));
                if let Err(e) = runtime.execute_cycle() {
                    errors.push(format!("{e:?}"));
                }
            }
            let _ = tx.send(DebugStop {
                reason: DebugStopReason::Entry,
                location: Some(SourceLocation::new(DONE_FILE, 0, 0)),
                thread_id: None,
                breakpoint_generation: None,
            });
            (runtime, errors)
        });
        Session { control, ev_rx, handle: Some(handle), watchdog, logs: 0, done: false }
    }

    pub fn wait(&mut self) -> Result<Ev, Hang> {
        match self.ev_rx.recv_timeout(self.watchdog) {
            Ok(stop) => {
                if stop.location.map(|l| l.file_id) == Some(DONE_FILE) {
                    self.done = true;
                    Ok(Ev::Done)
                } else {
                    Ok(Ev::Stop(stop))
                }
            }
            Err(RecvTimeoutError::Timeout) | Err(RecvTimeoutError::Disconnected) => Err(Hang),
        }
    }

    /// Joins the cycle thread (which must have finished).
    pub fn join(mut self) -> Option<(Runtime, Vec<String>)> {
        self.handle.take().and_then(|h| h.join().ok())
    }

    /// Gives up on a session whose thread does not come back: tries to free it, then leaks it.
    pub fn abandon(mut self) {
        let deadline = Instant::now() + Duration::from_millis(1500);
        if let Some(h) = self.handle.take() {
            while !h.is_finished() && Instant::now() < deadline {
                self.control.clear_breakpoints();
                self.control.continue_run();
                thread::sleep(Duration::from_millis(2));
            }
            if h.is_finished() {
                let _ = h.join();
            }
        }
    }

    /// State fingerprint at the current stop (from the snapshot the hook stored).
    pub fn stop_fingerprint(&self) -> Option<u64> {
        self.control
            .snapshot()
            .map(|snap| hash_text(&format!("{}|{}", state_text(&snap.storage, true), snap.now.as_nanos())))
    }
}

/// One hook of the statement trace.
#[derive(Clone, Debug)]
pub struct TraceItem {
    pub loc: SourceLocation,
    pub thread: Option<u32>,
    pub depth: u32,
    pub fp: u64,
}

fn all_statement_bps(rt: &Runtime, file: u32) -> Vec<DebugBreakpoint> {
    rt.statement_locations(file)
        .map(|locs| locs.iter().map(|l| DebugBreakpoint::new(*l)).collect())
        .unwrap_or_default()
}

/// Trace run: a breakpoint on every statement of both files, Continue at every stop.
fn trace_run(prog: &Program, cycles: u32, watchdog: Duration) -> Result<(Vec<TraceItem>, String, Option<String>), String> {
    let rt = build(prog)?;
    let bps0 = all_statement_bps(&rt, 0);
    let bps1 = all_statement_bps(&rt, 1);
    let mut s = Session::start(rt, cycles, watchdog, |c| {
        c.set_breakpoints_for_file(0, bps0);
        c.set_breakpoints_for_file(1, bps1);
    });
    let mut trace = Vec::new();
    let mut first_state: Option<String> = None;
    loop {
        match s.wait() {
            Ok(Ev::Stop(stop)) => {
                if trace.is_empty() {
                    first_state = s.control.snapshot().map(|snap| state_text(&snap.storage, false));
                }
                if stop.reason != DebugStopReason::Breakpoint {
                    s.abandon();
                    return Err(format!("trace run: unexpected stop {}", show_stop(&stop)));
                }
                let Some(loc) = stop.location else {
                    s.abandon();
                    return Err("trace run: stop without location".into());
                };
                let fp = s.stop_fingerprint().unwrap_or(0);
                trace.push(TraceItem { loc, thread: stop.thread_id, depth: s.control.last_call_depth(), fp });
                s.control.continue_run();
            }
            Ok(Ev::Done) => break,
            Err(Hang) => {
                s.abandon();
                return Err("trace run: hang".into());
            }
        }
        if trace.len() > 20_000 {
            s.abandon();
            return Err("trace run: too long".into());
        }
    }
    let (rt, errors) = s.join().ok_or("trace run: join failed")?;
    if !errors.is_empty() {
        return Err(format!("trace run: cycle errors {errors:?}"));
    }
    Ok((trace, state_text(rt.storage(), false), first_state))
}

/// StepIn-only run for one thread: pause that thread, then StepIn(thread) at every stop.
fn stepin_run(prog: &Program, cycles: u32, thread: u32, watchdog: Duration) -> Result<Vec<(SourceLocation, u32)>, String> {
    let rt = build(prog)?;
    let mut s = Session::start(rt, cycles, watchdog, |c| c.pause_thread(thread));
    let mut seq = Vec::new();
    loop {
        match s.wait() {
            Ok(Ev::Stop(stop)) => {
                let Some(loc) = stop.location else {
                    s.abandon();
                    return Err("stepin run: stop without location".into());
                };
                if stop.thread_id != Some(thread) {
                    s.abandon();
                    return Err(format!("stepin run: stop on thread {:?}, wanted {thread}", stop.thread_id));
                }
                seq.push((loc, s.control.last_call_depth()));
                s.control.step_thread(thread);
            }
            Ok(Ev::Done) => break,
            Err(Hang) => {
                s.abandon();
                return Err("stepin run: hang".into());
            }
        }
        if seq.len() > 20_000 {
            s.abandon();
            return Err("stepin run: too long".into());
        }
    }
    let _ = s.join();
    Ok(seq)
}

fn plain_run(prog: &Program, cycles: u32) -> Result<(String, String, Runtime), String> {
    let mut rt = build(prog)?;
    let initial = state_text(rt.storage(), false);
    for _ in 0..cycles {
        rt.advance_time(RtDuration::from_millis(10));
        rt.execute_cycle().map_err(|e| format!("plain run: {e:?}"))?;
    }
    Ok((initial, state_text(rt.storage(), false), rt))
}

/// Undebugged reference for an explicit user write: the value is stored right before cycle
/// `at_cycle` starts (never, if the run ends first) — what `execute_cycle` does with a queued write.
fn plain_run_with_write(prog: &Program, cycles: u32, at_cycle: u32, name: &str, value: i64) -> Result<String, String> {
    let mut rt = build(prog)?;
    for c in 0..cycles {
        rt.advance_time(RtDuration::from_millis(10));
        if c == at_cycle {
            rt.storage_mut().set_global(name, trust_runtime::value::Value::LInt(value));
        }
        rt.execute_cycle().map_err(|e| format!("plain run with write: {e:?}"))?;
    }
    Ok(state_text(rt.storage(), false))
}

// ------------------------------------------------------------------------------------------------
// scripted run
// ------------------------------------------------------------------------------------------------

fn pick_thread(rng: &mut Rng, cur: Option<u32>, nthreads: u32) -> Option<u32> {
    match rng.below(8) {
        0..=3 => None,
        4 | 5 => cur,
        _ => Some(1 + rng.below(nthreads as u64 + 1) as u32),
    }
}

fn pick_rt_bp(rng: &mut Rng, locs: &[SourceLocation]) -> BpSpec {
    let loc = *rng.pick(locs);
    BpSpec {
        loc,
        hit: match rng.below(8) {
            0 => Some(HitCondition::Equal(1 + rng.below(3))),
            1 => Some(HitCondition::AtLeast(1 + rng.below(3))),
            2 => Some(HitCondition::GreaterThan(rng.below(3))),
            _ => None,
        },
        cond: match rng.below(10) {
            0 => Some(true),
            1 => Some(false),
            _ => None,
        },
        log: rng.chance(1, 10),
    }
}

struct Script<'a> {
    trace: &'a [TraceItem],
    /// next trace index a stop can be at
    cursor: usize,
    stops: usize,
    /// index of the previous stop (a pause that arrives before the resumed thread woke up makes
    /// it stop again at the same statement: then no statement ran in between)
    last: Option<usize>,
}

impl<'a> Script<'a> {
    /// Locates a stop in the trace by (location, thread, program-state fingerprint).
    fn locate(&mut self, stop: &DebugStop, fp: Option<u64>) -> Option<usize> {
        let loc = stop.location?;
        let fp = fp?;
        for i in self.cursor..self.trace.len() {
            let t = &self.trace[i];
            if t.loc == loc && t.thread == stop.thread_id && t.fp == fp {
                self.cursor = i;
                return Some(i);
            }
        }
        None
    }
}

fn stop_answer(stop: &DebugStop, depth: u32, idx: Option<usize>, nstops: usize, logs: usize) -> String {
    format!(
        "stop {} d={} @{} n={} lg={}",
        show_stop(stop),
        depth,
        idx.map(|i| i.to_string()).unwrap_or_else(|| "?".into()),
        nstops,
        logs
    )
}

fn mode_letter(c: &DebugControl) -> &'static str {
    match c.mode() {
        DebugMode::Running => "R",
        DebugMode::Paused => "P",
    }
}

/// One scripted run.  Returns false if the run had to be abandoned (hang).
#[allow(clippy::too_many_arguments)]
fn scripted_run(
    prog: &Program,
    trace: &[TraceItem],
    plain_final: &str,
    cycles: u32,
    rng: &mut Rng,
    watchdog: Duration,
    out: &mut Out,
) -> Result<bool, String> {
    let rt = build(prog)?;
    let locs: Vec<Vec<SourceLocation>> = (0..2)
        .map(|f| rt.statement_locations(f).map(|l| l.to_vec()).unwrap_or_default())
        .collect();
    let nthreads = prog.nthreads;
    // initial commands (before the cycle thread starts)
    let mut init: Vec<String> = Vec::new();
    let mut init_bps: Vec<(u32, Vec<BpSpec>)> = Vec::new();
    let style = rng.below(4);
    for f in 0..2u32 {
        if locs[f as usize].is_empty() {
            continue;
        }
        if rng.chance(2, 3) {
            let k = 1 + rng.below(3) as usize;
            let bps: Vec<BpSpec> = (0..k).map(|_| pick_rt_bp(rng, &locs[f as usize])).collect();
            let text: Vec<String> = bps.iter().map(|b| b.text()).collect();
            init.push(format!("bp {} {}", f, text.join(" ")));
            init_bps.push((f, bps));
        }
    }
    let first: Option<Cmd> = match rng.below(5) {
        0 => Some(Cmd::Entry),
        1 => Some(Cmd::Pause(None)),
        2 => Some(Cmd::Pause(Some(1 + rng.below(nthreads as u64) as u32))),
        3 if init_bps.is_empty() => Some(Cmd::Pause(None)),
        _ => None,
    };
    let mut first_out = "-";
    let mut s = Session::start(rt, cycles, watchdog, |c| {
        for (f, bps) in &init_bps {
            c.set_breakpoints_for_file(*f, bps.iter().map(|b| b.build()).collect());
        }
        if let Some(cmd) = &first {
            first_out = cmd.apply(c);
        }
    });
    for l in init {
        out.line(l);
    }
    if let Some(cmd) = &first {
        match cmd {
            Cmd::Entry => out.line("entry"),
            _ => {
                out.line(format!("act {}", cmd.text()));
                out.line(format!("impl out={first_out}"));
            }
        }
    }
    let mut sc = Script { trace, cursor: 0, stops: 0, last: None };
    let mut max_stops = 25 + rng.below(30) as usize;
    // an explicit user write (the property's exception): queued at one stop, after which the run is
    // let go; the final state must be the undebugged one with the value stored at the next cycle
    // boundary
    let write_at: Option<usize> = if rng.chance(1, 3) { Some(1 + rng.below(12) as usize) } else { None };
    let mut written: Option<(u32, &'static str, i64)> = None;
    let mut hung = false;
    // `pending` = what we are waiting for was already announced by an op line
    out.line("go");
    loop {
        match s.wait() {
            Err(Hang) => {
                out.line("impl hang");
                out.count("hang");
                                super::HANGS.fetch_add(1, std::sync::atomic::Ordering::SeqCst);
                hung = true;
                break;
            }
            Ok(Ev::Done) => {
                s.logs += s.control.drain_logs().len();
                out.line(format!(
                    "impl end @{} n={} mode={} lg={}",
                    trace.len(),
                    sc.stops,
                    mode_letter(&s.control),
                    s.logs
                ));
                break;
            }
            Ok(Ev::Stop(stop)) => {
                sc.stops += 1;
                s.logs += s.control.drain_logs().len();
                let depth = s.control.last_call_depth();
                let fp = s.stop_fingerprint();
                let idx = sc.locate(&stop, fp);
                sc.last = idx;
                out.line(format!("impl {}", stop_answer(&stop, depth, idx, sc.stops, s.logs)));
                out.count(&format!("rt_stop_{}", super::show_reason(stop.reason)));
                if idx.is_none() {
                    out.count("rt_stop_not_in_trace");
                }
                let cur = stop.thread_id;
                // commands at this stop
                if written.is_none() && write_at == Some(sc.stops) {
                    if let Some(snap) = s.control.snapshot() {
                        let cycle = (snap.now.as_nanos() / 10_000_000) as u32 - 1;
                        let name = if rng.bool() { "x" } else { "y" };
                        let value = 1000 + rng.below(100_000) as i64;
                        s.control
                            .enqueue_global_write(name, trust_runtime::value::Value::LInt(value));
                        written = Some((cycle + 1, name, value));
                        out.line(format!("# user write {name} := {value}, queued during cycle {cycle}"));
                        out.count("rt_user_write");
                        max_stops = sc.stops; // let the run go
                    }
                }
                if sc.stops >= max_stops {
                    s.control.clear_breakpoints();
                    out.line("clearbp");
                    let o = Cmd::Cont.apply(&s.control);
                    out.line("act cont -");
                    out.line(format!("impl out={o}"));
                    out.line("go");
                    continue;
                }
                // breakpoint edits
                if rng.chance(1, 4) {
                    if rng.chance(1, 5) {
                        s.control.clear_breakpoints();
                        out.line("clearbp");
                    } else {
                        let f = rng.below(2) as u32;
                        if !locs[f as usize].is_empty() {
                            let k = rng.below(4) as usize;
                            let bps: Vec<BpSpec> = (0..k).map(|_| pick_rt_bp(rng, &locs[f as usize])).collect();
                            s.control
                                .set_breakpoints_for_file(f, bps.iter().map(|b| b.build()).collect());
                            let text: Vec<String> = bps.iter().map(|b| b.text()).collect();
                            out.line(format!("bp {} {}", f, text.join(" ")).trim_end().to_string());
                        }
                    }
                }
                // a pause request while parked is ignored
                if rng.chance(1, 12) {
                    let c = Cmd::Pause(pick_thread(rng, cur, nthreads));
                    let o = c.apply(&s.control);
                    out.line(format!("act {}", c.text()));
                    out.line(format!("impl out={o}"));
                }
                let r = rng.below(100);
                let resume = match style {
                    0 => {
                        if r < 70 { Cmd::Cont } else if r < 85 { Cmd::In(pick_thread(rng, cur, nthreads)) } else { Cmd::Over(pick_thread(rng, cur, nthreads)) }
                    }
                    _ => {
                        if r < 25 { Cmd::Cont }
                        else if r < 50 { Cmd::In(pick_thread(rng, cur, nthreads)) }
                        else if r < 75 { Cmd::Over(pick_thread(rng, cur, nthreads)) }
                        else { Cmd::Out(pick_thread(rng, cur, nthreads)) }
                    }
                };
                let o = resume.apply(&s.control);
                out.line(format!("act {}", resume.text()));
                out.line(format!("impl out={o}"));
                if resume == Cmd::Cont && rng.chance(1, 2) {
                    // asynchronous pause from this (second) thread after a random delay
                    let spin = match rng.below(8) {
                        0 => 0,
                        1 => rng.below(500),
                        2 | 3 => rng.below(20_000),
                        _ => rng.below(400_000),
                    };
                    for _ in 0..spin {
                        std::hint::spin_loop();
                    }
                    let pc = Cmd::Pause(if rng.chance(2, 3) { None } else { Some(1 + rng.below(nthreads as u64) as u32) });
                    let po = pc.apply(&s.control);
                    out.count("rt_async_pause");
                    if po == "I" {
                        // the cycle thread had already parked (breakpoint) when the pause arrived
                        out.count("rt_async_pause_ignored");
                        out.line("go");
                        match s.wait() {
                            Err(Hang) => {
                                out.line("impl hang");
                                out.count("hang");
                                super::HANGS.fetch_add(1, std::sync::atomic::Ordering::SeqCst);
                                hung = true;
                                break;
                            }
                            Ok(Ev::Done) => {
                                // cannot happen: mode was Paused, so the thread is parked
                                out.line(format!("impl end @{} n={} mode={} lg={}", trace.len(), sc.stops, mode_letter(&s.control), s.logs));
                                break;
                            }
                            Ok(Ev::Stop(stop2)) => {
                                sc.stops += 1;
                                s.logs += s.control.drain_logs().len();
                                let depth = s.control.last_call_depth();
                                let fp = s.stop_fingerprint();
                                let idx = sc.locate(&stop2, fp);
                                sc.last = idx;
                                out.line(format!("impl {}", stop_answer(&stop2, depth, idx, sc.stops, s.logs)));
                                out.count(&format!("rt_stop_{}", super::show_reason(stop2.reason)));
                                out.line(format!("act {}", pc.text()));
                                out.line("impl out=I");
                                // resume and carry on
                                let o = Cmd::Cont.apply(&s.control);
                                out.line("act cont -");
                                out.line(format!("impl out={o}"));
                                out.line("go");
                                continue;
                            }
                        }
                    } else {
                        // applied while running: where it landed is known only after the fact
                        match s.wait() {
                            Err(Hang) => {
                                out.line("go");
                                out.line("impl hang");
                                out.count("hang");
                                super::HANGS.fetch_add(1, std::sync::atomic::Ordering::SeqCst);
                                hung = true;
                                break;
                            }
                            Ok(Ev::Done) => {
                                s.logs += s.control.drain_logs().len();
                                out.count("rt_async_pause_after_end");
                                out.line(format!("goto {}", trace.len()));
                                out.line(format!("impl at @{}", trace.len()));
                                out.line(format!("act {}", pc.text()));
                                out.line("impl out=A");
                                out.line("go");
                                out.line(format!("impl end @{} n={} mode={} lg={}", trace.len(), sc.stops, mode_letter(&s.control), s.logs));
                                break;
                            }
                            Ok(Ev::Stop(stop2)) => {
                                sc.stops += 1;
                                s.logs += s.control.drain_logs().len();
                                let depth = s.control.last_call_depth();
                                let fp = s.stop_fingerprint();
                                let idx = sc.locate(&stop2, fp);
                                out.count("rt_async_pause_landed");
                                let same = idx.is_some() && idx == sc.last;
                                sc.last = idx;
                                match idx {
                                    Some(_) if same => {
                                        // the pause arrived before the resumed thread woke up
                                        out.count("rt_async_pause_before_wakeup");
                                    }
                                    Some(i) => {
                                        out.line(format!("goto {i}"));
                                        out.line(format!("impl at @{i}"));
                                    }
                                    None => {
                                        out.line("goto 0");
                                        out.line("impl at @?");
                                    }
                                }
                                out.line(format!("act {}", pc.text()));
                                out.line("impl out=A");
                                out.line("go");
                                out.line(format!("impl {}", stop_answer(&stop2, depth, idx, sc.stops, s.logs)));
                                out.count(&format!("rt_stop_{}", super::show_reason(stop2.reason)));
                                let o = Cmd::Cont.apply(&s.control);
                                out.line("act cont -");
                                out.line(format!("impl out={o}"));
                                out.line("go");
                                continue;
                            }
                        }
                    }
                }
                out.line("go");
            }
        }
    }
    if hung {
        s.abandon();
        return Ok(false);
    }
    match s.join() {
        Some((rt, errors)) => {
            let fin = state_text(rt.storage(), false);
            let reference = match written {
                Some((at, name, value)) => plain_run_with_write(prog, cycles, at, name, value)?,
                None => plain_final.to_string(),
            };
            let plain_final = reference.as_str();
            out.line("final");
            if !errors.is_empty() {
                out.line(format!("impl cycle-errors {errors:?}"));
            } else if fin == plain_final {
                out.line("impl same");
            } else {
                out.line("impl differs");
                out.line(format!("# debugged   {fin}"));
                out.line(format!("# undebugged {plain_final}"));
            }
        }
        None => {
            out.line("final");
            out.line("impl cycle-thread-panicked");
        }
    }
    Ok(true)
}

pub fn probe(seed: u64) {
    let mut rng = Rng::for_case(seed, 0);
    let prog = gen_program(&mut rng);
    let t0 = Instant::now();
    for _ in 0..10 {
        let _ = build(&prog);
    }
    println!("build: {:?} per build", t0.elapsed() / 10);
    let t0 = Instant::now();
    let _ = trace_run(&prog, 3, Duration::from_secs(5));
    println!("trace run: {:?}", t0.elapsed());
    let t0 = Instant::now();
    let _ = stepin_run(&prog, 3, 1, Duration::from_secs(5));
    println!("stepin run: {:?}", t0.elapsed());
    println!("--- main.st\n{}\n--- lib.st\n{}", prog.files[0], prog.files[1]);
    match trace_run(&prog, 3, Duration::from_secs(5)) {
        Ok((trace, fin, _)) => {
            for (i, t) in trace.iter().enumerate() {
                let text = &prog.files[t.loc.file_id as usize][t.loc.start as usize..t.loc.end as usize];
                println!("{i:4} thr={} d={} {} {:?}", opt(t.thread), t.depth, show_loc(Some(t.loc)), text.lines().next().unwrap_or(""));
            }
            println!("final {fin}");
        }
        Err(e) => println!("ERROR {e}"),
    }
}

pub fn run_rt_case(n: u64, rng: &mut Rng, watchdog: Duration, all_threads: bool, runs: usize, out: &mut Out) -> Result<(), String> {
    let prog = gen_program(rng);
    let cycles = 2 + rng.below(3) as u32;
    let (initial, plain, rt) = plain_run(&prog, cycles).map_err(|e| format!("{e}\n{}\n{}", prog.files[0], prog.files[1]))?;
    out.line(format!("case {n}"));
    out.line("kind rt");
    let (trace, trace_final, first_state) = match trace_run(&prog, cycles, watchdog) {
        Ok(r) => r,
        Err(e) => {
            // the debugger misbehaved while the trace was taken (unexpected stop, hang, fault)
            if e.contains("hang") {
                super::HANGS.fetch_add(1, std::sync::atomic::Ordering::SeqCst);
                out.count("hang");
            }
            out.line("trace-check");
            out.line(format!("impl {e}"));
            out.line("end");
            return Ok(());
        }
    };
    // --- validation of the trace against facts that do not come from DebugControl ----------------
    out.line("# trace acquisition (breakpoint on every statement) vs static facts and per-thread StepIn runs");
    let mut problems: Vec<String> = Vec::new();
    if !trace.is_empty() && first_state.as_deref() != Some(initial.as_str()) {
        // the hook runs *before* the statement: at the first stop nothing has been executed yet
        problems.push("program state at the first stop differs from the initial state".into());
    }
    if trace_final != plain {
        problems.push("final state of the all-breakpoints run differs from the undebugged run".into());
    }
    for (i, t) in trace.iter().enumerate() {
        let registered = rt
            .statement_locations(t.loc.file_id)
            .map(|l| l.contains(&t.loc))
            .unwrap_or(false);
        if !registered {
            problems.push(format!("trace[{i}] location {} is not a registered statement", show_loc(Some(t.loc))));
        }
        let level = prog
            .pous
            .iter()
            .find(|p| p.file == t.loc.file_id && p.start <= t.loc.start as usize && (t.loc.start as usize) < p.end)
            .map(|p| p.level);
        if level != Some(t.depth) {
            problems.push(format!("trace[{i}] depth {} but static call level {:?}", t.depth, level));
        }
    }
    let mut threads: Vec<u32> = trace.iter().filter_map(|t| t.thread).collect();
    threads.sort();
    threads.dedup();
    let checked: Vec<u32> = if threads.is_empty() || all_threads {
        threads.clone()
    } else {
        vec![threads[rng.below(threads.len() as u64) as usize]]
    };
    for th in &checked {
        let seq = match stepin_run(&prog, cycles, *th, watchdog) {
            Ok(seq) => seq,
            Err(e) => {
                if e.contains("hang") {
                    super::HANGS.fetch_add(1, std::sync::atomic::Ordering::SeqCst);
                    out.count("hang");
                }
                problems.push(e);
                continue;
            }
        };
        let want: Vec<(SourceLocation, u32)> = trace
            .iter()
            .filter(|t| t.thread == Some(*th))
            .map(|t| (t.loc, t.depth))
            .collect();
        if seq != want {
            let at = seq.iter().zip(want.iter()).position(|(a, b)| a != b).unwrap_or(seq.len().min(want.len()));
            problems.push(format!(
                "StepIn-only run of thread {th} ({} stops) differs from the thread's statements in the trace ({}) at position {at}",
                seq.len(),
                want.len()
            ));
        }
    }
    out.line("trace-check");
    if problems.is_empty() {
        out.line("impl ok");
    } else {
        out.line(format!("impl {}", problems.join(" ; ")));
        out.count("rt_trace_check_failed");
    }
    out.add("rt_trace_items", trace.len() as u64);
    out.add("rt_threads", threads.len() as u64);
    let maxd = trace.iter().map(|t| t.depth).max().unwrap_or(0);
    out.count(&format!("rt_max_depth_{maxd}"));
    // --- the trace as model input -------------------------------------------------------------------
    let mut cur: Option<Option<u32>> = None;
    let mut trace_lines = String::new();
    for t in &trace {
        if cur != Some(t.thread) {
            trace_lines.push_str(&format!("t {}\n", opt(t.thread)));
            cur = Some(t.thread);
        }
        trace_lines.push_str(&format!("s {} {} {} {}\n", t.loc.file_id, t.loc.start, t.loc.end, t.depth));
    }
    // --- scripted runs -----------------------------------------------------------------------------
    let mut nontrivial = false;
    for r in 0..runs {
        out.line(format!("script {r}"));
        out.buf.push_str(&trace_lines);
        let before = *out.stats.get("rt_stop_S").unwrap_or(&0) + *out.stats.get("rt_stop_B").unwrap_or(&0);
        let ok = scripted_run(&prog, &trace, &plain, cycles, rng, watchdog, out)?;
        let after = *out.stats.get("rt_stop_S").unwrap_or(&0) + *out.stats.get("rt_stop_B").unwrap_or(&0);
        if after - before >= 3 {
            nontrivial = true;
        }
        if !ok {
            break;
        }
    }
    if nontrivial && maxd >= 1 && threads.len() >= 2 {
        out.line("tag nontrivial");
    }
    out.line("end");
    Ok(())
}
