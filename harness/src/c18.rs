//! C18 — the control endpoint executes a request only with a sufficient role.
//!
//! Every case builds a fresh `ControlState` ("world"), starts the REAL server with
//! `ControlServer::start` on a unix socket and talks to it over that socket, one request line at a
//! time.  Before and after every line the world is fingerprinted through public APIs ("probes":
//! debugger control, resource control, commands sent to the resource thread, pending restart, auth
//! token, control mode, debug switch, settings, files under the project root, HMI descriptor, alarm
//! acknowledgements, pairing list), so the `impl` line carries the reply class AND the set of probes
//! that changed.  The Lean model predicts both.
//!
//! The request names come from `work/C18.tables.json`, which the translator regenerates from the
//! dispatcher on every run, so a handler added to the code is exercised (and, being unclassified in the
//! model, fails the build) without touching this file.

use crate::rng::Rng;
use crate::util::{hex, Out};
use crate::Args;
use serde_json::{json, Map, Value as J};
use std::collections::BTreeMap;
use std::io::{BufRead, BufReader, Write};
use std::os::unix::net::UnixStream;
use std::path::{Path, PathBuf};
use std::sync::atomic::{AtomicBool, AtomicU64, Ordering};
use std::sync::{Arc, Mutex};
use std::time::Duration;
use trust_runtime::config::ControlMode;
use trust_runtime::control::{
    ControlEndpoint, ControlServer, ControlState, HmiRuntimeDescriptor, SourceFile, SourceRegistry,
};
use trust_runtime::debug::{DebugBreakpoint, DebugControl, DebugSnapshot, SourceLocation};
use trust_runtime::harness::TestHarness;
use trust_runtime::io::IoAddress;
use trust_runtime::scheduler::{ResourceCommand, ResourceControl, StdClock};
use trust_runtime::settings::{
    BaseSettings, DiscoverySettings, MeshSettings, RuntimeSettings, SimulationSettings, WebSettings,
};
use trust_runtime::value::Value;
use trust_runtime::watchdog::{FaultPolicy, RetainMode, WatchdogPolicy};
use trust_runtime::web::pairing::PairingStore;
use trust_runtime::RuntimeMetadata;

// ---------------------------------------------------------------------------------------------
// tables (from the translator)
// ---------------------------------------------------------------------------------------------

#[derive(Clone, Debug)]
pub struct HandlerInfo {
    pub name: String,
    pub module: String,
    pub fn_name: String,
    pub takes_params: bool,
}

pub struct Tables {
    pub handlers: Vec<HandlerInfo>,
    pub handled_keys: Vec<String>,
    pub listed_keys: Vec<String>,
    /// request name -> members of its parameter struct (name, Rust type); "*" -> every member name any
    /// handler or helper reads
    pub params: std::collections::HashMap<String, Vec<(String, String)>>,
}

fn load_tables(path: &str) -> Tables {
    let text = std::fs::read_to_string(path)
        .unwrap_or_else(|e| panic!("cannot read the translator's tables {path}: {e}"));
    let v: J = serde_json::from_str(&text).expect("tables json");
    let mut handlers = Vec::new();
    for m in v["modules"].as_array().expect("modules") {
        let module = m["module"].as_str().expect("module").to_string();
        for h in m["handlers"].as_array().expect("handlers") {
            handlers.push(HandlerInfo {
                name: h["name"].as_str().expect("name").to_string(),
                module: module.clone(),
                fn_name: h["fn"].as_str().expect("fn").to_string(),
                takes_params: h["takes_params"].as_bool().expect("takes_params"),
            });
        }
    }
    let strs = |x: &J| -> Vec<String> {
        x.as_array()
            .expect("array")
            .iter()
            .map(|s| s.as_str().expect("str").to_string())
            .collect()
    };
    let mut params = std::collections::HashMap::new();
    if let Some(obj) = v["params"].as_object() {
        for (name, fields) in obj {
            let fs: Vec<(String, String)> = fields
                .as_array()
                .map(|a| {
                    a.iter()
                        .filter_map(|f| Some((f[0].as_str()?.to_string(), f[1].as_str()?.to_string())))
                        .collect()
                })
                .unwrap_or_default();
            params.insert(name.clone(), fs);
        }
    }
    Tables {
        handlers,
        params,
        handled_keys: strs(&v["config_set"]["handled_keys"]),
        listed_keys: strs(&v["config_set"]["listed_keys"]),
    }
}

// ---------------------------------------------------------------------------------------------
// the world
// ---------------------------------------------------------------------------------------------

const SOURCE: &str = "PROGRAM Main\nVAR\n    run : BOOL := TRUE;\n    // @hmi(min=0, max=100)\n    speed : REAL := 120.0;\n    counter : DINT := 0;\nEND_VAR\ncounter := counter + 1;\nIF run THEN\n    counter := counter + 2;\nEND_IF;\nEND_PROGRAM\n";
const HMI_TOML: &str = "[write]\nenabled = true\nallow = [\"resource/RESOURCE/program/Main/field/run\"]\n";
const WRITE_TARGET: &str = "resource/RESOURCE/program/Main/field/run";
pub const NOW0: u64 = 1_000_000;
const ADMIN_TOKEN: &str = "s3cret-Adm1n-T0ken";

/// Compiled once per process.
pub struct Base {
    metadata: RuntimeMetadata,
    snapshot: DebugSnapshot,
    harness: TestHarness,
}

impl Base {
    fn new() -> Base {
        let mut harness = TestHarness::from_source(SOURCE).expect("compile the world's program");
        let _ = harness.cycle();
        let snapshot = DebugSnapshot {
            storage: harness.runtime().storage().clone(),
            now: harness.runtime().current_time(),
        };
        Base {
            metadata: harness.runtime().metadata_snapshot(),
            snapshot,
            harness,
        }
    }
}

#[derive(Clone, Debug)]
pub struct PTok {
    pub id: String,
    pub token: String,
    pub role: &'static str,
    pub enabled: bool,
    pub expires_at: u64,
}

#[derive(Clone, Debug)]
pub struct WorldCfg {
    pub token: Option<String>,
    pub requires_auth: bool,
    pub debug_enabled: bool,
    pub debug_mode: bool,
    pub pairing: bool,
    pub tokens: Vec<PTok>,
    /// serve over a loopback TCP socket (`handle_client`) instead of a unix socket (`handle_unix_client`)
    pub tcp: bool,
}

pub struct World {
    pub state: Arc<ControlState>,
    pub dir: PathBuf,
    pub sock: PathBuf,
    pub tcp_addr: Option<std::net::SocketAddr>,
    pub clock: Arc<AtomicU64>,
    pub commands: Arc<Mutex<Vec<String>>>,
    pub store: Option<Arc<PairingStore>>,
    pub pending_code: Option<(String, u64)>,
    pub alarm_id: Option<String>,
    /// token strings that have been handed out as pairing tokens and may (still) be live: the harness's own
    /// book-keeping for the oracle, independent of the code under test
    pub issued: Mutex<Vec<String>>,
    /// token strings that are certainly not valid in any correct implementation (expired before the case
    /// began, disabled in the file, revoked through the store's API by the harness)
    pub dead: Mutex<Vec<String>>,
    /// (id, token) of the tokens minted by pair.claim in this world (the id is `pair-<clock second>`)
    pub minted: Mutex<Vec<(String, String)>>,
    keep_dir: bool,
    listener_fds: Vec<i32>,
    stop_responder: Arc<AtomicBool>,
}

/// What a restart keeps: the directory (pairing file, project files) and the clock.
pub struct Reuse {
    dir: PathBuf,
    clock: Arc<AtomicU64>,
    issued: Vec<String>,
    dead: Vec<String>,
}

fn runtime_settings() -> RuntimeSettings {
    RuntimeSettings::new(
        BaseSettings {
            log_level: "info".into(),
            watchdog: WatchdogPolicy::default(),
            fault_policy: FaultPolicy::SafeHalt,
            retain_mode: RetainMode::None,
            retain_save_interval: None,
        },
        WebSettings {
            enabled: false,
            listen: "127.0.0.1:0".into(),
            // never produced by config.set (which lower-cases), so that every accepted web.auth is a change
            auth: "Local".into(),
            tls: false,
        },
        DiscoverySettings {
            enabled: false,
            service_name: "truST".into(),
            advertise: false,
            // non-empty, so that an accepted empty list is a change
            interfaces: vec!["init0".into()],
        },
        MeshSettings {
            enabled: false,
            listen: "127.0.0.1:0".into(),
            tls: false,
            // config.set palette never sets this value, so that every accepted mesh.auth_token is a change
            auth_token: Some("initial-mesh-token".into()),
            publish: vec!["init.topic".into()],
            subscribe: [(smol_str::SmolStr::new("init.topic"), smol_str::SmolStr::new("init_alias"))].into_iter().collect(),
        },
        SimulationSettings {
            enabled: false,
            time_scale: 1,
            mode_label: "production".into(),
            warning: "".into(),
        },
    )
}

/// The fd of this process's socket bound to `path` (via /proc/net/unix: inode of the bound path).
fn listener_fd_for(path: &Path) -> Vec<i32> {
    let want = path.to_string_lossy().to_string();
    let mut inodes = Vec::new();
    if let Ok(text) = std::fs::read_to_string("/proc/net/unix") {
        for line in text.lines() {
            let cols: Vec<&str> = line.split_whitespace().collect();
            if cols.len() >= 8 && cols[7] == want {
                inodes.push(format!("socket:[{}]", cols[6]));
            }
        }
    }
    let mut v = Vec::new();
    if let Ok(rd) = std::fs::read_dir("/proc/self/fd") {
        for e in rd.flatten() {
            if let Ok(n) = e.file_name().to_string_lossy().parse::<i32>() {
                if let Ok(target) = std::fs::read_link(e.path()) {
                    if inodes.iter().any(|i| target.to_string_lossy() == *i) {
                        v.push(n);
                    }
                }
            }
        }
    }
    v
}

/// The fd of this process's TCP socket listening on loopback `port` (via /proc/net/tcp).
fn tcp_listener_fd_for(port: u16) -> Vec<i32> {
    let want = format!("0100007F:{port:04X}");
    let mut inodes = Vec::new();
    if let Ok(text) = std::fs::read_to_string("/proc/net/tcp") {
        for line in text.lines().skip(1) {
            let cols: Vec<&str> = line.split_whitespace().collect();
            if cols.len() >= 10 && cols[1] == want && cols[3] == "0A" {
                inodes.push(format!("socket:[{}]", cols[9]));
            }
        }
    }
    let mut v = Vec::new();
    if let Ok(rd) = std::fs::read_dir("/proc/self/fd") {
        for e in rd.flatten() {
            if let Ok(n) = e.file_name().to_string_lossy().parse::<i32>() {
                if let Ok(target) = std::fs::read_link(e.path()) {
                    if inodes.iter().any(|i| target.to_string_lossy() == *i) {
                        v.push(n);
                    }
                }
            }
        }
    }
    v
}

fn open_fds() -> Vec<i32> {
    std::fs::read_dir("/proc/self/fd")
        .map(|rd| rd.flatten().filter_map(|e| e.file_name().to_string_lossy().parse::<i32>().ok()).collect())
        .unwrap_or_default()
}

static WORLD_SEQ: AtomicU64 = AtomicU64::new(0);
pub static T_WORLD_US: AtomicU64 = AtomicU64::new(0);
pub static T_PROBE_US: AtomicU64 = AtomicU64::new(0);
pub static T_SEND_US: AtomicU64 = AtomicU64::new(0);

impl World {
    pub fn new(base: &mut Base, cfg: &WorldCfg) -> World {
        let t0 = std::time::Instant::now();
        let w = Self::new_inner(base, cfg, None);
        T_WORLD_US.fetch_add(t0.elapsed().as_micros() as u64, Ordering::Relaxed);
        w
    }

    /// The runtime restarts: a new `ControlState` and server over the same directory (the pairing store is
    /// re-opened from its file with `PairingStore::with_clock`), the same clock and the gate settings as
    /// they are now (as if they came from the runtime's configuration).
    pub fn reopen(mut self, base: &mut Base) -> World {
        let cfg = WorldCfg {
            token: self.state.auth_token.lock().unwrap().as_ref().map(|t| t.to_string()),
            requires_auth: self.state.control_requires_auth,
            debug_enabled: self.state.debug_enabled.load(Ordering::SeqCst),
            debug_mode: matches!(*self.state.control_mode.lock().unwrap(), ControlMode::Debug),
            pairing: self.store.is_some(),
            tokens: Vec::new(),
            tcp: self.tcp_addr.is_some(),
        };
        let reuse = Reuse {
            dir: self.dir.clone(),
            clock: self.clock.clone(),
            issued: self.issued.lock().unwrap().clone(),
            dead: self.dead.lock().unwrap().clone(),
        };
        self.keep_dir = true;
        drop(self);
        Self::new_inner(base, &cfg, Some(reuse))
    }

    fn new_inner(base: &mut Base, cfg: &WorldCfg, reuse: Option<Reuse>) -> World {
        let seq = WORLD_SEQ.fetch_add(1, Ordering::SeqCst);
        let tmp = if Path::new("/dev/shm").is_dir() { PathBuf::from("/dev/shm") } else { std::env::temp_dir() };
        let dir = match &reuse {
            Some(r) => r.dir.clone(),
            None => {
                let dir = tmp.join(format!("vh-c18-{}-{}", std::process::id(), seq));
                let _ = std::fs::remove_dir_all(&dir);
                dir
            }
        };
        let root = dir.join("project");
        std::fs::create_dir_all(&root).expect("mkdir world");
        if reuse.is_none() {
            std::fs::write(root.join("hmi.toml"), HMI_TOML).expect("hmi.toml");
        }
        // debugger control with a snapshot of the compiled program's storage
        let debug = DebugControl::new();
        {
            let d = debug.clone();
            let _ = base.harness.runtime_mut().with_eval_context(None, None, |ctx| {
                d.refresh_snapshot(ctx);
                Ok(())
            });
        }
        debug.set_breakpoints_for_file(
            1,
            vec![DebugBreakpoint::new(SourceLocation {
                file_id: 1,
                start: 0,
                end: 1,
            })],
        );
        debug.force_global("g_forced", Value::Bool(true));
        debug.force_io(IoAddress::parse("%IX7.7").expect("addr"), Value::Bool(true));
        // resource stub + responder thread (logs every command; answers the ones that want an answer)
        let (resource, cmd_rx) = ResourceControl::stub(StdClock::new());
        let commands: Arc<Mutex<Vec<String>>> = Arc::new(Mutex::new(Vec::new()));
        let stop_responder = Arc::new(AtomicBool::new(false));
        {
            let log = commands.clone();
            let snapshot = base.snapshot.clone();
            let metadata = base.metadata.clone();
            std::thread::spawn(move || {
                while let Ok(command) = cmd_rx.recv() {
                    match command {
                        ResourceCommand::Snapshot { respond_to } => {
                            let _ = respond_to.send(snapshot.clone());
                        }
                        ResourceCommand::MeshSnapshot { respond_to, .. } => {
                            // used by the harness as a fence: everything sent before has been logged
                            let _ = respond_to.send(indexmap::IndexMap::new());
                        }
                        ResourceCommand::ReloadBytecode { bytes, respond_to } => {
                            log.lock().unwrap().push(format!("ReloadBytecode({})", bytes.len()));
                            let _ = respond_to.send(Ok(metadata.clone()));
                        }
                        other => {
                            let text = format!("{other:?}");
                            log.lock().unwrap().push(text);
                        }
                    }
                }
            });
        }
        let sources = SourceRegistry::new(vec![SourceFile {
            id: 1,
            path: PathBuf::from("main.st"),
            text: SOURCE.to_string(),
        }]);
        let hmi_descriptor = Arc::new(Mutex::new(HmiRuntimeDescriptor::from_sources(
            Some(&root),
            &sources,
        )));
        // pairing store with a controllable clock and a prepared token file
        let clock = match &reuse {
            Some(r) => r.clock.clone(),
            None => Arc::new(AtomicU64::new(NOW0)),
        };
        let (store, pending_code) = if cfg.pairing && reuse.is_some() {
            // restart: whatever the store last wrote to its file is what it knows now
            let c = clock.clone();
            let store = Arc::new(PairingStore::with_clock(
                dir.join("pairing.json"),
                Arc::new(move || c.load(Ordering::SeqCst)),
            ));
            (Some(store), None)
        } else if cfg.pairing {
            let path = dir.join("pairing.json");
            let toks: Vec<J> = cfg
                .tokens
                .iter()
                .map(|t| {
                    json!({"id": t.id, "token": t.token, "created_at": NOW0 - 100, "enabled": t.enabled,
                           "role": t.role, "expires_at": t.expires_at})
                })
                .collect();
            std::fs::write(&path, serde_json::to_vec(&json!({ "tokens": toks })).unwrap()).expect("pairing file");
            let c = clock.clone();
            let store = Arc::new(PairingStore::with_clock(
                path,
                Arc::new(move || c.load(Ordering::SeqCst)),
            ));
            let code = store.start_pairing();
            (Some(store), Some((code.code, code.expires_at)))
        } else {
            (None, None)
        };
        let state = ControlState {
            debug,
            resource,
            metadata: Arc::new(Mutex::new(base.metadata.clone())),
            sources,
            io_snapshot: Arc::new(Mutex::new(Some(Default::default()))),
            pending_restart: Arc::new(Mutex::new(None)),
            auth_token: Arc::new(Mutex::new(cfg.token.as_deref().map(Into::into))),
            control_requires_auth: cfg.requires_auth,
            control_mode: Arc::new(Mutex::new(if cfg.debug_mode {
                ControlMode::Debug
            } else {
                ControlMode::Production
            })),
            audit_tx: None,
            metrics: Arc::new(Mutex::new(Default::default())),
            events: Arc::new(Mutex::new(Default::default())),
            settings: Arc::new(Mutex::new(runtime_settings())),
            project_root: Some(root.clone()),
            resource_name: "RESOURCE".into(),
            io_health: Arc::new(Mutex::new(Vec::new())),
            debug_enabled: Arc::new(AtomicBool::new(cfg.debug_enabled)),
            debug_variables: Arc::new(Mutex::new(Default::default())),
            hmi_live: Arc::new(Mutex::new(Default::default())),
            hmi_descriptor,
            historian: None,
            pairing: store.clone(),
        };
        // raise the alarm of `speed` (120 > max 100) exactly as hmi.alarms.get would
        let alarm_id = {
            let descriptor = state.hmi_descriptor.lock().unwrap().clone();
            let metadata = state.metadata.lock().unwrap();
            let schema = trust_runtime::hmi::build_schema(
                "RESOURCE",
                &metadata,
                Some(&base.snapshot),
                true,
                Some(&descriptor.customization),
            );
            let values = trust_runtime::hmi::build_values("RESOURCE", &metadata, Some(&base.snapshot), true, None);
            let mut live = state.hmi_live.lock().unwrap();
            trust_runtime::hmi::update_live_state(&mut live, &schema, &values);
            let view = serde_json::to_value(trust_runtime::hmi::build_alarm_view(&live, 10)).unwrap();
            view["active"]
                .as_array()
                .and_then(|a| a.first())
                .and_then(|a| a["id"].as_str())
                .map(str::to_string)
        };
        let state = Arc::new(state);
        let sock = dir.join(format!("c{seq}.sock"));
        let (issued, dead) = match reuse {
            Some(r) => (r.issued, r.dead),
            None if cfg.pairing => (
                cfg.tokens.iter().filter(|t| t.enabled && t.expires_at >= NOW0).map(|t| t.token.clone()).collect(),
                cfg.tokens.iter().filter(|t| !(t.enabled && t.expires_at >= NOW0)).map(|t| t.token.clone()).collect(),
            ),
            None => (Vec::new(), Vec::new()),
        };
        let mut tcp_addr = None;
        if cfg.tcp {
            // a free loopback port (probe, release, bind again; retried if somebody else grabbed it)
            for _ in 0..20 {
                let port = std::net::TcpListener::bind("127.0.0.1:0")
                    .and_then(|l| l.local_addr())
                    .map(|a| a.port())
                    .unwrap_or(0);
                let addr: std::net::SocketAddr = format!("127.0.0.1:{port}").parse().unwrap();
                if port != 0 && ControlServer::start(ControlEndpoint::Tcp(addr), state.clone()).is_ok() {
                    tcp_addr = Some(addr);
                    break;
                }
            }
        }
        let listener_fds: Vec<i32> = match tcp_addr {
            Some(addr) => tcp_listener_fd_for(addr.port()),
            None => {
                ControlServer::start(ControlEndpoint::Unix(sock.clone()), state.clone()).expect("start control server");
                listener_fd_for(&sock)
            }
        };
        World {
            state,
            dir,
            sock,
            tcp_addr,
            clock,
            commands,
            store,
            pending_code,
            alarm_id,
            issued: Mutex::new(issued),
            dead: Mutex::new(dead),
            minted: Mutex::new(Vec::new()),
            keep_dir: false,
            listener_fds,
            stop_responder,
        }
    }

    /// Is the credential of this line valid?  Judged by exact equality with the configured token and by
    /// the harness's own list of pairing tokens, never by asking the code under test:
    /// `open` no token configured, `token` exactly the configured token, `maybe` a pairing token that was
    /// handed out and may be live, `no` certainly not valid, `-` not a request / decoded lossily.
    pub fn judge(&self, bytes: &[u8]) -> &'static str {
        let bytes = bytes.strip_suffix(b"\r").unwrap_or(bytes);
        let Ok(text) = std::str::from_utf8(bytes) else {
            return "-";
        };
        let Ok(req) = serde_json::from_str::<J>(text).and_then(serde_json::from_value::<MirrorRequest>) else {
            return "-";
        };
        let configured = self.state.auth_token.lock().unwrap_or_else(|e| e.into_inner()).as_ref().map(|t| t.to_string());
        match (configured, req.auth) {
            (None, _) => "open",
            (Some(_), None) => "no",
            (Some(t), Some(a)) if a == t => "token",
            (Some(_), Some(a)) => {
                if self.store.is_some() && self.issued.lock().unwrap().contains(&a) && !self.dead.lock().unwrap().contains(&a) {
                    "maybe"
                } else {
                    "no"
                }
            }
        }
    }

    /// All commands sent so far have been logged by the responder once this returns.
    fn fence(&self) {
        let (tx, rx) = std::sync::mpsc::channel();
        if self
            .state
            .resource
            .send_command(ResourceCommand::MeshSnapshot {
                names: Vec::new(),
                respond_to: tx,
            })
            .is_ok()
        {
            let _ = rx.recv_timeout(Duration::from_secs(120));
        }
    }

    pub fn probes(&self) -> BTreeMap<&'static str, String> {
        let t0 = std::time::Instant::now();
        let p = self.probes_inner();
        T_PROBE_US.fetch_add(t0.elapsed().as_micros() as u64, Ordering::Relaxed);
        p
    }

    fn probes_inner(&self) -> BTreeMap<&'static str, String> {
        self.fence();
        let s = &self.state;
        let mut p = BTreeMap::new();
        p.insert("debug", format!("{:?}", s.debug));
        p.insert("resource", format!("{:?}", s.resource));
        p.insert("commands", self.commands.lock().unwrap().join(";"));
        p.insert("restart", format!("{:?}", s.pending_restart));
        p.insert("token", format!("{:?}", s.auth_token));
        p.insert("mode", format!("{:?}", s.control_mode));
        p.insert("dbgen", format!("{:?}", s.debug_enabled));
        p.insert("settings", format!("{:?}", s.settings));
        p.insert("files", dir_fingerprint(s.project_root.as_deref().unwrap()));
        p.insert(
            "hmidesc",
            match s.hmi_descriptor.lock() {
                Ok(d) => format!("{} {:?} {:?}", d.schema_revision, d.last_error, d.customization),
                Err(_) => "poisoned".into(),
            },
        );
        p.insert(
            "alarms",
            match s.hmi_live.lock() {
                Ok(live) => {
                    let view = serde_json::to_value(trust_runtime::hmi::build_alarm_view(&live, 100)).unwrap();
                    let mut out = String::new();
                    for a in view["active"].as_array().cloned().unwrap_or_default() {
                        out.push_str(&format!("{}:{}:{};", a["id"], a["state"], a["acknowledged"]));
                    }
                    out
                }
                Err(_) => "poisoned".into(),
            },
        );
        p.insert(
            "pairing",
            match &self.store {
                Some(store) => serde_json::to_string(&store.list()).unwrap(),
                None => "-".into(),
            },
        );
        // read-only for the control endpoint: any change is reported under its own name
        p.insert("ro-events", format!("{:?}", s.events));
        p.insert("ro-iosnap", format!("{:?}", s.io_snapshot));
        p.insert("ro-iohealth", format!("{:?}", s.io_health));
        p.insert("ro-sources", format!("{}", s.sources.files().len()));
        // session caches (allowed to change on reads; counted, not compared)
        p.insert("cache-varhandles", format!("{:?}", s.debug_variables));
        p.insert("cache-hmilive", format!("{:?}", s.hmi_live));
        p
    }

    pub fn connect(&self) -> Client {
        // generous: a time-out must never be mistaken for a hang on a loaded machine
        self.connect_with_timeout(Duration::from_secs(60))
    }

    pub fn connect_with_timeout(&self, timeout: Duration) -> Client {
        match self.tcp_addr {
            Some(addr) => {
                let stream = std::net::TcpStream::connect(addr).expect("connect to the control port");
                stream.set_read_timeout(Some(timeout)).unwrap();
                let _ = stream.set_nodelay(true);
                Client {
                    reader: BufReader::new(Box::new(stream.try_clone().unwrap())),
                    writer: Box::new(stream),
                }
            }
            None => {
                let stream = UnixStream::connect(&self.sock).expect("connect to the control socket");
                stream.set_read_timeout(Some(timeout)).unwrap();
                Client {
                    reader: BufReader::new(Box::new(stream.try_clone().unwrap())),
                    writer: Box::new(stream),
                }
            }
        }
    }
}

impl Drop for World {
    fn drop(&mut self) {
        self.stop_responder.store(true, Ordering::SeqCst);
        // make the accept loop return an error so that the server thread ends and releases the state
        for fd in &self.listener_fds {
            unsafe {
                libc::shutdown(*fd, libc::SHUT_RDWR);
            }
        }
        if !self.keep_dir {
            let _ = std::fs::remove_dir_all(&self.dir);
        }
    }
}

fn dir_fingerprint(root: &Path) -> String {
    fn walk(p: &Path, rel: &str, out: &mut Vec<String>) {
        let mut entries: Vec<_> = match std::fs::read_dir(p) {
            Ok(rd) => rd.flatten().collect(),
            Err(_) => return,
        };
        entries.sort_by_key(|e| e.file_name());
        for e in entries {
            let name = format!("{rel}/{}", e.file_name().to_string_lossy());
            let path = e.path();
            if path.is_dir() {
                out.push(format!("{name}/"));
                walk(&path, &name, out);
            } else {
                let data = std::fs::read(&path).unwrap_or_default();
                out.push(format!("{name}:{}:{:016x}", data.len(), fnv(&data)));
            }
        }
    }
    let mut out = Vec::new();
    walk(root, "", &mut out);
    out.join("|")
}

fn fnv(data: &[u8]) -> u64 {
    let mut h: u64 = 0xcbf29ce484222325;
    for b in data {
        h ^= *b as u64;
        h = h.wrapping_mul(0x100000001b3);
    }
    h
}

pub struct Client {
    reader: BufReader<Box<dyn std::io::Read + Send>>,
    writer: Box<dyn Write + Send>,
}

pub enum Reply {
    Line(String),
    Closed,
    Hang,
}

impl Client {
    pub fn send(&mut self, line: &[u8]) -> Reply {
        let mut buf = line.to_vec();
        buf.push(b'\n');
        if self.writer.write_all(&buf).is_err() {
            return Reply::Closed;
        }
        let mut out = String::new();
        match self.reader.read_line(&mut out) {
            Ok(0) => Reply::Closed,
            Ok(_) => Reply::Line(out.trim_end_matches('\n').to_string()),
            Err(e) if matches!(e.kind(), std::io::ErrorKind::WouldBlock | std::io::ErrorKind::TimedOut) => Reply::Hang,
            Err(_) => Reply::Closed,
        }
    }
}

// ---------------------------------------------------------------------------------------------
// abstraction of a line (what the model is told about it)
// ---------------------------------------------------------------------------------------------

#[derive(serde::Deserialize)]
#[allow(dead_code)]
struct MirrorRequest {
    id: u64,
    #[serde(rename = "type")]
    r#type: String,
    params: Option<J>,
    auth: Option<String>,
}

fn hexs(s: &str) -> String {
    hex(s.as_bytes())
}

/// `good`: for config.set entries whose value the model does not interpret, whether the palette
/// entry is a well-formed value for that key (generator knowledge, not the implementation's answer).
fn abstract_line(bytes: &[u8], eff: u8, nonce: &str, bad_keys: &[String], cred: &str) -> String {
    let raw = hex(bytes);
    // transport.rs read_request_line: drop one trailing "\r" (the "\n" is the harness's own terminator),
    // then String::from_utf8_lossy: invalid bytes reach the parser as U+FFFD
    let bytes = bytes.strip_suffix(b"\r").unwrap_or(bytes);
    let decoded = String::from_utf8_lossy(bytes);
    let lossy = if matches!(decoded, std::borrow::Cow::Owned(_)) { " lossy=1" } else { "" };
    let text: &str = &decoded;
    let value: J = match serde_json::from_str(text) {
        Ok(v) => v,
        Err(_) => return format!("line notjson{lossy} raw={raw}"),
    };
    let req: MirrorRequest = match serde_json::from_value(value) {
        Ok(r) => r,
        Err(_) => return format!("line notreq{lossy} raw={raw}"),
    };
    let auth = match &req.auth {
        Some(a) => format!("s{}", hexs(a)),
        None => "none".into(),
    };
    let mut s = format!(
        "req cred={cred}{lossy} id={} type={} auth={} eff={} nonce={}",
        req.id,
        hexs(&req.r#type),
        auth,
        eff,
        if nonce.is_empty() { "-".to_string() } else { hexs(nonce) }
    );
    match &req.params {
        None => s.push_str(" params=missing"),
        Some(J::Object(map)) => {
            s.push_str(" params=obj");
            for (k, v) in map {
                let val = match v {
                    J::Null => "n".to_string(),
                    J::Bool(true) => "t".to_string(),
                    J::Bool(false) => "f".to_string(),
                    J::String(x) => format!("s{}", hexs(x)),
                    _ => "o".to_string(),
                };
                let good = if bad_keys.iter().any(|b| b == k) { 0 } else { 1 };
                s.push_str(&format!(" k={}:{}:{}", hexs(k), val, good));
            }
        }
        Some(_) => s.push_str(" params=nonobj"),
    }
    s.push_str(&format!(" raw={raw}"));
    s
}

/// Canonical class of a reply line.
fn classify_reply(reply: &Reply) -> (String, Option<J>) {
    let line = match reply {
        Reply::Closed => return ("closed".into(), None),
        Reply::Hang => return ("hang".into(), None),
        Reply::Line(l) => l,
    };
    let v: J = match serde_json::from_str(line) {
        Ok(v) => v,
        Err(_) => return ("garbage-reply".into(), None),
    };
    let obj = match v.as_object() {
        Some(o) => o,
        None => return ("garbage-reply".into(), None),
    };
    let id = obj.get("id").and_then(J::as_u64);
    let ok = obj.get("ok").and_then(J::as_bool);
    let (id, ok) = match (id, ok) {
        (Some(i), Some(o)) => (i, o),
        _ => return ("garbage-reply".into(), None),
    };
    let bare_error = !ok && obj.len() == 3 && obj.get("error").map(J::is_string).unwrap_or(false);
    let class = if bare_error {
        let e = obj["error"].as_str().unwrap();
        if e == "unauthorized" {
            "unauthorized".to_string()
        } else if let Some(role) = e.strip_prefix("forbidden: requires role ") {
            format!("forbidden:{role}")
        } else if e == "debug disabled" {
            "debug-disabled".to_string()
        } else if e == "unsupported request" {
            "unsupported".to_string()
        } else if e.starts_with("invalid request: ") {
            "invalid".to_string()
        } else {
            "handled".to_string()
        }
    } else {
        "handled".to_string()
    };
    (format!("id={id} {class}"), Some(v))
}

// ---------------------------------------------------------------------------------------------
// generator
// ---------------------------------------------------------------------------------------------

fn std_tokens() -> Vec<PTok> {
    let t = |id: &str, token: &str, role: &'static str, enabled: bool, expires_at: u64| PTok {
        id: id.into(),
        token: token.into(),
        role,
        enabled,
        expires_at,
    };
    vec![
        t("pair-v", "tok-viewer-AAAA", "viewer", true, NOW0 + 5000),
        t("pair-o", "tok-operator-BBBB", "operator", true, NOW0 + 5000),
        t("pair-e", "tok-engineer-CCCC", "engineer", true, NOW0 + 5000),
        t("pair-a", "tok-admin-DDDD", "admin", true, NOW0 + 5000),
        t("pair-x", "tok-expired-EEEE", "admin", true, NOW0 - 1),
        t("pair-r", "tok-revoked-FFFF", "admin", false, NOW0 + 5000),
        t("pair-b", "tok-boundary-GGGG", "operator", true, NOW0),
    ]
}

pub const CREDS: &[&str] = &[
    "none", "wrong", "near", "empty", "prefix", "suffix", "case", "ws", "pprefix", "admin", "pv", "po", "pe", "pa",
    "expired", "revoked", "boundary",
];

fn cred_token(cred: &str) -> Option<String> {
    match cred {
        "none" => None,
        "wrong" => Some("not-the-token".into()),
        "near" => Some(format!("{ADMIN_TOKEN} ")),
        "empty" => Some(String::new()),
        "prefix" => Some(ADMIN_TOKEN[..5].to_string()),
        "suffix" => Some(format!("{ADMIN_TOKEN}x")),
        "case" => Some(ADMIN_TOKEN.to_ascii_uppercase()),
        "ws" => Some(format!(" {ADMIN_TOKEN}\t")),
        "pprefix" => Some("tok-admin-DD".into()),
        "admin" => Some(ADMIN_TOKEN.into()),
        "pv" => Some("tok-viewer-AAAA".into()),
        "po" => Some("tok-operator-BBBB".into()),
        "pe" => Some("tok-engineer-CCCC".into()),
        "pa" => Some("tok-admin-DDDD".into()),
        "expired" => Some("tok-expired-EEEE".into()),
        "revoked" => Some("tok-revoked-FFFF".into()),
        "boundary" => Some("tok-boundary-GGGG".into()),
        other => Some(other.to_string()),
    }
}

/// One params variant of the palette: the JSON (None = no `params` member), whether the generator
/// asserts it is well-formed and effective for the type in the standard world, and the config.set
/// keys whose (uninterpreted) value is malformed.
#[derive(Clone)]
struct Variant {
    params: Option<J>,
    eff: bool,
    bad_keys: Vec<String>,
    tag: &'static str,
}

fn v_eff(params: Option<J>) -> Variant {
    Variant {
        params,
        eff: true,
        bad_keys: vec![],
        tag: "effective",
    }
}
fn v_bad(params: Option<J>) -> Variant {
    Variant {
        params,
        eff: false,
        bad_keys: vec![],
        tag: "ineffective",
    }
}

fn descriptor_json() -> J {
    json!({
        "config": { "theme": { "style": "industrial", "accent": "#22d3ee" }, "layout": {}, "write": {}, "alarm": [] },
        "pages": [ {
            "id": "overview", "title": "Overview", "icon": "activity", "order": 0, "kind": "dashboard",
            "duration_ms": null, "svg": null, "signals": [],
            "sections": [ { "title": "Drive", "span": 12, "widgets": [ {
                "widget_type": "gauge", "bind": "Main.speed", "label": "Speed Updated", "unit": "rpm",
                "min": 0, "max": 100, "span": 6, "on_color": null, "off_color": null, "zones": [] } ] } ],
            "bindings": [] } ]
    })
}

/// A well-formed value for every config.set key the model does not interpret, and a malformed one.
fn config_value(key: &str, good: bool, rng: &mut Rng) -> J {
    let g = match key {
        "log.level" => json!("debug"),
        "watchdog.enabled" | "web.enabled" | "web.tls" | "discovery.enabled" | "discovery.advertise"
        | "mesh.enabled" | "mesh.tls" => json!(true),
        "watchdog.timeout_ms" | "retain.save_interval_ms" => json!(1 + rng.below(5000)),
        "watchdog.action" | "fault.policy" => json!("halt"),
        "retain.mode" => json!("file"),
        "web.listen" | "mesh.listen" => json!("127.0.0.1:9"),
        "discovery.service_name" => json!("plc-7"),
        "discovery.interfaces" | "mesh.publish" => json!(["a", "b"]),
        "mesh.subscribe" => json!({"t": "alias"}),
        _ => json!("x"),
    };
    if good {
        return g;
    }
    match key {
        "log.level" | "web.listen" | "mesh.listen" | "discovery.service_name" => json!("  "),
        "watchdog.enabled" | "web.enabled" | "web.tls" | "discovery.enabled" | "discovery.advertise"
        | "mesh.enabled" | "mesh.tls" => json!("true"),
        "watchdog.timeout_ms" | "retain.save_interval_ms" => json!(0),
        "watchdog.action" | "fault.policy" | "retain.mode" => json!("sideways"),
        "discovery.interfaces" | "mesh.publish" => json!(["a", 5]),
        "mesh.subscribe" => json!({"t": ""}),
        _ => json!(null),
    }
}

const INTERPRETED_KEYS: &[&str] = &[
    "control.auth_token",
    "control.debug_enabled",
    "control.mode",
    "web.auth",
    "mesh.auth_token",
];

fn interpreted_value(key: &str, rng: &mut Rng) -> J {
    match key {
        "control.auth_token" => rng
            .pick(&[json!("new-Adm1n-T0ken"), json!("  padded-token "), json!(null), json!(""), json!("   "), json!(7), json!(ADMIN_TOKEN)])
            .clone(),
        "control.debug_enabled" => rng.pick(&[json!(true), json!(false), json!("yes"), json!(null)]).clone(),
        "control.mode" => rng
            .pick(&[json!("debug"), json!("production"), json!(" Debug "), json!("PRODUCTION"), json!("test"), json!(""), json!(1)])
            .clone(),
        "web.auth" => rng
            .pick(&[json!("local"), json!("token"), json!("Token"), json!("LOCAL "), json!("basic"), json!(""), json!(false)])
            .clone(),
        "mesh.auth_token" => rng
            .pick(&[json!("mesh-secret"), json!(null), json!(" "), json!(3), json!(" m ")])
            .clone(),
        _ => json!(null),
    }
}

fn config_set_variant(t: &Tables, rng: &mut Rng) -> Variant {
    let mut map = Map::new();
    let mut bad_keys = Vec::new();
    let n = 1 + rng.below(3);
    for _ in 0..n {
        let roll = rng.below(100);
        if roll < 45 {
            let k = *rng.pick(INTERPRETED_KEYS);
            map.insert(k.to_string(), interpreted_value(k, rng));
        } else if roll < 90 {
            let keys: Vec<&String> = t
                .handled_keys
                .iter()
                .filter(|k| !INTERPRETED_KEYS.contains(&k.as_str()))
                .collect();
            let k = (*rng.pick(&keys)).clone();
            let good = !rng.chance(1, 6);
            if !good {
                bad_keys.push(k.clone());
            } else {
                bad_keys.retain(|b| b != &k);
            }
            let v = config_value(&k, good, rng);
            map.insert(k, v);
        } else {
            let k = rng
                .pick(&["control.auth-token", "Control.auth_token", "control.auth_token ", "zz", "", "web.auth.x"])
                .to_string();
            map.insert(k, json!("v"));
        }
    }
    Variant {
        params: Some(J::Object(map)),
        eff: true,
        bad_keys,
        tag: "config",
    }
}

fn garbage_params(rng: &mut Rng) -> J {
    rng.pick(&[
        json!([]),
        json!("x"),
        json!(42),
        json!(true),
        json!({"zz": 1}),
        json!({"source": 5, "lines": "x"}),
        json!({"address": 1, "value": 2}),
        json!({"target": null}),
        json!({"mode": 3}),
        json!({"id": {}}),
        json!([null, null]),
        json!({"descriptor": 1}),
        json!({"code": 1}),
        json!({"bytes": [1, 2]}),
        json!({"file_id": "one"}),
        json!({"frame_id": -1}),
        json!({"expression": 0}),
        json!({"limit": -1, "ids": 5, "buckets": "x"}),
    ])
    .clone()
}

/// The palette is keyed by the handler FUNCTION the dispatcher calls, so that a request that was renamed
/// (or added under a second name) on the dispatcher side still gets parameters that make it effective.
fn palette_name<'a>(name: &'a str, t: &'a Tables) -> &'a str {
    let Some(h) = t.handlers.iter().find(|h| h.name == name) else {
        return name;
    };
    match h.fn_name.as_str() {
        "handle_status" => "status",
        "handle_health" => "health",
        "handle_task_stats" => "tasks.stats",
        "handle_events_tail" => "events.tail",
        "handle_faults" => "faults",
        "handle_config_get" => "config.get",
        "handle_config_set" => "config.set",
        "handle_historian_query" => "historian.query",
        "handle_historian_alerts" => "historian.alerts",
        "handle_io_list" => "io.list",
        "handle_hmi_schema_get" => "hmi.schema.get",
        "handle_hmi_values_get" => "hmi.values.get",
        "handle_hmi_trends_get" => "hmi.trends.get",
        "handle_hmi_alarms_get" => "hmi.alarms.get",
        "handle_hmi_descriptor_get" => "hmi.descriptor.get",
        "handle_hmi_descriptor_update" => "hmi.descriptor.update",
        "handle_hmi_scaffold_reset" => "hmi.scaffold.reset",
        "handle_hmi_alarm_ack" => "hmi.alarm.ack",
        "handle_hmi_write" => "hmi.write",
        "handle_io_read" => "io.read",
        "handle_io_write" => "io.write",
        "handle_io_force" => "io.force",
        "handle_io_unforce" => "io.unforce",
        "handle_pause" => "pause",
        "handle_resume" => "resume",
        "handle_step" => "step_in",
        "handle_debug_state" => "debug.state",
        "handle_debug_stops" => "debug.stops",
        "handle_debug_stack" => "debug.stack",
        "handle_debug_scopes" => "debug.scopes",
        "handle_debug_variables" => "debug.variables",
        "handle_debug_evaluate" => "debug.evaluate",
        "handle_debug_breakpoint_locations" => "debug.breakpoint_locations",
        "handle_breakpoints_set" => "breakpoints.set",
        "handle_breakpoints_clear" => "breakpoints.clear",
        "handle_breakpoints_list" => "breakpoints.list",
        "handle_breakpoints_clear_all" => "breakpoints.clear_all",
        "handle_breakpoints_clear_id" => "breakpoints.clear_id",
        "handle_eval" => "eval",
        "handle_set" => "set",
        "handle_var_force" => "var.force",
        "handle_var_unforce" => "var.unforce",
        "handle_var_forced" => "var.forced",
        "handle_shutdown" => "shutdown",
        "handle_restart" => "restart",
        "handle_bytecode_reload" => "bytecode.reload",
        "handle_pair_start" => "pair.start",
        "handle_pair_claim" => "pair.claim",
        "handle_pair_list" => "pair.list",
        "handle_pair_revoke" => "pair.revoke",
        _ => name,
    }
}

fn variants_for(real_name: &str, w: &World, t: &Tables, rng: &mut Rng) -> Vec<Variant> {
    let name = palette_name(real_name, t);
    let code = w.pending_code.as_ref().map(|c| c.0.clone()).unwrap_or_else(|| "000000".into());
    let alarm = w.alarm_id.clone().unwrap_or_else(|| "none".into());
    let role = rng.pick(&["viewer", "operator", "engineer", "admin", " Admin ", "ENGINEER", "root", ""]).to_string();
    let mut claim = json!({"code": code, "role": role});
    if rng.chance(1, 4) {
        claim = json!({"code": code});
    }
    if rng.chance(1, 5) {
        claim["code"] = json!(format!(" {code} "));
    }
    let mut v: Vec<Variant> = match name {
        "events.tail" | "events" | "faults" => vec![v_eff(Some(json!({"limit": 5}))), v_eff(None)],
        "hmi.values.get" => vec![v_eff(Some(json!({"ids": null}))), v_eff(None)],
        "hmi.trends.get" => vec![v_eff(Some(json!({"duration_ms": 60000, "buckets": 24}))), v_eff(None)],
        "hmi.alarms.get" => vec![v_eff(Some(json!({"limit": 10}))), v_eff(None)],
        "historian.query" | "historian.alerts" => vec![v_eff(Some(json!({}))), v_eff(None)],
        "debug.scopes" => vec![v_eff(Some(json!({"frame_id": 0})))],
        "debug.variables" => vec![v_eff(Some(json!({"variables_reference": 1})))],
        "debug.evaluate" => vec![
            v_eff(Some(json!({"expression": "1 + 1"}))),
            v_eff(Some(json!({"expression": "Main.counter + 2"}))),
            v_eff(Some(json!({"expression": "counter > 0 AND run", "frame_id": 0}))),
            v_eff(Some(json!({"expression": "ABS(-3) * 2"}))),
            v_eff(Some(json!({"expression": "no_such_variable"}))),
            v_eff(Some(json!({"expression": "1 +"}))),
            v_eff(Some(json!({"expression": "1 + 1", "frame_id": 99}))),
        ],
        "debug.breakpoint_locations" => vec![v_eff(Some(json!({"source": "main.st", "line": 1, "end_line": 50})))],
        "breakpoints.set" => vec![v_eff(Some(json!({"source": "main.st", "lines": [8, 10]}))), v_bad(Some(json!({"source": "other.st", "lines": [1]})))],
        "breakpoints.clear" => vec![
            v_eff(Some(json!({"source": "main.st", "lines": []}))),
            v_bad(Some(json!({"source": "main.st"}))), v_bad(Some(json!({"source": "nope.st", "lines": []})))],
        "breakpoints.clear_id" => vec![v_eff(Some(json!({"file_id": 1}))), v_bad(Some(json!({"file_id": 77})))],
        "eval" => vec![v_eff(Some(json!({"expr": "Main"})))],
        "set" => vec![
            v_eff(Some(json!({"target": "global:g1", "value": "5"}))),
            v_eff(Some(json!({"target": "retain:r1", "value": "TRUE"}))),
            v_bad(Some(json!({"target": "local:x", "value": "5"}))),
            v_bad(Some(json!({"target": "global:g1", "value": "five"}))),
        ],
        "var.force" => vec![
            v_eff(Some(json!({"target": "global:g2", "value": "TRUE"}))),
            v_eff(Some(json!({"target": "instance:1:run", "value": "0"}))),
            v_bad(Some(json!({"target": "global: ", "value": "1"}))),
            v_bad(Some(json!({"target": "instance:x:run", "value": "1"}))),
        ],
        "var.unforce" => vec![v_eff(Some(json!({"target": "global:g_forced"}))), v_bad(Some(json!({"target": "gg"})))],
        "io.write" => vec![
            v_eff(Some(json!({"address": "%IX0.1", "value": "true"}))),
            v_bad(Some(json!({"address": "%ZX0.1", "value": "true"}))),
            v_bad(Some(json!({"address": "%IX0.9", "value": "true"}))),
            v_bad(Some(json!({"address": "%IX0.1", "value": "maybe"}))),
        ],
        "io.force" => vec![v_eff(Some(json!({"address": "%QX0.2", "value": "1"}))), v_bad(Some(json!({"address": "QX0.2", "value": "1"})))],
        "io.unforce" => vec![v_eff(Some(json!({"address": "%IX7.7"}))), v_bad(Some(json!({"address": ""})))],
        "hmi.write" => vec![
            v_eff(Some(json!({"id": WRITE_TARGET, "value": false}))),
            v_eff(Some(json!({"path": WRITE_TARGET, "value": true}))),
            v_bad(Some(json!({"id": "resource/RESOURCE/program/Main/field/speed", "value": 1.0}))),
            v_bad(Some(json!({"id": WRITE_TARGET, "value": "notabool"}))),
            v_bad(Some(json!({"id": "  ", "value": 1}))),
        ],
        "hmi.alarm.ack" => vec![v_eff(Some(json!({"id": alarm}))), v_bad(Some(json!({"id": "no-such-alarm"})))],
        "hmi.descriptor.update" => vec![
            v_eff(Some(json!({"descriptor": descriptor_json()}))),
            v_bad(Some(json!({"descriptor": {"config": {}, "pages": "x"}}))),
        ],
        "hmi.scaffold.reset" => vec![
            v_eff(Some(json!({"mode": "reset"}))),
            v_eff(Some(json!({"mode": " Update ", "style": "industrial"}))),
            v_eff(None),
            v_eff(Some(json!({"zz": 1}))),
            v_bad(Some(json!({"mode": "sideways"}))),
        ],
        "config.set" => {
            let mut vs = vec![v_bad(None), v_bad(Some(json!([1]))), v_bad(Some(json!("x")))];
            for _ in 0..6 {
                vs.push(config_set_variant(t, rng));
            }
            vs
        }
        "restart" => vec![
            v_eff(Some(json!({"mode": "warm"}))),
            v_eff(Some(json!({"mode": "COLD"}))),
            v_bad(Some(json!({"mode": "sideways"}))),
            v_bad(Some(json!({"mode": " warm"}))),
        ],
        "bytecode.reload" => vec![v_eff(Some(json!({"bytes": "AAECAw=="}))), v_bad(Some(json!({"bytes": "***"})))],
        "pair.claim" => vec![
            Variant { params: Some(claim), eff: true, bad_keys: vec![], tag: "claim" },
            v_bad(Some(json!({"code": "nope!!", "role": "viewer"}))),
            v_bad(Some(json!({"code": code, "role": 5}))),
        ],
        "pair.revoke" => vec![
            v_eff(Some(json!({"id": "pair-e"}))),
            v_eff(Some(json!({"id": "all"}))),
            v_eff(Some(json!({"id": "pair-r"}))),
            v_bad(Some(json!({"id": "pair-nobody"}))),
            v_bad(Some(json!({"id": "pair-x"}))),
        ],
        _ => vec![v_eff(None)],
    };
    let info = t.handlers.iter().find(|h| h.name == real_name);
    let takes = info.map(|h| h.takes_params).unwrap_or(true);
    if name != "config.set" {
        // garbage params: ineffective for handlers that read params (except the ones with optional
        // params only, listed above as effective without params), ignored by the others
        let optional_only = matches!(
            name,
            "events.tail" | "events" | "faults" | "historian.query" | "historian.alerts"
        );
        let g = garbage_params(rng);
        if !takes || optional_only {
            v.push(Variant { params: Some(g), eff: true, bad_keys: vec![], tag: "garbage" });
        } else if !matches!(name, "hmi.scaffold.reset" | "hmi.values.get" | "hmi.trends.get" | "hmi.alarms.get") {
            v.push(Variant { params: Some(g), eff: false, bad_keys: vec![], tag: "garbage" });
            v.push(Variant { params: None, eff: false, bad_keys: vec![], tag: "missing" });
        }
    }
    v
}

struct CaseWriter<'a> {
    out: &'a mut Out,
    nontrivial: bool,
}

/// Child processes stream what they write, line by line, so that the parent knows which request was in
/// flight when a child died (process abort = the server took the whole runtime down).
static STREAM: Mutex<Option<(std::fs::File, usize)>> = Mutex::new(None);

fn stream_begin() {
    if let Some((_, flushed)) = STREAM.lock().unwrap().as_mut() {
        *flushed = 0;
    }
}

/// Write everything of the current case's buffer that has not been written yet, then `extra`.
fn stream_sync(buf: &str, extra: &str) {
    if let Some((file, flushed)) = STREAM.lock().unwrap().as_mut() {
        let _ = file.write_all(buf[*flushed..].as_bytes());
        *flushed = buf.len();
        if !extra.is_empty() {
            let _ = file.write_all(extra.as_bytes());
            let _ = file.write_all(b"\n");
        }
    }
}

fn world_lines(cfg: &WorldCfg, w: &World, out: &mut Out) {
    out.line(format!(
        "world token={} reqauth={} debug={} mode={} pairing={} now={} transport={}",
        match &cfg.token {
            Some(t) => format!("s{}", hexs(t)),
            None => "none".into(),
        },
        cfg.requires_auth as u8,
        cfg.debug_enabled as u8,
        if cfg.debug_mode { "debug" } else { "prod" },
        cfg.pairing as u8,
        NOW0,
        if w.tcp_addr.is_some() { "tcp" } else { "unix" }
    ));
    out.count(if w.tcp_addr.is_some() { "transport:tcp" } else { "transport:unix" });
    if cfg.pairing {
        for t in &cfg.tokens {
            out.line(format!(
                "ptoken {} {} {} {} {}",
                hexs(&t.id),
                hexs(&t.token),
                t.role,
                t.enabled as u8,
                t.expires_at
            ));
        }
        if let Some((code, exp)) = &w.pending_code {
            out.line(format!("pending {} {}", hexs(code), exp));
        }
    }
}

/// Send one line, observe reply class and changed probes, write op + impl lines.
fn do_line(
    w: &World,
    client: &mut Client,
    bytes: &[u8],
    eff: bool,
    bad_keys: &[String],
    cw: &mut CaseWriter,
) -> (String, Option<J>) {
    do_line_as(w, client, bytes, eff, bad_keys, cw, "-")
}

/// `cred`: the generator's name of the credential (only where it is certain what it maps to: the
/// single request of an exhaustive case); read by the table-independent oracle in checks/c18.py.
fn do_line_as(
    w: &World,
    client: &mut Client,
    bytes: &[u8],
    eff: bool,
    bad_keys: &[String],
    cw: &mut CaseWriter,
    cred: &str,
) -> (String, Option<J>) {
    do_line_full(w, client, bytes, eff as u8, bad_keys, cw, cred)
}

/// `eff`: 0 = the generator asserts the parameters are rejected / ineffective, 1 = well-formed and effective,
/// 2 = boundary values: whether the handler accepts them is not asserted; if the request is dispatched the
/// compared answer says `fx=*` and the observed probes go into an `obs` line (checked against the upper
/// bound of the request type by checks/c18.py).
fn do_line_full(
    w: &World,
    client: &mut Client,
    bytes: &[u8],
    eff: u8,
    bad_keys: &[String],
    cw: &mut CaseWriter,
    cred: &str,
) -> (String, Option<J>) {
    let valid = w.judge(bytes);
    stream_sync(&cw.out.buf, &format!("#pending {}", abstract_line(bytes, eff, "", bad_keys, &format!("{cred} valid={valid}"))));
    let before = w.probes();
    let t0 = std::time::Instant::now();
    let reply = client.send(bytes);
    T_SEND_US.fetch_add(t0.elapsed().as_micros() as u64, Ordering::Relaxed);
    let (class, value) = classify_reply(&reply);
    let after = w.probes();
    let mut fx: Vec<&str> = Vec::new();
    for (k, v) in &before {
        if after.get(k) != Some(v) {
            if k.starts_with("cache-") {
                cw.out.count(&format!("cache-change:{k}"));
            } else {
                fx.push(k);
            }
        }
    }
    // nonce: the fresh code / token the implementation minted (opaque to the model)
    let nonce = value
        .as_ref()
        .and_then(|v| v.get("result"))
        .and_then(|r| r.get("code").or_else(|| r.get("token")))
        .and_then(J::as_str)
        .unwrap_or("")
        .to_string();
    if let Some(tok) = value.as_ref().and_then(|v| v.get("result")).and_then(|r| r.get("token")).and_then(J::as_str) {
        w.issued.lock().unwrap().push(tok.to_string());
    }
    cw.out.count(&format!("valid:{valid}"));
    if let (Some(tok), Some(store_now)) = (
        value.as_ref().and_then(|v| v.get("result")).and_then(|r| r.get("token")).and_then(J::as_str),
        w.store.as_ref().map(|_| w.clock.load(Ordering::SeqCst)),
    ) {
        w.minted.lock().unwrap().push((format!("pair-{store_now}"), tok.to_string()));
    }
    let op_line = abstract_line(bytes, eff, &nonce, bad_keys, &format!("{cred} valid={valid}"));
    let is_req = op_line.starts_with("req ");
    cw.out.line(op_line);
    let fxs = if fx.is_empty() { "-".to_string() } else { fx.join(",") };
    if eff == 2 && is_req && class.ends_with(" handled") {
        cw.out.line(format!("impl {class} fx=*"));
        cw.out.line(format!("obs fx={fxs}"));
    } else {
        cw.out.line(format!("impl {class} fx={fxs}"));
    }
    let short = class.split(' ').last().unwrap_or("").split(':').next().unwrap_or("").to_string();
    cw.out.count(&format!("reply:{short}"));
    if !fx.is_empty() {
        cw.out.count("lines-with-effect");
        cw.nontrivial = true;
    }
    if short != "handled" && short != "invalid" {
        cw.nontrivial = true;
    }
    (class, value)
}

fn request_bytes(id: u64, ty: &str, auth: Option<&str>, params: Option<&J>, rng: &mut Rng) -> Vec<u8> {
    let mut m = Map::new();
    m.insert("id".into(), json!(id));
    m.insert("type".into(), json!(ty));
    match auth {
        Some(a) => {
            m.insert("auth".into(), json!(a));
        }
        None => {
            if rng.chance(1, 4) {
                m.insert("auth".into(), J::Null);
            }
        }
    }
    match params {
        Some(p) => {
            m.insert("params".into(), p.clone());
        }
        None => {
            if rng.chance(1, 6) {
                m.insert("params".into(), J::Null);
            }
        }
    }
    if rng.chance(1, 10) {
        m.insert("extra".into(), json!({"ignored": true}));
    }
    serde_json::to_vec(&J::Object(m)).unwrap()
}

fn claimcheck(w: &World, cw: &mut CaseWriter) {
    if let (Some(store), Some((code, _))) = (&w.store, &w.pending_code) {
        let ok = store.claim(code, None).is_some();
        cw.out.line(format!("claimcheck {}", hexs(code)));
        cw.out.line(format!("impl {}", if ok { "ok" } else { "fail" }));
    }
}

/// Direct `PairingStore::revoke(id)` (what the web UI's revoke button does); the harness then knows for
/// certain that the tokens with that id are dead.
fn direct_revoke(w: &World, id: &str, cw: &mut CaseWriter) {
    if let Some(store) = &w.store {
        let ok = store.revoke(id);
        cw.out.line(format!("revoke {}", hexs(id)));
        cw.out.line(format!("impl {}", if ok { "ok" } else { "fail" }));
        for t in std_tokens() {
            if t.id == id {
                w.dead.lock().unwrap().push(t.token);
            }
        }
        for (mid, tok) in w.minted.lock().unwrap().iter() {
            if mid == id {
                w.dead.lock().unwrap().push(tok.clone());
            }
        }
    }
}

/// Histories across a runtime restart: the pairing store is re-opened from its file, so what was revoked,
/// expired or claimed before must be exactly that afterwards; a pending code is gone.
fn reload_scenario(rng: &mut Rng, base: &mut Base, t: &Tables, cfg: &WorldCfg, out: &mut Out) -> bool {
    let w = World::new(base, cfg);
    world_lines(cfg, &w, out);
    let orig_code = w.pending_code.clone();
    let mut cw = CaseWriter { out, nontrivial: false };
    cw.out.count("scenario:reload");
    let mut client = w.connect();
    let mut present: Vec<Option<String>> = Vec::new();
    let mut claim_after: Option<String> = None;
    let sub = rng.below(6);
    cw.out.count(&format!("reload-kind:{sub}"));
    match sub {
        0 => {
            // revoke through the endpoint, restart, present the revoked token
            let who = *rng.pick(&["admin", "pa", "admin", "pe"]);
            let (id, cred) = *rng.pick(&[("pair-e", "pe"), ("pair-o", "po"), ("pair-v", "pv"), ("all", "pe"), ("all", "pa")]);
            let b = request_bytes(20, "pair.revoke", cred_token(who).as_deref(), Some(&json!({"id": id})), rng);
            do_line(&w, &mut client, &b, true, &[], &mut cw);
            present.push(cred_token(cred));
            present.push(cred_token(*rng.pick(&["po", "pe", "pv", "pa"])));
        }
        1 => {
            // revoke through the store's own API, restart, present the revoked token
            let (id, cred) = *rng.pick(&[("pair-e", "pe"), ("pair-o", "po"), ("pair-a", "pa"), ("pair-v", "pv")]);
            direct_revoke(&w, id, &mut cw);
            present.push(cred_token(cred));
            present.push(cred_token(*rng.pick(&["po", "pe", "pa"])));
        }
        2 => {
            // what was disabled or expired in the file before stays so
            present.push(cred_token("revoked"));
            present.push(cred_token("expired"));
            present.push(cred_token(*rng.pick(&["pe", "boundary", "pv"])));
        }
        3 => {
            // a code started before the restart cannot be claimed after it
            let b = request_bytes(21, "pair.start", cred_token(*rng.pick(&["admin", "pa"])).as_deref(), None, rng);
            let (_, v) = do_line(&w, &mut client, &b, true, &[], &mut cw);
            claim_after = v
                .as_ref()
                .and_then(|v| v["result"]["code"].as_str())
                .map(str::to_string)
                .or_else(|| orig_code.as_ref().map(|c| c.0.clone()));
        }
        4 => {
            // a token claimed before the restart keeps exactly its (sanitised) role
            let code = orig_code.as_ref().map(|c| c.0.clone()).unwrap_or_default();
            let role = *rng.pick(&["viewer", "operator", "engineer", "admin"]);
            let b = request_bytes(22, "pair.claim", cred_token(*rng.pick(&["po", "pe", "admin"])).as_deref(), Some(&json!({"code": code, "role": role})), rng);
            let (_, v) = do_line(&w, &mut client, &b, true, &[], &mut cw);
            let minted = v.as_ref().and_then(|v| v["result"]["token"].as_str()).map(str::to_string);
            if rng.chance(1, 3) {
                // ... unless it is revoked before the restart
                let id = format!("pair-{}", w.clock.load(Ordering::SeqCst));
                let b = request_bytes(23, "pair.revoke", cred_token("admin").as_deref(), Some(&json!({"id": id})), rng);
                do_line(&w, &mut client, &b, true, &[], &mut cw);
            }
            present.push(minted.or_else(|| cred_token("wrong")));
        }
        _ => {
            // expiry across the restart
            present.push(cred_token(*rng.pick(&["pe", "boundary", "po"])));
            present.push(cred_token("boundary"));
        }
    }
    let tick = |w: &World, cw: &mut CaseWriter, rng: &mut Rng| {
        let dt = *rng.pick(&[1u64, 299, 300, 301, 4999, 5000, 5001]);
        w.clock.fetch_add(dt, Ordering::SeqCst);
        cw.out.line(format!("tick {dt}"));
    };
    if sub == 5 || rng.chance(1, 5) {
        tick(&w, &mut cw, rng);
    }
    drop(client);
    let w = w.reopen(base);
    cw.out.line("reload");
    let mut client = w.connect();
    if rng.chance(1, 4) {
        tick(&w, &mut cw, rng);
    }
    if let Some(code) = claim_after {
        let b = request_bytes(24, "pair.claim", cred_token(*rng.pick(&["po", "pe", "admin"])).as_deref(), Some(&json!({"code": code, "role": "engineer"})), rng);
        let (_, v) = do_line(&w, &mut client, &b, true, &[], &mut cw);
        let minted = v.as_ref().and_then(|v| v["result"]["token"].as_str()).map(str::to_string);
        present.push(minted.or_else(|| cred_token("wrong")));
    }
    for auth in present {
        let (ty, params) = rng
            .pick(&[("status", None), ("restart", Some(json!({"mode": "warm"}))), ("io.read", None), ("pair.list", None), ("config.get", None)])
            .clone();
        let b = request_bytes(25 + rng.below(1000), ty, auth.as_deref(), params.as_ref(), rng);
        do_line(&w, &mut client, &b, true, &[], &mut cw);
        if ty == "restart" {
            // a second restart request would not be visible: stop presenting after it
            break;
        }
    }
    // the code the case began with is gone after a restart
    if let (Some(store), Some((code, _))) = (&w.store, &orig_code) {
        let ok = store.claim(code, None).is_some();
        cw.out.line(format!("claimcheck {}", hexs(code)));
        cw.out.line(format!("impl {}", if ok { "ok" } else { "fail" }));
    }
    let _ = t;
    cw.nontrivial
}


// ---------------------------------------------------------------------------------------------
// boundary parameters
// ---------------------------------------------------------------------------------------------

/// Largest millisecond value `Duration::from_millis` can take without overflowing `i64` nanoseconds.
/// Larger values were the finding C18-config-duration-overflow (fixed in c8e9f82: the conversions saturate);
/// the generator now crosses the bound as well.
const MAX_SAFE_MILLIS: u64 = 9_223_372_036_854;

fn int_boundaries() -> Vec<J> {
    vec![
        json!(0), json!(1), json!(-1), json!(2147483647u64), json!(4294967295u64), json!(4294967296u64),
        json!(9007199254740992u64), json!(9223372036854775807u64), json!(9223372036854775808u64),
        json!(18446744073709551615u64), json!(i64::MIN), json!(1_000_000_000_000u64), json!(1_000_000_000_000_000u64),
        json!(100_000_000u64), json!(1.5), json!(1e308), json!(-0.0), json!("5"), J::Null, json!([]), json!({}), json!(true),
    ]
}

fn string_boundaries() -> Vec<J> {
    vec![
        json!(""), json!(" "), json!("\u{0}"), json!("a".repeat(100_000)), json!("../../../etc/passwd"),
        json!("%IX4294967295.7"), json!("%IX4294967296.0"), json!("%QX0.8"), json!("%MW99999999999999999999"),
        json!("%I*"), json!("%"), json!("global:"), json!("global:\u{0}"), json!("retain: x "),
        json!("instance:4294967295:x"), json!("instance:4294967296:x"), json!("instance:-1:x"), json!("instance::"),
        json!("9223372036854775807"), json!("9223372036854775808"), json!("-9223372036854775808"), json!("TRUE"),
        json!("1e999"), json!("\u{3c0}\u{2211}\u{1f600}"), json!("\""), json!("main.st"), json!("/"), json!("AAAA"),
        json!("A".repeat(65_536)), json!(5), J::Null, json!([]), json!({}), json!(false),
    ]
}

fn vec_boundaries() -> Vec<J> {
    vec![
        json!([]), json!([0]), json!([1, 1, 1]), json!([4294967295u64]), json!([4294967296u64]), json!([-1]), json!(["x"]),
        json!([""]), J::Array((0..10_000).map(|i| json!(i)).collect()), J::Array((0..2_000).map(|_| json!("w")).collect()),
        json!([[1]]), json!([null]), J::Null, json!(5), json!("x"), json!({}),
    ]
}

fn deep(depth: usize) -> J {
    let mut v = json!(1);
    for _ in 0..depth {
        v = json!([v]);
    }
    v
}

enum FieldKind {
    Int,
    Str,
    Vec,
    Any,
}

fn field_kind(ty: &str) -> FieldKind {
    if ty.contains("Vec<") {
        FieldKind::Vec
    } else if ty.contains("String") {
        FieldKind::Str
    } else if ["u8", "u16", "u32", "u64", "u128", "usize", "i32", "i64"].iter().any(|k| ty.contains(k)) {
        FieldKind::Int
    } else {
        FieldKind::Any
    }
}

/// The boundary lines for one request type: for every member of its parameter struct the two values that
/// matter most for its kind, then random picks (own members, or any member name some handler reads).
fn boundary_plan(name: &str, t: &Tables, rng: &mut Rng, extra: usize) -> Vec<(String, J)> {
    let own: Vec<(String, String)> = t.params.get(name).cloned().unwrap_or_default();
    let pool: Vec<(String, String)> = t.params.get("*").cloned().unwrap_or_default();
    let mut plan: Vec<(String, J)> = Vec::new();
    let takes = t.handlers.iter().find(|h| h.name == name).map(|h| h.takes_params).unwrap_or(true);
    if own.is_empty() && takes {
        // the members this handler reads could not be found in the source: try every member name known
        for (f, _) in &pool {
            plan.push((f.clone(), json!(u64::MAX)));
            plan.push((f.clone(), json!(1_000_000_000_000u64)));
        }
    }
    for (f, ty) in &own {
        match field_kind(ty) {
            FieldKind::Int | FieldKind::Any => {
                plan.push((f.clone(), json!(u64::MAX)));
                plan.push((f.clone(), json!(1_000_000_000_000u64)));
            }
            FieldKind::Str => {
                plan.push((f.clone(), json!("")));
                plan.push((f.clone(), json!("a".repeat(100_000))));
            }
            FieldKind::Vec => {
                plan.push((f.clone(), J::Array((0..10_000).map(|i| json!(i)).collect())));
                plan.push((f.clone(), json!([4294967296u64])));
            }
        }
    }
    for _ in 0..extra {
        let (f, ty) = if !own.is_empty() && rng.chance(7, 10) {
            rng.pick(&own).clone()
        } else if !pool.is_empty() {
            rng.pick(&pool).clone()
        } else {
            ("x".to_string(), "any".to_string())
        };
        let values = match field_kind(&ty) {
            FieldKind::Int => int_boundaries(),
            FieldKind::Str => string_boundaries(),
            FieldKind::Vec => vec_boundaries(),
            FieldKind::Any => {
                let mut v = int_boundaries();
                v.extend(string_boundaries());
                v.extend(vec_boundaries());
                v.push(deep(100));
                v.push(deep(126));
                v
            }
        };
        plan.push((f, rng.pick(&values).clone()));
    }
    plan
}

/// Whether `handle_config_set` accepts `v` for a key whose value the model does not interpret (the
/// validation rules of expect_bool / expect_non_empty_string / expect_positive_i64 / expect_string_array /
/// expect_string_map / the three enum parsers, restated by the generator).
fn config_good(key: &str, v: &J) -> bool {
    let nonempty = |x: &J| x.as_str().map(|s| !s.trim().is_empty()).unwrap_or(false);
    match key {
        "watchdog.enabled" | "web.enabled" | "web.tls" | "discovery.enabled" | "discovery.advertise" | "mesh.enabled"
        | "mesh.tls" => v.is_boolean(),
        "log.level" | "web.listen" | "mesh.listen" | "discovery.service_name" => nonempty(v),
        "watchdog.timeout_ms" | "retain.save_interval_ms" => v
            .as_i64()
            .or_else(|| v.as_u64().and_then(|n| i64::try_from(n).ok()))
            .map(|n| n >= 1)
            .unwrap_or(false),
        "watchdog.action" | "fault.policy" => v
            .as_str()
            .map(|s| matches!(s.trim().to_ascii_lowercase().as_str(), "halt" | "safe_halt" | "restart"))
            .unwrap_or(false),
        "retain.mode" => v.as_str().map(|s| matches!(s.trim().to_ascii_lowercase().as_str(), "none" | "file")).unwrap_or(false),
        "discovery.interfaces" | "mesh.publish" => v.as_array().map(|a| a.iter().all(nonempty)).unwrap_or(false),
        "mesh.subscribe" => v
            .as_object()
            .map(|m| m.iter().all(|(k, x)| !k.trim().is_empty() && nonempty(x)))
            .unwrap_or(false),
        _ => false,
    }
}

/// A boundary value for a config.set key the model does not interpret, with its goodness.
fn config_boundary(key: &str, rng: &mut Rng) -> (J, bool) {
    let v = match key {
        "watchdog.timeout_ms" | "retain.save_interval_ms" => rng
            .pick(&[
                json!(1), json!(0), json!(-1), json!(4294967296u64), json!(MAX_SAFE_MILLIS), json!(MAX_SAFE_MILLIS + 1), json!(i64::MAX), json!(1.0), json!(1.5),
                json!("1"), J::Null, json!([1]), json!(i64::MIN), json!(u64::MAX), json!(9223372036854775808u64),
            ])
            .clone(),
        "discovery.interfaces" | "mesh.publish" => rng
            .pick(&[json!([]), json!(["a"]), json!([" a "]), json!(["a", ""]), json!(["a", null]), J::Array((0..5_000).map(|_| json!("w")).collect()), json!("a"), J::Null])
            .clone(),
        "mesh.subscribe" => rng
            .pick(&[json!({}), json!({"a": "b"}), json!({"": "b"}), json!({" ": "b"}), json!({"a": " "}), json!({"a": 1}), json!([]), J::Null])
            .clone(),
        "watchdog.action" | "fault.policy" | "retain.mode" => rng
            .pick(&[json!(" HALT "), json!("Safe_Halt"), json!("restart"), json!(" None"), json!("FILE"), json!(""), json!("halt\u{0}"), json!(1), J::Null, json!("a".repeat(50_000))])
            .clone(),
        "log.level" | "web.listen" | "mesh.listen" | "discovery.service_name" => rng
            .pick(&[json!("x"), json!(" x "), json!(""), json!("\t"), json!("a".repeat(100_000)), json!("\u{0}"), json!(0), J::Null, json!(["x"])])
            .clone(),
        _ => rng.pick(&[json!(true), json!(false), json!("true"), json!(1), json!(0), J::Null, json!([true])]).clone(),
    };
    let good = config_good(key, &v);
    (v, good)
}

/// Boundary-parameter stream: one request type per case (round robin over the dispatcher's names), every
/// member of its parameter struct hit with the extreme values of its kind, each line on a connection that is
/// known to be alive.  A line without a reply (connection thread died, or the whole child process aborted)
/// ends the case.
fn boundary_scenario(index: u64, rng: &mut Rng, base: &mut Base, t: &Tables, out: &mut Out) -> bool {
    let h = &t.handlers[(index % t.handlers.len() as u64) as usize];
    let mut cfg = gen_cfg(rng, None);
    cfg.pairing = true;
    if !rng.chance(1, 6) {
        cfg.debug_enabled = true;
    }
    if cfg.token.as_deref() == Some("") {
        cfg.token = Some(ADMIN_TOKEN.to_string());
    }
    let w = World::new(base, &cfg);
    world_lines(&cfg, &w, out);
    let mut cw = CaseWriter { out, nontrivial: false };
    cw.out.count("scenario:boundary");
    let admin: Option<String> = cfg.token.clone();
    let pname = palette_name(&h.name, t).to_string();
    let exact = matches!(pname.as_str(), "config.set" | "pair.start" | "pair.claim" | "pair.list" | "pair.revoke");
    let base_params: Map<String, J> = variants_for(&h.name, &w, t, rng)
        .into_iter()
        .find_map(|v| match v.params {
            Some(J::Object(m)) if v.eff => Some(m),
            _ => None,
        })
        .unwrap_or_default();
    let mut client = w.connect();
    if pname == "config.set" {
        for _ in 0..8 {
            let keys: Vec<&String> = t.handled_keys.iter().filter(|k| !INTERPRETED_KEYS.contains(&k.as_str())).collect();
            let mut map = Map::new();
            let mut bad = Vec::new();
            for _ in 0..1 + rng.below(2) {
                let k = (*rng.pick(&keys)).clone();
                let (v, good) = config_boundary(&k, rng);
                bad.retain(|b| b != &k);
                if !good {
                    bad.push(k.clone());
                }
                map.insert(k, v);
            }
            if rng.chance(1, 3) {
                let k = *rng.pick(INTERPRETED_KEYS);
                map.insert(k.to_string(), interpreted_value(k, rng));
            }
            let b = request_bytes(1 + rng.below(99999), &h.name, admin.as_deref(), Some(&J::Object(map)), rng);
            // eff=2: repeated / boundary values may equal what is already set, so the probe set is only bounded
            // (`obs`); the model still applies the accepted keys to its own gate state
            let (class, _) = do_line_full(&w, &mut client, &b, 2, &bad, &mut cw, "-");
            if class == "closed" || class == "hang" {
                return true;
            }
        }
        claimcheck(&w, &mut cw);
        return cw.nontrivial;
    }
    let plan = boundary_plan(&h.name, t, rng, 6);
    for (field, mut value) in plan {
        if pname == "debug.evaluate" && field == "expression" && rng.chance(1, 2) {
            // C18-debug-evaluate-stack-overflow (fixed: parse_debug_expression bounds length and depth): long and
            // deeply nested expressions on both sides of the bounds must be answered on the 2 MiB connection thread
            let n = *rng.pick(&[30usize, 63, 64, 65, 200, 400, 1000, 2047, 2048, 5000, 30000]);
            let text = match rng.below(8) {
                0 => format!("1{}", "+1".repeat(n)),
                1 => format!("{}1{}", "(".repeat(n), ")".repeat(n)),
                2 => format!("{}TRUE", "NOT ".repeat(n)),
                3 => format!("a{}", ".b".repeat(n)),
                4 => format!("a{}", "[1]".repeat(n)),
                5 => format!("{}1{}", "ABS(".repeat(n), ")".repeat(n)),
                6 => format!("{}1", "-".repeat(n)),
                _ => "(".repeat(n),
            };
            cw.out.count(&format!("evaluate-deep:{}", if text.len() > 4096 { "over-length" } else if n > 64 { "over-depth" } else { "within" }));
            value = json!(text);
        }
        let mut m = base_params.clone();
        m.insert(field, value);
        if rng.chance(1, 8) {
            m.insert("deep".into(), deep(100));
        }
        let auth = if rng.chance(5, 6) { admin.clone() } else { cred_token(CREDS[rng.below(CREDS.len() as u64) as usize]) };
        let b = request_bytes(1 + rng.below(99999), &h.name, auth.as_deref(), Some(&J::Object(m)), rng);
        cw.out.count(&format!("boundary:{}", h.name));
        let (class, _) = do_line_full(&w, &mut client, &b, if exact { 0 } else { 2 }, &[], &mut cw, "-");
        if class == "closed" || class == "hang" {
            // no reply: the model expects one, so this is already a disagreement; nothing more to learn here
            return true;
        }
    }
    claimcheck(&w, &mut cw);
    cw.nontrivial
}

/// Two pairings claimed within the same clock second share the id `pair-<second>`; revoking that id must
/// disable both (sometimes the clock ticks in between, then the ids differ and only one goes).
fn same_second_scenario(rng: &mut Rng, base: &mut Base, out: &mut Out) -> bool {
    let mut cfg = gen_cfg(rng, None);
    cfg.pairing = true;
    if cfg.token.as_deref() == Some("") || rng.chance(2, 3) {
        cfg.token = Some(ADMIN_TOKEN.to_string());
    }
    let w = World::new(base, &cfg);
    world_lines(&cfg, &w, out);
    let mut cw = CaseWriter { out, nontrivial: false };
    cw.out.count("scenario:same-second-claims");
    let admin: Option<String> = cfg.token.clone();
    let mut client = w.connect();
    let mut minted: Vec<(String, Option<String>)> = Vec::new();
    let rounds = 2 + rng.below(2);
    for k in 0..rounds {
        let b = request_bytes(30 + k, "pair.start", admin.as_deref(), None, rng);
        let (_, v) = do_line(&w, &mut client, &b, true, &[], &mut cw);
        let code = v.as_ref().and_then(|v| v["result"]["code"].as_str()).unwrap_or("000000").to_string();
        let role = *rng.pick(&["viewer", "operator", "engineer", "engineer", "admin"]);
        let b = request_bytes(40 + k, "pair.claim", admin.as_deref(), Some(&json!({"code": code, "role": role})), rng);
        let (_, v) = do_line(&w, &mut client, &b, true, &[], &mut cw);
        let id = format!("pair-{}", w.clock.load(Ordering::SeqCst));
        minted.push((id, v.as_ref().and_then(|v| v["result"]["token"].as_str()).map(str::to_string)));
        if rng.chance(1, 5) {
            w.clock.fetch_add(1, Ordering::SeqCst);
            cw.out.line("tick 1");
        }
    }
    // revoke the id of one of them
    let victim = minted[rng.below(minted.len() as u64) as usize].0.clone();
    if rng.chance(1, 3) {
        direct_revoke(&w, &victim, &mut cw);
    } else {
        let b = request_bytes(50, "pair.revoke", admin.as_deref(), Some(&json!({"id": victim})), rng);
        do_line(&w, &mut client, &b, true, &[], &mut cw);
        if rng.chance(1, 4) {
            // revoking again reports success and changes nothing
            let b = request_bytes(51, "pair.revoke", admin.as_deref(), Some(&json!({"id": victim})), rng);
            do_line(&w, &mut client, &b, true, &[], &mut cw);
        }
    }
    // every minted token is presented, the later ones first
    let mut restart_used = false;
    for (_, tok) in minted.iter().rev() {
        let auth = tok.clone().or_else(|| cred_token("wrong"));
        let (ty, params) = if restart_used {
            rng.pick(&[("status", None), ("io.read", None)]).clone()
        } else {
            rng.pick(&[("status", None), ("io.read", None), ("restart", Some(json!({"mode": "warm"}))), ("io.write", Some(json!({"address": "%IX0.1", "value": "true"})))]).clone()
        };
        if ty == "restart" || ty == "io.write" {
            restart_used = true;
        }
        let b = request_bytes(60 + rng.below(1000), ty, auth.as_deref(), params.as_ref(), rng);
        do_line(&w, &mut client, &b, true, &[], &mut cw);
    }
    claimcheck(&w, &mut cw);
    cw.nontrivial
}

fn gen_cfg(rng: &mut Rng, force: Option<(bool, bool, bool)>) -> WorldCfg {
    let (token_set, debug_enabled, debug_mode) = match force {
        Some(f) => f,
        None => (rng.bool(), rng.bool(), rng.bool()),
    };
    let token = if token_set {
        if force.is_none() && rng.chance(1, 12) {
            // a lossily decoded credential "tok\xff" equals this token
            Some("tok\u{fffd}".to_string())
        } else if rng.chance(1, 25) {
            Some(String::new())
        } else {
            Some(ADMIN_TOKEN.to_string())
        }
    } else {
        None
    };
    WorldCfg {
        token,
        requires_auth: rng.chance(1, 3),
        debug_enabled,
        debug_mode,
        pairing: !rng.chance(1, 8),
        tokens: std_tokens(),
        tcp: rng.chance(1, 10),
    }
}

/// The exhaustive part: case number -> (handler index or unknown name, credential, token set, debug on).
fn exhaustive_size(t: &Tables) -> u64 {
    ((t.handlers.len() + UNKNOWN_TYPES.len()) * CREDS.len() * 4) as u64
}

const UNKNOWN_TYPES: &[&str] = &[
    "does.not.exist",
    "",
    "Status",
    "status ",
    "config.set ",
    "CONFIG.SET",
    "pair.start\u{0}",
    "shutdown;",
    "io.write\n",
    "breakpoints",
    "debug",
];

fn garbled_line(rng: &mut Rng, t: &Tables) -> Vec<u8> {
    // only read-only request types: a mutated line that still parses must not need an effect prediction
    let ro: Vec<&HandlerInfo> = t.handlers.iter().filter(|h| h.module == "status" && h.name != "config.set").collect();
    let h = *rng.pick(&ro);
    let valid = json!({"id": rng.below(1000), "type": h.name, "auth": ADMIN_TOKEN, "params": {"mode": "warm"}});
    let mut bytes = match rng.below(21) {
        0 => b"{invalid-json".to_vec(),
        1 => Vec::new(),
        2 => b"null".to_vec(),
        3 => b"[]".to_vec(),
        4 => b"42".to_vec(),
        5 => serde_json::to_vec(&json!({"id": -1, "type": h.name})).unwrap(),
        6 => serde_json::to_vec(&json!({"id": 1.5, "type": h.name})).unwrap(),
        7 => serde_json::to_vec(&json!({"id": "1", "type": h.name})).unwrap(),
        8 => serde_json::to_vec(&json!({"id": 1, "type": 7})).unwrap(),
        9 => serde_json::to_vec(&json!({"id": 1})).unwrap(),
        10 => serde_json::to_vec(&json!({"type": h.name, "auth": ADMIN_TOKEN})).unwrap(),
        11 => serde_json::to_vec(&json!({"id": 1, "type": h.name, "auth": 5})).unwrap(),
        12 => format!("{{\"id\":18446744073709551616,\"type\":\"{}\"}}", h.name).into_bytes(),
        // bytes that are not valid UTF-8 (read_request_line decodes them lossily)
        16 => {
            // inside a string of an otherwise well-formed request: served as a normal request
            let mut b = format!("{{\"id\":{},\"type\":\"{}\",\"x\":\"", rng.below(1000), h.name).into_bytes();
            b.extend_from_slice(*rng.pick(&[&b"\xff"[..], &b"\xc0\xaf"[..], &b"\xe2\x82"[..], &b"\x80abc"[..], &b"\xed\xa0\x80"[..]]));
            b.extend_from_slice(b"\"}");
            b
        }
        17 => {
            // inside the credential: the token followed by U+FFFD is not the token
            let mut b = format!("{{\"id\":{},\"type\":\"{}\",\"auth\":\"{}", rng.below(1000), h.name, ADMIN_TOKEN).into_bytes();
            b.push(0xff);
            b.extend_from_slice(b"\"}");
            b
        }
        18 => {
            // a credential whose lossy decoding equals a configured token that contains U+FFFD itself
            let mut b = format!("{{\"id\":{},\"type\":\"{}\",\"auth\":\"tok", rng.below(1000), h.name).into_bytes();
            b.push(*rng.pick(&[0xffu8, 0x80, 0xfe]));
            b.extend_from_slice(b"\"}");
            b
        }
        19 => {
            // inside the type, or outside any string
            let mut b = format!("{{\"id\":{},\"type\":\"{}", rng.below(1000), h.name).into_bytes();
            if rng.bool() {
                b.push(0xff);
                b.extend_from_slice(b"\"}");
            } else {
                b.extend_from_slice(b"\"");
                b.extend_from_slice(*rng.pick(&[&b"\xff"[..], &b"\x80"[..], &b"\xc3"[..]]));
                b.push(b'}');
            }
            b
        }
        20 => rng.pick(&[&b"\xff\xfe"[..], &b"\x80"[..], &b"\xef\xbb\xbf{}"[..], &b"\xf0\x9f"[..]]).to_vec(),
        13 => {
            let depth = 50 + rng.below(400) as usize;
            let mut s = String::new();
            for _ in 0..depth {
                s.push('[');
            }
            s.into_bytes()
        }
        14 => match rng.below(4) {
            0 => format!("{{\"id\":1,\"type\":\"{}\",\"id\":2}}", h.name).into_bytes(),
            // serde accepts a sequence for a struct: [id, type, params, auth]
            1 => format!("[{},\"{}\",null,null]", rng.below(1000), h.name).into_bytes(),
            // oversized but well-formed (unknown members are ignored)
            2 => format!("{{\"id\":3,\"type\":\"{}\",\"pad\":\"{}\"}}", h.name, "a".repeat(100_000 + rng.below(200_000) as usize)).into_bytes(),
            // far beyond serde_json's recursion limit
            _ => "[".repeat(20_000).into_bytes(),
        },
        _ => {
            // byte-level mutation of a valid request
            let mut b = serde_json::to_vec(&valid).unwrap();
            for _ in 0..1 + rng.below(3) {
                if b.is_empty() {
                    break;
                }
                let i = rng.below(b.len() as u64) as usize;
                match rng.below(4) {
                    0 => b[i] = rng.below(256) as u8,
                    1 => {
                        b.remove(i);
                    }
                    2 => b.insert(i, rng.below(256) as u8),
                    _ => b.truncate(i.max(1)),
                }
            }
            b
        }
    };
    bytes.retain(|b| *b != b'\n');
    if rng.chance(1, 12) {
        bytes.push(b'\r');
    }
    bytes
}

fn run_case(n: u64, args: &Args, base: &mut Base, t: &Tables, out: &mut Out) {
    let mut rng = Rng::for_case(args.seed, n);
    let ex = exhaustive_size(t);
    out.line(format!("case {n}"));
    let cw_nontrivial;
    if n < ex {
        // exhaustive product: type x credential x {token set} x {debug on}
        let k = n as usize;
        let names = t.handlers.len() + UNKNOWN_TYPES.len();
        let ti = k % names;
        let ci = (k / names) % CREDS.len();
        let token_set = (k / names / CREDS.len()) % 2 == 1;
        let debug_on = (k / names / CREDS.len() / 2) % 2 == 1;
        let debug_mode = rng.bool();
        let cfg = gen_cfg(&mut rng, Some((token_set, debug_on, debug_mode)));
        let w = World::new(base, &cfg);
        world_lines(&cfg, &w, out);
        let name: String = if ti < t.handlers.len() {
            t.handlers[ti].name.clone()
        } else {
            UNKNOWN_TYPES[ti - t.handlers.len()].to_string()
        };
        let cred = CREDS[ci];
        let vs = variants_for(&name, &w, t, &mut rng);
        let pick = if rng.chance(2, 3) { 0 } else { rng.below(vs.len() as u64) as usize };
        let var = vs[pick].clone();
        out.count(&format!("variant:{}", var.tag));
        out.count(&format!("cred:{cred}"));
        let bytes = request_bytes(1 + rng.below(99999), &name, cred_token(cred).as_deref(), var.params.as_ref(), &mut rng);
        let mut client = w.connect();
        let mut cw = CaseWriter { out, nontrivial: false };
        do_line_as(&w, &mut client, &bytes, var.eff, &var.bad_keys, &mut cw, cred);
        claimcheck(&w, &mut cw);
        cw_nontrivial = cw.nontrivial;
        drop(client);
        drop(w);
    } else {
        let kind = (n - ex) % 11;
        if kind == 9 || kind == 10 {
            let nontrivial = if kind == 9 {
                boundary_scenario((n - ex) / 11, &mut rng, base, t, out)
            } else {
                same_second_scenario(&mut rng, base, out)
            };
            if nontrivial {
                out.line("tag nontrivial");
            }
            out.line("end");
            return;
        }
        let cfg = gen_cfg(&mut rng, None);
        let mut cfg = cfg;
        if kind == 8 {
            cfg.pairing = true;
            let nontrivial = reload_scenario(&mut rng, base, t, &cfg, out);
            if nontrivial {
                out.line("tag nontrivial");
            }
            out.line("end");
            return;
        }
        if kind >= 2 && kind <= 6 {
            cfg.pairing = true;
        }
        let w = World::new(base, &cfg);
        world_lines(&cfg, &w, out);
        let mut client = w.connect();
        let mut cw = CaseWriter { out, nontrivial: false };
        let rand_cred = |rng: &mut Rng| CREDS[rng.below(CREDS.len() as u64) as usize];
        let rand_target = |rng: &mut Rng, w: &World, cw: &mut CaseWriter, client: &mut Client, auth: Option<String>| {
            let h = &t.handlers[rng.below(t.handlers.len() as u64) as usize];
            let vs = variants_for(&h.name, w, t, rng);
            let var = vs[rng.below(vs.len() as u64) as usize].clone();
            let bytes = request_bytes(1 + rng.below(99999), &h.name, auth.as_deref(), var.params.as_ref(), rng);
            do_line(w, client, &bytes, var.eff, &var.bad_keys, cw);
        };
        match kind {
            0 => {
                // garbled stream on one connection (+ one valid request at the end: still served)
                cw.out.count("scenario:garbled");
                let lines = 6 + rng.below(10);
                for _ in 0..lines {
                    let b = garbled_line(&mut rng, t);
                    let (class, _) = do_line(&w, &mut client, &b, false, &[], &mut cw);
                    if class == "closed" || class == "hang" {
                        client = w.connect();
                    }
                }
                let c = rand_cred(&mut rng);
                rand_target(&mut rng, &w, &mut cw, &mut client, cred_token(c));
            }
            1 => {
                // random single requests with random variants (incl. config.set combinations)
                cw.out.count("scenario:random");
                let name = if rng.chance(1, 2) { "config.set".to_string() } else { t.handlers[rng.below(t.handlers.len() as u64) as usize].name.clone() };
                let vs = variants_for(&name, &w, t, &mut rng);
                let var = vs[rng.below(vs.len() as u64) as usize].clone();
                let c = rand_cred(&mut rng);
                let bytes = request_bytes(1 + rng.below(99999), &name, cred_token(c).as_deref(), var.params.as_ref(), &mut rng);
                do_line(&w, &mut client, &bytes, var.eff, &var.bad_keys, &mut cw);
            }
            2 => {
                // token rotation / removal, then a request with the old, the new, or no token
                cw.out.count("scenario:token-rotation");
                let newtok = rng.pick(&[json!("new-Adm1n-T0ken"), json!(null), json!(" spaced ")]).clone();
                let who = *rng.pick(&["admin", "pa", "pe", "none"]);
                let b = request_bytes(7, "config.set", cred_token(who).as_deref(), Some(&json!({"control.auth_token": newtok})), &mut rng);
                do_line(&w, &mut client, &b, true, &[], &mut cw);
                let next = rng.pick(&[Some(ADMIN_TOKEN.to_string()), Some("new-Adm1n-T0ken".to_string()), Some("spaced".to_string()), Some(" spaced ".to_string()), None, cred_token("pe")]).clone();
                rand_target(&mut rng, &w, &mut cw, &mut client, next);
            }
            3 => {
                // switch the debug gate, then a debug-class request
                cw.out.count("scenario:debug-switch");
                let who = *rng.pick(&["admin", "pa", "pe", "po", "none"]);
                let b = request_bytes(8, "config.set", cred_token(who).as_deref(), Some(&json!({"control.debug_enabled": rng.bool()})), &mut rng);
                do_line(&w, &mut client, &b, true, &[], &mut cw);
                let dbg: Vec<&HandlerInfo> = t.handlers.iter().filter(|h| h.module == "debug" || h.module == "variables").collect();
                let h = *rng.pick(&dbg);
                let vs = variants_for(&h.name, &w, t, &mut rng);
                let var = vs[0].clone();
                let c = rand_cred(&mut rng);
                let bytes = request_bytes(9, &h.name, cred_token(c).as_deref(), var.params.as_ref(), &mut rng);
                do_line(&w, &mut client, &bytes, var.eff, &var.bad_keys, &mut cw);
            }
            4 => {
                // revoke, then use the revoked token
                cw.out.count("scenario:revoke");
                let who = *rng.pick(&["admin", "pa", "pe", "none"]);
                let id = *rng.pick(&["pair-e", "all", "pair-o", "pair-a"]);
                let b = request_bytes(10, "pair.revoke", cred_token(who).as_deref(), Some(&json!({"id": id})), &mut rng);
                do_line(&w, &mut client, &b, true, &[], &mut cw);
                let c = *rng.pick(&["pe", "po", "pa", "pv"]);
                rand_target(&mut rng, &w, &mut cw, &mut client, cred_token(c));
            }
            5 => {
                // full pairing flow: start -> claim(role) -> use the minted token
                cw.out.count("scenario:pair-flow");
                let who = *rng.pick(&["admin", "pa", "admin", "pe"]);
                let b = request_bytes(11, "pair.start", cred_token(who).as_deref(), None, &mut rng);
                let (_, v) = do_line(&w, &mut client, &b, true, &[], &mut cw);
                let code = v
                    .as_ref()
                    .and_then(|v| v["result"]["code"].as_str())
                    .map(str::to_string)
                    .or_else(|| w.pending_code.as_ref().map(|c| c.0.clone()))
                    .unwrap_or_default();
                if rng.chance(1, 4) {
                    let dt = *rng.pick(&[299u64, 300, 301, 1000]);
                    w.clock.fetch_add(dt, Ordering::SeqCst);
                    cw.out.line(format!("tick {dt}"));
                }
                let claimer = *rng.pick(&["po", "pe", "admin", "pv", "none"]);
                let role = *rng.pick(&["viewer", "operator", "engineer", "admin", "Admin"]);
                let b = request_bytes(12, "pair.claim", cred_token(claimer).as_deref(), Some(&json!({"code": code, "role": role})), &mut rng);
                let (_, v) = do_line(&w, &mut client, &b, true, &[], &mut cw);
                let minted = v.as_ref().and_then(|v| v["result"]["token"].as_str()).map(str::to_string);
                let auth = minted.or_else(|| cred_token("wrong"));
                if rng.chance(1, 2) {
                    // what did the minted token really get?  an admin-only, an engineer-only, an operator-only request
                    let (ty, params) = rng
                        .pick(&[("pair.list", None), ("io.read", None), ("restart", Some(json!({"mode": "warm"}))), ("shutdown", None)])
                        .clone();
                    let b = request_bytes(14, ty, auth.as_deref(), params.as_ref(), &mut rng);
                    do_line(&w, &mut client, &b, true, &[], &mut cw);
                } else {
                    rand_target(&mut rng, &w, &mut cw, &mut client, auth);
                }
            }
            6 => {
                // expiry of pairing tokens and of the pending code
                cw.out.count("scenario:expiry");
                let dt = *rng.pick(&[0u64, 1, 299, 300, 301, 4999, 5000, 5001]);
                w.clock.fetch_add(dt, Ordering::SeqCst);
                cw.out.line(format!("tick {dt}"));
                let c = *rng.pick(&["pe", "boundary", "po", "pa", "expired"]);
                rand_target(&mut rng, &w, &mut cw, &mut client, cred_token(c));
            }
            _ => {
                // two requests on the same connection by different principals: the second is judged
                // by its own credential (its type is chosen so that its effect stays visible)
                cw.out.count("scenario:pair-of-requests");
                let c1 = rand_cred(&mut rng);
                let h = &t.handlers[rng.below(t.handlers.len() as u64) as usize];
                let vs = variants_for(&h.name, &w, t, &mut rng);
                let var = vs[rng.below(vs.len() as u64) as usize].clone();
                let bytes = request_bytes(1 + rng.below(99999), &h.name, cred_token(c1).as_deref(), var.params.as_ref(), &mut rng);
                do_line(&w, &mut client, &bytes, var.eff, &var.bad_keys, &mut cw);
                let c2 = rand_cred(&mut rng);
                let b = if h.name == "restart" {
                    request_bytes(13, "shutdown", cred_token(c2).as_deref(), None, &mut rng)
                } else {
                    request_bytes(13, "restart", cred_token(c2).as_deref(), Some(&json!({"mode": "cold"})), &mut rng)
                };
                do_line(&w, &mut client, &b, true, &[], &mut cw);
            }
        }
        claimcheck(&w, &mut cw);
        cw_nontrivial = cw.nontrivial;
        drop(client);
        drop(w);
    }
    if cw_nontrivial {
        out.line("tag nontrivial");
    }
    out.line("end");
}


/// Corpus: the witnesses of the recorded (now fixed) findings, replayed against the real server on every
/// run; `checks/c18.py` compares what is observed with what the fixed code answers, so a regression is a
/// failing input.  Time-outs are generous: only a real hang runs into them.
fn replay_findings(base: &mut Base, out: &mut Out) {
    let wait = Duration::from_secs(60);
    // (1) C18-nonutf8-line-no-reply (fixed in 2c1da06): a line that is not valid UTF-8 used to end the
    //     connection without a reply.  Now: decoded lossily, answered, and the connection goes on.
    {
        let cfg = WorldCfg { token: None, requires_auth: false, debug_enabled: true, debug_mode: false, pairing: false, tokens: vec![], tcp: false };
        let w = World::new(base, &cfg);
        let mut c = w.connect_with_timeout(wait);
        // invalid byte inside a string of an otherwise valid request: served
        let r = c.send(b"{\"id\":1,\"type\":\"status\",\"x\":\"\xff\"}");
        out.count(&format!("finding:nonutf8-line:{}", classify_reply(&r).0.replace(' ', "_")));
        // invalid byte outside any string: error reply, on the SAME connection
        let r = c.send(b"{\"id\":4,\"type\":\"status\"\xff}");
        out.count(&format!("finding:nonutf8-line-bare:{}", classify_reply(&r).0.replace(' ', "_")));
        // and the connection still serves requests
        let r = c.send(b"{\"id\":5,\"type\":\"health\"}");
        out.count(&format!("finding:nonutf8-line-then-health:{}", classify_reply(&r).0.replace(' ', "_")));
    }
    // (2) C18-debug-evaluate-self-deadlock (fixed in 92b3089): handle_debug_evaluate held the metadata
    //     lock while evaluate_with_snapshot locked it again.
    {
        let cfg = WorldCfg { token: None, requires_auth: false, debug_enabled: true, debug_mode: true, pairing: false, tokens: vec![], tcp: false };
        let w = World::new(base, &cfg);
        let mut c = w.connect_with_timeout(wait);
        let r = c.send(b"{\"id\":2,\"type\":\"debug.evaluate\",\"params\":{\"expression\":\"1 + 1\"}}");
        let (class, v) = classify_reply(&r);
        out.count(&format!("finding:debug-evaluate:{}", class.replace(' ', "_")));
        let result = v.as_ref().and_then(|v| v["result"]["result"].as_str()).unwrap_or("-").to_string();
        out.count(&format!("finding:debug-evaluate-result:{}", result.replace(' ', "_")));
        // the metadata lock is free again (hmi.schema.get needs it)
        let mut c2 = w.connect_with_timeout(wait);
        let r2 = c2.send(b"{\"id\":3,\"type\":\"hmi.schema.get\"}");
        out.count(&format!("finding:debug-evaluate-then-schema:{}", classify_reply(&r2).0.replace(' ', "_")));
        let free = w.state.metadata.try_lock().is_ok();
        out.count(&format!("finding:debug-evaluate-metadata-lock-free:{free}"));
    }
    // (3) witnesses that can abort the process: each in a child process of its own
    let probe = |line: &str| -> String {
        let exe = std::env::current_exe().expect("own path");
        let tables = TABLES_PATH.lock().unwrap().clone();
        match std::process::Command::new(exe).args(["c18", "--tables", &tables, "--probe-child", &hex(line.as_bytes())]).output() {
            Ok(o) if o.status.success() => String::from_utf8_lossy(&o.stdout).trim().replace(' ', "_"),
            Ok(_) => "crash".to_string(),
            Err(_) => "probe-failed".to_string(),
        }
    };
    // C18-debug-evaluate-stack-overflow: a 400-byte expression overflows the 2 MB stack of the connection thread
    let expr = format!("1{}", "+1".repeat(200));
    let r = probe(&format!("{{\"id\":6,\"type\":\"debug.evaluate\",\"params\":{{\"expression\":\"{expr}\"}}}}"));
    out.count(&format!("finding:debug-evaluate-deep:{r}"));
    for (name, expr) in [
        ("parens", format!("{}1{}", "(".repeat(400), ")".repeat(400))),
        ("nots", format!("{}TRUE", "NOT ".repeat(300))),
        ("chain-long", format!("1{}", "+1".repeat(20000))),
        ("fields", format!("a{}", ".b".repeat(2000))),
        ("depth-65", format!("1{}", "+1".repeat(65))),
    ] {
        let r = probe(&format!("{{\"id\":6,\"type\":\"debug.evaluate\",\"params\":{{\"expression\":\"{expr}\"}}}}"));
        out.count(&format!("finding:debug-evaluate-deep-{name}:{r}"));
    }
    // the whole family: every recursive expression form, bare and inside each wrapper that starts a new syntactic
    // context (call argument, second call argument, index, parenthesis, operand), beyond the depth bound
    let shapes: [(&str, fn(usize) -> String); 7] = [
        ("chain", |n| format!("1{}", "+1".repeat(n))),
        ("parens", |n| format!("{}1{}", "(".repeat(n), ")".repeat(n))),
        ("nots", |n| format!("{}TRUE", "NOT ".repeat(n))),
        ("fields", |n| format!("a{}", ".b".repeat(n))),
        ("index", |n| format!("a{}", "[1]".repeat(n))),
        ("calls", |n| format!("{}1{}", "ABS(".repeat(n), ")".repeat(n))),
        ("neg", |n| format!("{}1", "-".repeat(n))),
    ];
    let wrappers: [(&str, &str, &str); 6] = [
        ("bare", "", ""),
        ("call-arg", "ABS(", ")"),
        ("call-arg2", "LIMIT(0, ", ", 1)"),
        ("named-arg", "ABS(IN := ", ")"),
        ("index", "a[", "]"),
        ("operand", "1 + (", ")"),
    ];
    let mut failed = 0;
    for (sname, shape) in shapes.iter() {
        for (wname, pre, post) in wrappers.iter() {
            for n in [250usize, 1200] {
                let expr = format!("{pre}{}{post}", shape(n));
                if expr.len() > 4096 {
                    continue;
                }
                let r = probe(&format!("{{\"id\":6,\"type\":\"debug.evaluate\",\"params\":{{\"expression\":\"{expr}\"}}}}"));
                if r != "id=6_handled" {
                    failed += 1;
                    out.count(&format!("finding:debug-evaluate-family-fail:{sname}/{wname}/{n}:{r}"));
                }
            }
        }
    }
    if failed == 0 {
        out.count("finding:debug-evaluate-family:all-handled");
    }
    // C18-config-duration-overflow: Duration::from_millis(millis * 1_000_000) overflows i64
    let r = probe("{\"id\":7,\"type\":\"config.set\",\"params\":{\"watchdog.timeout_ms\":9223372036855}}");
    out.count(&format!("finding:config-duration-overflow:{r}"));
}

static TABLES_PATH: Mutex<String> = Mutex::new(String::new());

/// Child process: run the cases of one slice, streaming every line to `args.out`.
fn run_child(args: &Args, t: &Tables, numbers: &[u64], slice: usize, nslices: usize, from: usize) -> i32 {
    let limit_mb = args.extra_usize("aslimit-mb", 4096) as u64;
    unsafe {
        // a request that makes the server ask for absurd amounts of memory must fail to get it (and abort
        // this child, which the parent observes) instead of exhausting the machine
        let lim = libc::rlimit {
            rlim_cur: limit_mb * 1024 * 1024,
            rlim_max: limit_mb * 1024 * 1024,
        };
        libc::setrlimit(libc::RLIMIT_AS, &lim);
    }
    let file = std::fs::File::create(&args.out).expect("child output");
    *STREAM.lock().unwrap() = Some((file, 0));
    let mut base = Base::new();
    for (i, n) in numbers.iter().enumerate() {
        if i < from || i % nslices != slice {
            continue;
        }
        let mut o = Out::new();
        stream_begin();
        run_case(*n, args, &mut base, t, &mut o);
        let stats = serde_json::to_string(&o.stats).unwrap();
        stream_sync(&o.buf, &format!("#stats {stats}"));
    }
    0
}

struct ChildResult {
    cases: BTreeMap<u64, String>,
    stats: BTreeMap<String, u64>,
    /// case number that was running when the child died
    crashed_in: Option<u64>,
}

fn parse_child_file(path: &str) -> ChildResult {
    let text = String::from_utf8_lossy(&std::fs::read(path).unwrap_or_default()).to_string();
    let mut res = ChildResult { cases: BTreeMap::new(), stats: BTreeMap::new(), crashed_in: None };
    let mut cur: Option<(u64, String)> = None;
    let mut pending: Option<String> = None;
    for line in text.lines() {
        if let Some(rest) = line.strip_prefix("#pending ") {
            pending = Some(rest.to_string());
        } else if let Some(rest) = line.strip_prefix("#stats ") {
            if let Ok(m) = serde_json::from_str::<BTreeMap<String, u64>>(rest) {
                for (k, v) in m {
                    *res.stats.entry(k).or_insert(0) += v;
                }
            }
        } else if let Some(rest) = line.strip_prefix("case ") {
            cur = Some((rest.trim().parse().unwrap_or(0), format!("{line}\n")));
            pending = None;
        } else if let Some((n, buf)) = cur.as_mut() {
            buf.push_str(line);
            buf.push('\n');
            if line.starts_with("req ") || line.starts_with("line ") {
                pending = None;
            }
            if line == "end" {
                res.cases.insert(*n, std::mem::take(buf));
                cur = None;
            }
        }
    }
    if let Some((n, mut buf)) = cur {
        // the child died inside this case: the request in flight never got a reply
        if let Some(op) = pending {
            buf.push_str(&op);
            buf.push('\n');
            buf.push_str("impl crash fx=-\n");
        }
        buf.push_str("tag nontrivial\ntag crash\nend\n");
        res.cases.insert(n, buf);
        res.crashed_in = Some(n);
        *res.stats.entry("reply:crash".into()).or_insert(0) += 1;
    }
    res
}

pub fn run(args: &Args) -> i32 {
    let tables_path = args.extra.get("tables").cloned().unwrap_or_else(|| "C18.tables.json".into());
    let t = load_tables(&tables_path);
    *TABLES_PATH.lock().unwrap() = tables_path.clone();
    let ex = exhaustive_size(&t);
    let numbers: Vec<u64> = match args.only {
        Some(n) => vec![n],
        None => (0..ex + args.cases).collect(),
    };
    if let Some(hexline) = args.extra.get("probe-child") {
        // one line against a fresh world (no token, debug on, debug mode): prints the reply class
        let mut base = Base::new();
        let cfg = WorldCfg { token: None, requires_auth: false, debug_enabled: true, debug_mode: true, pairing: false, tokens: vec![], tcp: false };
        let w = World::new(&mut base, &cfg);
        let mut c = w.connect();
        let r = c.send(&crate::util::unhex(hexline));
        println!("{}", classify_reply(&r).0);
        return 0;
    }
    if let Some(hexline) = args.extra.get("probe") {
        // the same in a child process, so that a process abort is an observation
        let exe = std::env::current_exe().expect("own path");
        let outp = std::process::Command::new(exe)
            .args(["c18", "--tables", &tables_path, "--probe-child", hexline])
            .output()
            .expect("probe child");
        let err = String::from_utf8_lossy(&outp.stderr);
        println!(
            "probe: {} ({}) {}",
            if outp.status.success() { String::from_utf8_lossy(&outp.stdout).trim().to_string() } else { "crash".to_string() },
            outp.status,
            err.lines().rev().take(3).collect::<Vec<_>>().join(" | ")
        );
        return 0;
    }
    if let Some(spec) = args.extra.get("child") {
        let mut it = spec.split('/');
        let slice: usize = it.next().and_then(|x| x.parse().ok()).unwrap_or(0);
        let nslices: usize = it.next().and_then(|x| x.parse().ok()).unwrap_or(1);
        return run_child(args, &t, &numbers, slice, nslices, args.extra_usize("child-from", 0));
    }
    let mut out = Out::new();
    let started = std::time::Instant::now();
    // Cases are independent (own world, own RNG stream).  They run in a few CHILD PROCESSES (with an address
    // space limit), so that a request that aborts the server's process is an observation, not the end of
    // the run: the parent notes which request was in flight and starts a new child after the dead one.
    let nslices = if args.only.is_some() { 1 } else { args.extra_usize("threads", 4).max(1) };
    let exe = std::env::current_exe().expect("own path");
    let mut all: BTreeMap<u64, String> = BTreeMap::new();
    let mut children: Vec<(usize, usize, std::process::Child, String)> = Vec::new();
    let spawn = |slice: usize, from: usize, attempt: usize| -> (std::process::Child, String) {
        let path = format!("{}.child{slice}.{attempt}", args.out);
        let mut cmd = std::process::Command::new(&exe);
        cmd.arg("c18")
            .args(["--seed", &args.seed.to_string(), "--cases", &args.cases.to_string(), "--out", &path])
            .args(["--tables", &tables_path, "--child", &format!("{slice}/{nslices}"), "--child-from", &from.to_string()]);
        if let Some(n) = args.only {
            cmd.args(["--only", &n.to_string()]);
        }
        if let Some(mb) = args.extra.get("aslimit-mb") {
            cmd.args(["--aslimit-mb", mb]);
        }
        let err = std::fs::File::create(format!("{path}.stderr")).expect("child stderr");
        cmd.stderr(err);
        (cmd.spawn().expect("spawn child"), path)
    };
    for slice in 0..nslices {
        let (c, path) = spawn(slice, 0, 0);
        children.push((slice, 0, c, path));
    }
    let mut harness_failure = false;
    while let Some((slice, attempt, mut child, path)) = children.pop() {
        let pid = child.id();
        let status = child.wait().expect("wait child");
        if !status.success() {
            // a dead child leaves its worlds behind
            for tmp in ["/dev/shm", "/tmp"] {
                if let Ok(rd) = std::fs::read_dir(tmp) {
                    for e in rd.flatten() {
                        if e.file_name().to_string_lossy().starts_with(&format!("vh-c18-{pid}-")) {
                            let _ = std::fs::remove_dir_all(e.path());
                        }
                    }
                }
            }
        }
        let res = parse_child_file(&path);
        for (k, v) in &res.stats {
            out.add(k, *v);
        }
        let crashed = res.crashed_in;
        all.extend(res.cases);
        let stderr_tail: String = std::fs::read_to_string(format!("{path}.stderr"))
            .unwrap_or_default()
            .lines()
            .rev()
            .take(6)
            .collect::<Vec<_>>()
            .join(" | ");
        let _ = std::fs::remove_file(&path);
        let _ = std::fs::remove_file(format!("{path}.stderr"));
        if !status.success() {
            match crashed {
                Some(n) => {
                    out.count("child-process-died");
                    eprintln!("c18: child {slice} died in case {n} ({status}): {stderr_tail}");
                    // carry on after the case that killed it
                    let idx = numbers.iter().position(|x| *x == n).unwrap_or(numbers.len());
                    if attempt < 200 && idx + 1 < numbers.len() {
                        let (c, p) = spawn(slice, idx + 1, attempt + 1);
                        children.push((slice, attempt + 1, c, p));
                    }
                }
                None => {
                    eprintln!("c18: child {slice} failed outside a case ({status}): {stderr_tail}");
                    harness_failure = true;
                }
            }
        }
    }
    for (_, text) in &all {
        out.buf.push_str(text);
    }
    if harness_failure || (args.only.is_none() && all.len() != numbers.len()) {
        eprintln!("c18: {} of {} cases produced", all.len(), numbers.len());
        out.finish(&args.out);
        return 3;
    }
    let mut base = Base::new();
    if args.only.is_none() {
        replay_findings(&mut base, &mut out);
    }
    out.add("exhaustive-cases", ex);
    out.add("wall-ms", started.elapsed().as_millis() as u64);
    out.add("open-fds-at-end", open_fds().len() as u64);
    out.add("threads-at-end", std::fs::read_dir("/proc/self/task").map(|d| d.count()).unwrap_or(0) as u64);
    out.add("t-world-ms", T_WORLD_US.load(Ordering::Relaxed) / 1000);
    out.add("t-probes-ms", T_PROBE_US.load(Ordering::Relaxed) / 1000);
    out.add("t-send-ms", T_SEND_US.load(Ordering::Relaxed) / 1000);
    out.finish(&args.out);
    0
}
