//! C19 — web IDE file API: confinement to the project directory, gates before effects, and the
//! optimistic-concurrency (document version) protocol.
//!
//! Every case builds a sentinel directory tree `<base>/{out, ws/proj, ...}` with outside files,
//! hidden entries and symbolic links (directory and file links, pointing in, out, at hidden
//! entries, dangling, looping), creates a real `WebIdeState` on the project inside it and drives
//! the public API.  After every operation the *whole* sentinel tree is snapshotted; the
//! implementation's answer plus the tree diff is what the Lean model must reproduce.  Independently
//! of the model, oracles evaluate the property's own statement on the implementation
//! (`# ORACLE-FAIL` lines): no change outside the root / on hidden entries, no change by a
//! session that is not a live editor or with writes disabled, no sentinel content in any answer,
//! and no lost update for honest writers.

use crate::rng::Rng;
use crate::util::{hex, Out};
use crate::Args;
use std::collections::{BTreeMap, HashMap};
use std::panic::{catch_unwind, AssertUnwindSafe};
use std::path::{Path, PathBuf};
use std::sync::atomic::{AtomicU64, Ordering};
use std::sync::Arc;
use trust_runtime::web::ide::{IdeError, IdeErrorKind, IdeRole, IdeTreeNode, WebIdeState};
use trust_wasm_analysis::Position;

const TTL: u64 = 15 * 60;
const MAX_FILE_BYTES: usize = 256 * 1024;
const MARK_OUT: &str = "ZZOUT";
const MARK_HID: &str = "ZZHID";

// ------------------------------------------------------------------------------------------
// snapshots of the sentinel tree
// ------------------------------------------------------------------------------------------

#[derive(Clone, Debug, PartialEq, Eq)]
enum Node {
    Dir,
    File(String),
    Link(Vec<String>),
}

type Snap = BTreeMap<Vec<String>, Node>;

fn snapshot(base: &Path) -> Snap {
    fn walk(base: &Path, dir: &Path, rel: &mut Vec<String>, out: &mut Snap) {
        let Ok(rd) = std::fs::read_dir(dir) else { return };
        for e in rd.flatten() {
            let name = e.file_name().to_string_lossy().to_string();
            let p = e.path();
            let Ok(meta) = std::fs::symlink_metadata(&p) else { continue };
            rel.push(name);
            if meta.file_type().is_symlink() {
                let t = std::fs::read_link(&p).unwrap_or_default();
                let comps = match t.strip_prefix(base) {
                    Ok(r) => r
                        .components()
                        .map(|c| c.as_os_str().to_string_lossy().to_string())
                        .collect(),
                    Err(_) => vec![format!("<outside-base:{}>", t.display())],
                };
                out.insert(rel.clone(), Node::Link(comps));
            } else if meta.is_dir() {
                out.insert(rel.clone(), Node::Dir);
                walk(base, &p, rel, out);
            } else {
                let bytes = std::fs::read(&p).unwrap_or_default();
                out.insert(rel.clone(), Node::File(String::from_utf8_lossy(&bytes).to_string()));
            }
            rel.pop();
        }
    }
    let mut out = Snap::new();
    walk(base, base, &mut Vec::new(), &mut out);
    out
}

fn enc_content(s: &str) -> String {
    let b = s.as_bytes();
    if b.is_empty() {
        return "-".into();
    }
    if b.len() > 64 && b[0] < 128 && b.iter().all(|x| *x == b[0]) {
        return format!("r{}x{:02x}", b.len(), b[0]);
    }
    hex(b)
}

fn render_path(p: &[String]) -> String {
    if p.is_empty() {
        ".".into()
    } else {
        p.iter().map(|c| hex(c.as_bytes())).collect::<Vec<_>>().join("/")
    }
}

fn render_node(p: &[String], n: &Node) -> String {
    match n {
        Node::Dir => format!("d:{}", render_path(p)),
        Node::File(c) => format!("f:{}:{}", render_path(p), enc_content(c)),
        Node::Link(t) => format!("l:{}:{}", render_path(p), render_path(t)),
    }
}

/// (rendered diff, changed physical paths with removed?/added? flag)
fn diff(a: &Snap, b: &Snap) -> (String, Vec<(Vec<String>, bool)>) {
    let mut items: BTreeMap<String, String> = BTreeMap::new();
    let mut changed = Vec::new();
    for (k, _) in a {
        if !b.contains_key(k) {
            items.insert(render_path(k), format!("-:{}", render_path(k)));
            changed.push((k.clone(), true));
        }
    }
    for (k, n) in b {
        if a.get(k) != Some(n) {
            items.insert(render_path(k), format!("+{}", render_node(k, n)));
            changed.push((k.clone(), false));
        }
    }
    if items.is_empty() {
        ("-".into(), changed)
    } else {
        (items.into_values().collect::<Vec<_>>().join(","), changed)
    }
}

fn dump(a: &Snap) -> String {
    let items: BTreeMap<String, String> =
        a.iter().map(|(k, n)| (render_path(k), render_node(k, n))).collect();
    if items.is_empty() {
        "-".into()
    } else {
        items.into_values().collect::<Vec<_>>().join(",")
    }
}

// ------------------------------------------------------------------------------------------
// the world of one case
// ------------------------------------------------------------------------------------------

struct World {
    base: PathBuf,
    /// physical components of the project root below the base
    root_phys: Vec<String>,
    state: WebIdeState,
    clock: Arc<AtomicU64>,
    tokens: Vec<String>,
    /// harness-side over-approximation of liveness (renewed at every use)
    expires: Vec<u64>,
    editor: Vec<bool>,
    snap: Snap,
    /// snapshots handed to (token, key): version -> (content, physical file at issue time,
    /// external: the harness itself rewrote the file afterwards)
    issued: HashMap<(usize, String), BTreeMap<u64, (String, Vec<String>, bool)>>,
    /// operation counter and, per issued snapshot, the counter value at issue time
    seq: u64,
    issue_seq: HashMap<(usize, String, u64), u64>,
    /// true history of every physical file: (seq, content) of the initial content and of every
    /// change made through the API (the harness's own stale-read emulation is not history)
    hist: HashMap<Vec<String>, Vec<(u64, String)>>,
    /// successful API writes per physical file: (seq, document key they went through)
    writes: HashMap<Vec<String>, Vec<(u64, String)>>,
    /// did the last API operation write its file (apply_source succeeded)?
    last_write_ok: bool,
    oracle_failures: u64,
}

fn kind_name(k: IdeErrorKind) -> &'static str {
    match k {
        IdeErrorKind::Unauthorized => "unauthorized",
        IdeErrorKind::Forbidden => "forbidden",
        IdeErrorKind::NotFound => "notfound",
        IdeErrorKind::Conflict => "conflict",
        IdeErrorKind::InvalidInput => "invalid",
        IdeErrorKind::TooLarge => "toolarge",
        IdeErrorKind::LimitExceeded => "limit",
        IdeErrorKind::Internal => "internal",
    }
}

fn err_str(e: &IdeError) -> String {
    match e.current_version() {
        Some(v) => format!("err {} {v}", kind_name(e.kind())),
        None => format!("err {}", kind_name(e.kind())),
    }
}

fn b01(b: bool) -> &'static str {
    if b {
        "1"
    } else {
        "0"
    }
}

fn json_escape(s: &str) -> String {
    serde_json::to_string(s).unwrap_or_else(|_| "\"?\"".into())
}

impl World {
    fn token(&self, idx: usize) -> String {
        self.tokens.get(idx).cloned().unwrap_or_else(|| format!("bogus-token-{idx}"))
    }

    fn now(&self) -> u64 {
        self.clock.load(Ordering::SeqCst)
    }

    /// Over-approximation: was this token created as an editor and could it still be alive?
    fn maybe_live_editor(&mut self, idx: usize) -> bool {
        let now = self.now();
        if idx >= self.tokens.len() {
            return false;
        }
        let live = self.expires[idx] > now;
        if live {
            self.expires[idx] = now + TTL; // assume renewal (keeps the oracle free of false alarms)
        }
        live && self.editor[idx]
    }

    fn root_abs(&self) -> PathBuf {
        let mut p = self.base.clone();
        for c in &self.root_phys {
            p.push(c);
        }
        p
    }

    fn oracle_fail(&mut self, out: &mut Out, n: u64, class: &str, op: &str, detail: &str) {
        self.oracle_failures += 1;
        out.count(&format!("oracle_fail_{class}"));
        out.line(format!(
            "# ORACLE-FAIL {{\"case\": {n}, \"class\": {}, \"op\": {}, \"detail\": {}}}",
            json_escape(class),
            json_escape(op),
            json_escape(detail)
        ));
    }

    /// O1 (confinement / hidden) and O2 (authorisation) on the tree diff of one operation.
    fn check_diff(
        &mut self,
        out: &mut Out,
        n: u64,
        op: &str,
        changed: &[(Vec<String>, bool)],
        may_mutate: bool,
        subtrees: &[Vec<String>],
    ) {
        if changed.is_empty() {
            return;
        }
        if !may_mutate {
            let detail = format!("changed {:?}", changed.iter().map(|c| c.0.join("/")).collect::<Vec<_>>());
            self.oracle_fail(out, n, "unauthorised-mutation", op, &detail);
        }
        let root = self.root_phys.clone();
        let changed_set: std::collections::BTreeSet<Vec<String>> =
            changed.iter().map(|c| c.0.clone()).collect();
        for (p, _) in changed {
            if p.len() <= root.len() || p[..root.len()] != root[..] {
                self.oracle_fail(out, n, "outside-root", op, &p.join("/"));
                continue;
            }
            let rel = &p[root.len()..];
            if let Some(first_hidden) = rel.iter().position(|c| c.starts_with('.')) {
                // a hidden entry may only change as part of a removed / moved visible ancestor
                // (or of the visible directory the operation deleted / moved as a whole)
                let visible_prefix = &p[..root.len() + first_hidden];
                let in_subtree = subtrees.iter().any(|s| {
                    s.len() > root.len()
                        && s.len() <= visible_prefix.len()
                        && visible_prefix[..s.len()] == s[..]
                        && !s[root.len()..].iter().any(|c| c.starts_with('.'))
                });
                if first_hidden == 0 || !(changed_set.contains(visible_prefix) || in_subtree) {
                    self.oracle_fail(out, n, "hidden-entry", op, &p.join("/"));
                }
            }
        }
    }

    /// O3: no sentinel content of outside / hidden files in any answer.
    fn check_leak(&mut self, out: &mut Out, n: u64, op: &str, answer_text: &str) {
        if answer_text.contains(MARK_OUT) {
            self.oracle_fail(out, n, "outside-content-returned", op, "");
        }
        if answer_text.contains(MARK_HID) {
            self.oracle_fail(out, n, "hidden-content-returned", op, "");
        }
    }

    /// physical file that `<root>/<key>` names right now (for tainting), if any
    fn physical_of(&self, key: &str) -> Option<Vec<String>> {
        let p = self.root_abs().join(key);
        let c = p.canonicalize().ok()?;
        let r = c.strip_prefix(&self.base).ok()?;
        Some(r.components().map(|c| c.as_os_str().to_string_lossy().to_string()).collect())
    }
}

/// display names (backslashes shown as '/') of the visible entries physically below the root:
/// regular files, and directories if `dirs`; links and everything hidden or below a hidden
/// directory are not part of the workspace
fn visible_names(snap: &Snap, root: &[String], dirs: bool) -> std::collections::BTreeSet<String> {
    snap.iter()
        .filter(|(k, node)| {
            k.len() > root.len()
                && k[..root.len()] == root[..]
                && !k[root.len()..].iter().any(|c| c.starts_with('.'))
                && match node {
                    Node::File(_) => true,
                    Node::Dir => dirs,
                    Node::Link(_) => false,
                }
        })
        .map(|(k, _)| k[root.len()..].join("/").replace('\\', "/"))
        .collect()
}

fn flatten_tree(nodes: &[IdeTreeNode], out: &mut Vec<String>) {
    for n in nodes {
        let tag = if n.kind == "directory" { "d" } else { "f" };
        out.push(format!("{tag}:{}", hex(n.path.as_bytes())));
        flatten_tree(&n.children, out);
    }
}

fn list_or_dash(v: Vec<String>) -> String {
    if v.is_empty() {
        "-".into()
    } else {
        v.join(",")
    }
}

// ------------------------------------------------------------------------------------------
// operations
// ------------------------------------------------------------------------------------------

#[derive(Clone, Debug)]
enum Op {
    Clock(u64),
    Session(bool),
    Open { tok: usize, path: String },
    Apply { tok: usize, path: String, expected: u64, content: String, we: bool, honest: bool, true_disk: Option<String> },
    Create { tok: usize, path: String, is_dir: bool, content: Option<String>, we: bool },
    Rename { tok: usize, path: String, new: String, we: bool },
    Delete { tok: usize, path: String, we: bool },
    List { tok: usize },
    Tree { tok: usize },
    Search { tok: usize, query: String, limit: usize },
    Format { tok: usize, path: String, content: Option<String> },
    Health { tok: usize },
    /// the harness writes the file itself; with `only_if` = the restore step of a stale-read
    /// emulation: performed only while the file still holds that (stale) content
    XWrite { phys: Vec<String>, content: String, only_if: Option<String> },
    Snap,
}

fn opt_content(c: &Option<String>) -> String {
    match c {
        Some(c) => enc_content(c),
        None => "none".into(),
    }
}

fn op_line(op: &Op) -> String {
    match op {
        Op::Clock(t) => format!("clock {t}"),
        Op::Session(e) => format!("session {}", b01(*e)),
        Op::Open { tok, path } => format!("open {tok} {}", hex(path.as_bytes())),
        Op::Apply { tok, path, expected, content, we, .. } => format!(
            "apply {tok} {} {expected} {} {}",
            hex(path.as_bytes()),
            enc_content(content),
            b01(*we)
        ),
        Op::Create { tok, path, is_dir, content, we } => format!(
            "create {tok} {} {} {} {}",
            hex(path.as_bytes()),
            b01(*is_dir),
            opt_content(content),
            b01(*we)
        ),
        Op::Rename { tok, path, new, we } => {
            format!("rename {tok} {} {} {}", hex(path.as_bytes()), hex(new.as_bytes()), b01(*we))
        }
        Op::Delete { tok, path, we } => format!("delete {tok} {} {}", hex(path.as_bytes()), b01(*we)),
        Op::List { tok } => format!("list {tok}"),
        Op::Tree { tok } => format!("tree {tok}"),
        Op::Search { tok, query, limit } => format!("search {tok} {} {limit}", hex(query.as_bytes())),
        Op::Format { tok, path, content } => {
            format!("format {tok} {} {}", hex(path.as_bytes()), opt_content(content))
        }
        Op::Health { tok } => format!("health {tok}"),
        Op::XWrite { phys, content, .. } => format!("xwrite {} {}", render_path(phys), enc_content(content)),
        Op::Snap => "snap".into(),
    }
}

/// Runs one operation on the implementation; writes the op line, the `impl` line and oracle lines.
fn exec(w: &mut World, op: &Op, n: u64, out: &mut Out) {
    if let Op::XWrite { phys, only_if: Some(stale), .. } = op {
        // restore step: if the emulated operation wrote the file there is nothing to put back
        if w.last_write_ok || !matches!(w.snap.get(phys), Some(Node::File(c)) if c == stale) {
            return;
        }
    }
    let line = op_line(op);
    out.line(&line);
    match op {
        Op::Clock(t) => {
            w.clock.store(*t, Ordering::SeqCst);
            return;
        }
        Op::XWrite { phys, content, .. } => {
            let mut p = w.base.clone();
            for c in phys {
                p.push(c);
            }
            std::fs::write(&p, content).expect("xwrite");
            w.snap = snapshot(&w.base);
            // the no-lost-update clause speaks about writes through the API only: snapshots of a
            // file the harness rewrote itself (external change / emulated stale read) are not
            // judged by the lost-update oracle (the model comparison still covers them)
            // A stale read is emulated faithfully when the content is one the file really had
            // (taken from its history): then the emulated schedule is a real interleaving.
            let faithful = w.hist.get(phys).is_some_and(|h| h.iter().any(|(_, c)| c == content));
            if !faithful {
                for snaps in w.issued.values_mut() {
                    for (_, (_, f, external)) in snaps.iter_mut() {
                        if f == phys {
                            *external = true;
                        }
                    }
                }
            }
            return;
        }
        Op::Snap => {
            out.line(format!("impl {}", dump(&w.snap)));
            return;
        }
        _ => {}
    }
    let before = w.snap.clone();
    let mut may_mutate = false;
    let mut leak_text = String::new();
    // every use of a token may renew it (sliding TTL): renew on every operation, so that the
    // harness-side liveness over-approximates the implementation's
    let live_editor = match op {
        Op::Open { tok, .. } | Op::Apply { tok, .. } | Op::Create { tok, .. } | Op::Rename { tok, .. }
        | Op::Delete { tok, .. } | Op::List { tok } | Op::Tree { tok } | Op::Search { tok, .. }
        | Op::Format { tok, .. } | Op::Health { tok } => w.maybe_live_editor(*tok),
        _ => false,
    };
    // physical directories a delete / rename acts on as a whole (hidden descendants go with them)
    let mut subtrees: Vec<Vec<String>> = Vec::new();
    if let Op::Delete { path, .. } | Op::Rename { path, .. } = op {
        if let Some(p) = w.physical_of(path.trim()) {
            subtrees.push(p);
        }
    }
    // values needed by the protocol oracle after the call
    let mut issued_now: Option<(usize, String, u64, String)> = None;
    // (detail, known-finding signature if the failure is exactly a listed open finding)
    let mut lost_update: Option<(String, Option<&'static str>)> = None;
    let mut hidden_listed = false;
    let answer: Result<String, ()> = catch_unwind(AssertUnwindSafe(|| match op {
        Op::Session(editor) => {
            match w.state.create_session(if *editor { IdeRole::Editor } else { IdeRole::Viewer }) {
                Ok(s) => {
                    w.tokens.push(s.token);
                    w.expires.push(w.now() + TTL);
                    w.editor.push(*editor);
                    format!("ok {}", w.tokens.len() - 1)
                }
                Err(e) => err_str(&e),
            }
        }
        Op::Open { tok, path } => match w.state.open_source(&w.token(*tok), path) {
            Ok(s) => {
                leak_text = s.content.clone();
                issued_now = Some((*tok, s.path.clone(), s.version, s.content.clone()));
                format!(
                    "ok {} {} {} {}",
                    hex(s.path.as_bytes()),
                    s.version,
                    b01(s.read_only),
                    enc_content(&s.content)
                )
            }
            Err(e) => err_str(&e),
        },
        Op::Apply { tok, path, expected, content, we, honest, true_disk } => {
            may_mutate = *we && live_editor;
            let key_guess = path.trim().trim_start_matches("./").to_string();
            match w.state.apply_source(&w.token(*tok), path, *expected, content.clone(), *we) {
                Ok(r) => {
                    if r.version != expected.wrapping_add(1) {
                        lost_update = Some((format!("version chain broken: expected {expected} -> {}", r.version), None));
                    }
                    if *honest {
                        // base content the client saw with `expected`
                        let base = w
                            .issued
                            .get(&(*tok, r.path.clone()))
                            .and_then(|m| m.get(expected))
                            .cloned();
                        let disk_before = match true_disk {
                            Some(d) => Some(d.clone()),
                            None => w.physical_of(&r.path).and_then(|p| match before.get(&p) {
                                Some(Node::File(c)) => Some(c.clone()),
                                _ => None,
                            }),
                        };
                        if let (Some((base, phys, external)), Some(disk)) = (base, disk_before) {
                            if base != disk && !external {
                                // exactly the listed open finding is classified: a successful
                                // write since the snapshot went through ANOTHER document key that
                                // names the same file (alias through an in-root link).  A snapshot
                                // that predates a removal / re-creation of the file is judged like
                                // any other (C19-version-reuse is repaired: versions are not reused)
                                let since = w.issue_seq.get(&(*tok, r.path.clone(), *expected)).copied().unwrap_or(u64::MAX);
                                let alias = w.writes.get(&phys).is_some_and(|ws| {
                                    ws.iter().any(|(s, k)| *s > since && k != &r.path)
                                });
                                let class = if alias { Some("C19-alias-keys") } else { None };
                                lost_update = Some((
                                    format!(
                                        "write with expected={expected} based on {:?} overwrote {:?}",
                                        base, disk
                                    ),
                                    class,
                                ));
                            }
                        }
                    }
                    issued_now = Some((*tok, r.path.clone(), r.version, content.clone()));
                    let _ = key_guess;
                    format!("ok {} {}", hex(r.path.as_bytes()), r.version)
                }
                Err(e) => err_str(&e),
            }
        }
        Op::Create { tok, path, is_dir, content, we } => {
            may_mutate = *we && live_editor;
            match w.state.create_entry(&w.token(*tok), path, *is_dir, content.clone(), *we) {
                Ok(r) => {
                    if let (Some(v), Some(c)) = (r.version, content.clone().or(Some(String::new()))) {
                        issued_now = Some((*tok, r.path.clone(), v, c));
                    }
                    format!(
                        "ok {} {} {}",
                        hex(r.path.as_bytes()),
                        if r.kind == "directory" { "d" } else { "f" },
                        r.version.map(|v| v.to_string()).unwrap_or_else(|| "-".into())
                    )
                }
                Err(e) => err_str(&e),
            }
        }
        Op::Rename { tok, path, new, we } => {
            may_mutate = *we && live_editor;
            match w.state.rename_entry(&w.token(*tok), path, new, *we) {
                Ok(r) => format!(
                    "ok {} {} -",
                    hex(r.path.as_bytes()),
                    if r.kind == "directory" { "d" } else { "f" }
                ),
                Err(e) => err_str(&e),
            }
        }
        Op::Delete { tok, path, we } => {
            may_mutate = *we && live_editor;
            match w.state.delete_entry(&w.token(*tok), path, *we) {
                Ok(r) => format!(
                    "ok {} {} -",
                    hex(r.path.as_bytes()),
                    if r.kind == "directory" { "d" } else { "f" }
                ),
                Err(e) => err_str(&e),
            }
        }
        Op::List { tok } => match w.state.list_sources(&w.token(*tok)) {
            Ok(v) => {
                leak_text = v.join("\n");
                // every listed name must be the display name of a visible, in-root regular file
                let ok = visible_names(&before, &w.root_phys, false);
                hidden_listed = v.iter().any(|p| !ok.contains(p));
                format!("ok {}", list_or_dash(v.iter().map(|p| hex(p.as_bytes())).collect()))
            }
            Err(e) => err_str(&e),
        },
        Op::Tree { tok } => match w.state.list_tree(&w.token(*tok)) {
            Ok(v) => {
                let mut flat = Vec::new();
                flatten_tree(&v, &mut flat);
                let ok = visible_names(&before, &w.root_phys, true);
                fn all_ok(ns: &[IdeTreeNode], ok: &std::collections::BTreeSet<String>) -> bool {
                    ns.iter().all(|n| ok.contains(&n.path) && all_ok(&n.children, ok))
                }
                hidden_listed = !all_ok(&v, &ok);
                format!("ok {}", list_or_dash(flat))
            }
            Err(e) => err_str(&e),
        },
        Op::Search { tok, query, limit } => {
            match w.state.workspace_search(&w.token(*tok), query, None, None, *limit) {
                Ok(v) => {
                    leak_text = v.iter().map(|h| h.preview.clone()).collect::<Vec<_>>().join("\n");
                    format!(
                        "ok {}",
                        list_or_dash(
                            v.iter()
                                .map(|h| format!("{}:{}:{}", hex(h.path.as_bytes()), h.line, h.character))
                                .collect()
                        )
                    )
                }
                Err(e) => err_str(&e),
            }
        }
        Op::Format { tok, path, content } => {
            match w.state.format_source(&w.token(*tok), path, content.clone()) {
                Ok(r) => {
                    if content.is_none() {
                        leak_text = r.content.clone();
                    }
                    format!("ok {}", hex(r.path.as_bytes()))
                }
                Err(e) => err_str(&e),
            }
        }
        Op::Health { tok } => match w.state.health(&w.token(*tok)) {
            Ok(h) => format!(
                "ok {} {} {} {}",
                h.active_sessions, h.editor_sessions, h.tracked_documents, h.fs_mutation_events
            ),
            Err(e) => err_str(&e),
        },
        Op::Clock(_) | Op::XWrite { .. } | Op::Snap => unreachable!(),
    }))
    .map_err(|_| ());
    let after = snapshot(&w.base);
    let (d, changed) = diff(&before, &after);
    w.last_write_ok = matches!(op, Op::Apply { .. }) && matches!(&answer, Ok(a) if a.starts_with("ok "));
    match &answer {
        Ok(a) => out.line(format!("impl {a} | {d}")),
        Err(()) => out.line(format!("impl panic | {d}")),
    }
    w.snap = after;
    if let Op::Rename { new, .. } = op {
        if let Some(p) = w.physical_of(new.trim()) {
            subtrees.push(p);
        }
    }
    // oracles on the implementation
    w.check_diff(out, n, &line, &changed, may_mutate, &subtrees);
    w.check_leak(out, n, &line, &leak_text);
    if hidden_listed {
        w.oracle_fail(out, n, "listed-entry-not-a-visible-project-file", &line, "");
    }
    if let Some((detail, class)) = lost_update {
        match class {
            Some(sig) => {
                out.count(&format!("known_{}_seen", sig.trim_start_matches("C19-").replace('-', "_")));
                out.line(format!("# KNOWN {sig} case {n}: {}", json_escape(&detail)));
            }
            None => w.oracle_fail(out, n, "lost-update", &line, &detail),
        }
    }
    w.seq += 1;
    for (p, removed) in &changed {
        if *removed {
            w.hist.remove(p);
        } else if let Some(Node::File(c)) = w.snap.get(p) {
            let seq = w.seq;
            w.hist.entry(p.clone()).or_default().push((seq, c.clone()));
        }
    }
    if let Some((tok, key, version, _)) = &issued_now {
        w.issue_seq.insert((*tok, key.clone(), *version), w.seq);
        if matches!(op, Op::Apply { .. } | Op::Create { .. }) {
            if let Some(phys) = w.physical_of(key) {
                let seq = w.seq;
                w.writes.entry(phys).or_default().push((seq, key.clone()));
            }
        }
    }
    if let Some((tok, key, version, content)) = issued_now {
        let phys = w.physical_of(&key).unwrap_or_default();
        w.issued.entry((tok, key)).or_default().insert(version, (content, phys, false));
    }
    if let Op::Apply { content, .. } = op {
        // disk = content of the last successful write
        if let Ok(a) = &answer {
            if a.starts_with("ok ") {
                let wrote = changed.iter().any(|(p, _)| matches!(w.snap.get(p), Some(Node::File(c)) if c == content))
                    || changed.is_empty();
                if !wrote {
                    w.oracle_fail(out, n, "disk-not-last-success", &line, "");
                }
            }
        }
    }
}

// ------------------------------------------------------------------------------------------
// generators
// ------------------------------------------------------------------------------------------

const DIRS: [&str; 6] = ["lib", "src", "docs", "a", "b", "lib/inner"];
const FILES: [&str; 10] = [
    "main.st", "util.st", "x.st", "notes.txt", "A.ST", "ä.st", "sp ace.st", "back\\slash.st", "文.st", "y.st",
];
const CONTENTS: [&str; 8] = [
    "PROGRAM Main\nEND_PROGRAM\n",
    "PROGRAM Main\nVAR\n    a : INT;\nEND_VAR\na := 1;\nEND_PROGRAM\n",
    "",
    "needle here\r\nand Needle there\nNEEDLE\n",
    "FUNCTION F : INT\nF := 1;\nEND_FUNCTION",
    "x\n\nzz top\n",
    "(* ünïcode needle *)\n",
    "one line without newline needle\r",
];

/// suffixes that make an outside sibling's name extend the root's name
const ROOT_RELATIVES: [&str; 4] = ["_archive", "2", "-old", ".tmp"];
/// suffixes that derive a relative's name from an existing name
const NAME_RELATIVES: [&str; 11] =
    ["_types.st", "2", "-old", ".tmp", ".st.tmp", ".bak", "~", ".swp", ".lock", "_y", "x"];
const RENAME_SRC: &str = "PROGRAM R\nVAR\n    foo : INT;\nEND_VAR\nfoo := 1;\nEND_PROGRAM\n";

struct Built {
    base: PathBuf,
    root_phys: Vec<String>,
    root_arg: PathBuf,
}

fn mk(base: &Path, rel: &str) -> PathBuf {
    let mut p = base.to_path_buf();
    for c in rel.split('/') {
        p.push(c);
    }
    p
}

fn write_file(p: &Path, c: &str) {
    if let Some(parent) = p.parent() {
        let _ = std::fs::create_dir_all(parent);
    }
    let _ = std::fs::write(p, c);
}

fn symlink(target: &Path, link: &Path) {
    if let Some(parent) = link.parent() {
        let _ = std::fs::create_dir_all(parent);
    }
    let _ = std::os::unix::fs::symlink(target, link);
}

/// Builds the sentinel tree.  `full` = the fixed corpus tree with every kind of link.
fn build_tree(base: &Path, rng: &mut Rng, full: bool) -> Built {
    let _ = std::fs::remove_dir_all(base);
    std::fs::create_dir_all(base).expect("base");
    let base = base.canonicalize().expect("canonical base");
    let nested = !full && rng.chance(1, 4);
    let root_rel = if nested { "ws/nest/proj" } else { "ws/proj" };
    let root = mk(&base, root_rel);
    std::fs::create_dir_all(&root).expect("root");
    // outside
    write_file(&mk(&base, "out/secret.st"), &format!("{MARK_OUT}-1 needle\nPROGRAM Out\nEND_PROGRAM\n"));
    write_file(&mk(&base, "out/sub/deep.st"), &format!("{MARK_OUT}-2 needle\n"));
    write_file(&mk(&base, "ws/sibling.st"), &format!("{MARK_OUT}-3 needle\n"));
    // outside, NEXT TO the root, with names that extend the root's name as a string
    let root_name = root_rel.rsplit('/').next().unwrap_or("proj").to_string();
    let root_parent = root.parent().expect("root parent").to_path_buf();
    for (i, suffix) in ROOT_RELATIVES.iter().enumerate() {
        if full || rng.chance(1, 2) {
            let sib = root_parent.join(format!("{root_name}{suffix}"));
            write_file(&sib.join("secret.st"), &format!("{MARK_OUT}-s{i} needle\nPROGRAM Sib\nEND_PROGRAM\n"));
            write_file(&sib.join("main.st"), &format!("{MARK_OUT}-m{i} needle\n"));
            let _ = std::fs::create_dir_all(sib.join("lib"));
        }
    }
    // inside, visible
    write_file(&root.join("main.st"), CONTENTS[0]);
    for d in DIRS {
        if full || rng.chance(1, 2) {
            let _ = std::fs::create_dir_all(mk(&root, d));
        }
    }
    let nfiles = if full { 8 } else { 1 + rng.below(6) };
    for _ in 0..nfiles {
        let dir = if rng.chance(1, 2) { "" } else { *rng.pick(&DIRS) };
        let name = *rng.pick(&FILES);
        let p = if dir.is_empty() { root.join(name) } else { mk(&root, dir).join(name) };
        write_file(&p, *rng.pick(&CONTENTS));
    }
    if full {
        // the corpus scripts rely on these two
        write_file(&mk(&root, "lib/util.st"), CONTENTS[1]);
        write_file(&root.join("main.st"), CONTENTS[0]);
    }
    // inside, hidden
    if full || rng.chance(2, 3) {
        write_file(&mk(&root, ".hid/secret.st"), &format!("{MARK_HID}-1 needle\n"));
    }
    if full || rng.chance(1, 2) {
        write_file(&root.join(".env"), &format!("{MARK_HID}-2 needle\n"));
    }
    if full || rng.chance(1, 3) {
        write_file(&mk(&root, "lib/.cache/c.st"), &format!("{MARK_HID}-3 needle\n"));
    }
    if full || rng.chance(1, 3) {
        write_file(&mk(&root, "src/.hidden.st"), &format!("{MARK_HID}-4 needle\n"));
    }
    // links
    let links: [(&str, PathBuf); 17] = [
        ("dout", mk(&base, "out")),
        ("din", mk(&root, "lib")),
        ("dhid", mk(&root, ".hid")),
        ("dup", mk(&base, "ws")),
        ("droot", root.clone()),
        ("lib/back", root.clone()),
        ("fout.st", mk(&base, "out/secret.st")),
        ("fin.st", root.join("main.st")),
        ("fhid.st", mk(&root, ".hid/secret.st")),
        ("dang.st", mk(&base, "out/new.st")),
        ("dangin.st", root.join("nowhere.st")),
        ("dangdir", mk(&base, "out/nodir")),
        ("loopa", root.join("loopb")),
        ("loopb", root.join("loopa")),
        ("c1", root.join("c2")),
        ("c2", mk(&base, "out")),
        ("src/fout2.st", mk(&base, "out/sub/deep.st")),
    ];
    for (name, target) in &links {
        if full || rng.chance(1, 3) {
            symlink(target, &mk(&root, name));
        }
    }
    if full || rng.chance(1, 4) {
        symlink(&mk(&root, "lib"), &mk(&base, "out/into"));
    }
    // links from inside to the root's name-relatives outside
    for (i, suffix) in ROOT_RELATIVES.iter().enumerate() {
        let sib = root_parent.join(format!("{root_name}{suffix}"));
        if sib.is_dir() && (full || rng.chance(1, 2)) {
            symlink(&sib, &root.join(format!("rel{i}")));
            if full || rng.chance(1, 3) {
                symlink(&sib.join("secret.st"), &root.join(format!("relf{i}.st")));
            }
        }
    }
    // string-prefix / suffix relatives of names that exist in the tree: files, directories and
    // links called `<x>_types.st`, `<x>2`, `<x>-old`, `<x>.tmp`, `<x>.bak`, `<x>~`, ... next to `<x>`
    if full {
        write_file(&root.join("r.st"), RENAME_SRC);
        write_file(&root.join("lib_types.st"), CONTENTS[1]);
        write_file(&mk(&root, "lib2/u.st"), CONTENTS[0]);
        write_file(&root.join("main.st~"), "editor backup\n");
        write_file(&root.join(".main.st.swp"), &format!("{MARK_HID}-5 needle\n"));
        symlink(&mk(&base, "out/secret.st"), &root.join("main.st.tmp"));
        symlink(&mk(&base, "out/staged-new.st"), &mk(&root, "lib/util.st.tmp"));
        symlink(&mk(&base, "out/sub/deep.st"), &root.join("main.st.bak"));
        symlink(&mk(&base, "out/secret.st"), &root.join("r.st.tmp"));
        symlink(&mk(&base, "out/lock-new"), &root.join("main.st.lock"));
        symlink(&root_parent.join(format!("{root_name}{}", ROOT_RELATIVES[0])), &root.join("lib-old"));
    } else {
        let existing: Vec<String> = existing_paths(&root)
            .into_iter()
            .filter(|p| !p.split('/').any(|c| c.starts_with('.')) && p.split('/').count() <= 2)
            .filter(|p| !std::fs::symlink_metadata(root.join(p)).map_or(true, |m| m.file_type().is_symlink()))
            .collect();
        let nrel = rng.below(5);
        for _ in 0..nrel {
            if existing.is_empty() {
                break;
            }
            let x = rng.pick(&existing).clone();
            let suffix = *rng.pick(&NAME_RELATIVES);
            let rel = root.join(format!("{x}{suffix}"));
            if std::fs::symlink_metadata(&rel).is_ok() {
                continue;
            }
            match rng.below(6) {
                0 | 1 => write_file(&rel, *rng.pick(&CONTENTS)),
                2 => {
                    let _ = std::fs::create_dir_all(&rel);
                    write_file(&rel.join("u.st"), *rng.pick(&CONTENTS));
                }
                3 => symlink(&mk(&base, "out/secret.st"), &rel),
                4 => symlink(&mk(&base, &format!("out/derived-{}", rng.below(3))), &rel),
                _ => symlink(&root.join("main.st"), &rel),
            }
        }
    }
    // the root handed to the IDE: usually the canonical path, sometimes a link to it
    let mut root_arg = root.clone();
    if !full && rng.chance(1, 8) {
        let l = mk(&base, "ws/plink");
        symlink(&root, &l);
        root_arg = l;
    }
    let root_phys = root_rel.split('/').map(|s| s.to_string()).collect();
    Built { base, root_phys, root_arg }
}

/// Relative path strings of existing entries below the root, following links like the OS would
/// (bounded depth), so that generated paths go *through* links too.
fn existing_paths(root: &Path) -> Vec<String> {
    fn walk(dir: &Path, rel: &str, depth: usize, out: &mut Vec<String>) {
        if depth > 3 {
            return;
        }
        let Ok(rd) = std::fs::read_dir(dir) else { return };
        let mut names: Vec<String> = rd.flatten().map(|e| e.file_name().to_string_lossy().to_string()).collect();
        names.sort();
        for name in names {
            let r = if rel.is_empty() { name.clone() } else { format!("{rel}/{name}") };
            out.push(r.clone());
            let p = dir.join(&name);
            if p.is_dir() {
                walk(&p, &r, depth + 1, out);
            }
        }
    }
    let mut out = Vec::new();
    walk(root, "", 0, &mut out);
    out
}

const ATTACKS: [&str; 34] = [
    "../x.st", "..", ".", "", "   ", "./", "./.", "a/..", "a/../../out/secret.st", "../../out/secret.st",
    "/etc/passwd", "/", "//main.st", ".hid/secret.st", ".env", "lib/.cache/c.st", "...", "..a", ".../x",
    "a\\..\\b.st", "..\\out\\secret.st", "lib/../main.st", "lib/./util.st", "lib//util.st", "lib/util.st/",
    "./main.st", " main.st ", "\tmain.st\n", "\u{a0}main.st\u{3000}", "a/ .b", " ./ a.st", "lib/ util.st",
    "main.st/..", "lib/.",
];

fn gen_path(rng: &mut Rng, w: &World) -> String {
    let existing = existing_paths(&w.root_abs());
    let roll = rng.below(100);
    let mut p = if roll < 50 && !existing.is_empty() {
        rng.pick(&existing).clone()
    } else if roll < 65 {
        // new name, possibly below an existing directory or through a link
        let parent = if !existing.is_empty() && rng.chance(2, 3) { rng.pick(&existing).clone() } else { String::new() };
        let leaf = *rng.pick(&["new.st", "n1", "n2/deep/f.st", "util.st", "ä.st", "q/r.st", "main.st", "NEW.ST"]);
        if parent.is_empty() { leaf.to_string() } else { format!("{parent}/{leaf}") }
    } else if roll < 85 {
        rng.pick(&ATTACKS).to_string()
    } else if roll < 90 {
        // absolute path of a real outside / inside file
        let t = *rng.pick(&["out/secret.st", "ws/sibling.st"]);
        mk(&w.base, t).to_string_lossy().to_string()
    } else {
        let d = *rng.pick(&DIRS);
        let f = *rng.pick(&FILES);
        if rng.bool() { format!("{d}/{f}") } else { f.to_string() }
    };
    // decorations
    if rng.chance(1, 6) {
        p = format!("./{p}");
    }
    if rng.chance(1, 10) {
        p = p.replacen('/', "//", 1);
    }
    if rng.chance(1, 12) {
        p = p.replacen('/', "/./", 1);
    }
    if rng.chance(1, 12) {
        p.push('/');
    }
    if rng.chance(1, 10) {
        p = format!("{}{p}{}", rng.pick(&[" ", "\t", "\u{a0}", "\u{2003}", "\n"]), rng.pick(&["", " ", "\u{3000}", "\r\n"]));
    }
    if rng.chance(1, 25) {
        p = p.replace('/', "\\");
    }
    p
}

fn gen_tok(rng: &mut Rng, w: &World) -> usize {
    if w.tokens.is_empty() || rng.chance(1, 10) {
        99
    } else {
        rng.below(w.tokens.len() as u64) as usize
    }
}

fn gen_content(rng: &mut Rng) -> String {
    if rng.chance(1, 60) {
        return "X".repeat(MAX_FILE_BYTES + rng.below(2) as usize);
    }
    if rng.chance(1, 4) {
        format!("PROGRAM P{}\nEND_PROGRAM\n", rng.below(1000))
    } else {
        rng.pick(&CONTENTS).to_string()
    }
}

fn gen_we(rng: &mut Rng) -> bool {
    !rng.chance(1, 10)
}

/// expected version for an apply: honest (a version this token was given for this key) or not
fn gen_expected(rng: &mut Rng, w: &World, tok: usize, path: &str) -> (u64, bool, u64) {
    let key = path.trim().trim_start_matches("./").to_string();
    if let Some(m) = w.issued.get(&(tok, key.clone())) {
        if !m.is_empty() && rng.chance(4, 5) {
            let versions: Vec<u64> = m.keys().copied().collect();
            let v = if rng.chance(3, 4) { *versions.last().unwrap() } else { *rng.pick(&versions) };
            let at = w.issue_seq.get(&(tok, key, v)).copied().unwrap_or(u64::MAX);
            return (v, true, at);
        }
    }
    (*rng.pick(&[0u64, 1, 1, 2, 2, 3, 4, 5, u64::MAX]), false, 0)
}

/// Contents a stale unlocked read of `phys` may have returned in a real interleaving: what the
/// file held at some moment not earlier than `since` (the request was sent after the snapshot it
/// is based on was received), other than its present content.
fn stale_candidates(w: &World, phys: &[String], since: u64) -> Vec<String> {
    let Some(h) = w.hist.get(phys) else { return Vec::new() };
    let mut out = Vec::new();
    for i in 0..h.len().saturating_sub(1) {
        // h[i] was on disk until h[i+1] replaced it
        if h[i + 1].0 > since && h[i].1 != h[h.len() - 1].1 {
            out.push(h[i].1.clone());
        }
    }
    out
}

fn gen_op(rng: &mut Rng, w: &World, protocol: bool, focus: &[String]) -> Vec<Op> {
    let tok = gen_tok(rng, w);
    let path = if protocol && !focus.is_empty() && rng.chance(5, 6) {
        rng.pick(focus).clone()
    } else {
        gen_path(rng, w)
    };
    let roll = rng.below(100);
    if protocol {
        return match roll {
            0..=29 => vec![Op::Open { tok, path }],
            30..=64 => {
                let (expected, honest, since) = gen_expected(rng, w, tok, &path);
                let content = gen_content(rng);
                let we = gen_we(rng);
                // emulate a stale unlocked read: while the locked section runs the disk holds what
                // the earlier read saw, and the true content is put back if the write is refused
                if rng.chance(1, 3) {
                    if let Some(phys) = w.physical_of(&path) {
                        if let Some(Node::File(cur)) = w.snap.get(&phys) {
                            let mut cands = stale_candidates(w, &phys, since);
                            let faithful = !cands.is_empty();
                            if !faithful {
                                // never on disk: exercises the locked section against the model
                                // only (an external change, not judged by the lost-update oracle)
                                cands = CONTENTS.iter().map(|c| c.to_string()).filter(|c| c != cur).collect();
                            }
                            let stale = rng.pick(&cands).clone();
                            return vec![
                                Op::XWrite { phys: phys.clone(), content: stale.clone(), only_if: None },
                                Op::Apply { tok, path, expected, content, we, honest: honest && faithful, true_disk: Some(cur.clone()) },
                                Op::XWrite { phys, content: cur.clone(), only_if: Some(stale) },
                            ];
                        }
                    }
                }
                vec![Op::Apply { tok, path, expected, content, we, honest, true_disk: None }]
            }
            65..=69 => {
                // stale read inside open_source
                if let Some(phys) = w.physical_of(&path) {
                    if let Some(Node::File(cur)) = w.snap.get(&phys) {
                        let mut cands = stale_candidates(w, &phys, 0);
                        if cands.is_empty() {
                            cands = CONTENTS.iter().map(|c| c.to_string()).filter(|c| c != cur).collect();
                        }
                        let stale = rng.pick(&cands).clone();
                        return vec![
                            Op::XWrite { phys: phys.clone(), content: stale.clone(), only_if: None },
                            Op::Open { tok, path },
                            Op::XWrite { phys, content: cur.clone(), only_if: Some(stale) },
                        ];
                    }
                }
                vec![Op::Open { tok, path }]
            }
            70..=75 => vec![Op::Delete { tok, path, we: gen_we(rng) }],
            76..=82 => vec![Op::Create { tok, path, is_dir: false, content: Some(gen_content(rng)), we: gen_we(rng) }],
            83..=88 => {
                // half of the renames move a real directory to a name derived from it
                let dirs: Vec<String> = existing_paths(&w.root_abs())
                    .into_iter()
                    .filter(|p| {
                        !p.split('/').any(|c| c.starts_with('.'))
                            && matches!(std::fs::symlink_metadata(w.root_abs().join(p)), Ok(m) if m.is_dir())
                    })
                    .collect();
                if !dirs.is_empty() && rng.bool() {
                    let d = rng.pick(&dirs).clone();
                    let new = format!("{d}{}", rng.pick(&["9", "_moved", "-old", "x"]));
                    return vec![Op::Rename { tok, path: d, new, we: gen_we(rng) }];
                }
                let new = if rng.bool() && !focus.is_empty() { rng.pick(focus).clone() } else { gen_path(rng, w) };
                vec![Op::Rename { tok, path, new, we: gen_we(rng) }]
            }
            89..=92 => vec![Op::Clock(w.now() + *rng.pick(&[1u64, 10, 450, 899, 900, 901, 2000]))],
            93..=95 => vec![Op::Session(rng.chance(2, 3))],
            96..=97 => vec![Op::Health { tok }],
            _ => vec![Op::List { tok }],
        };
    }
    match roll {
        0..=13 => vec![Op::Open { tok, path }],
        14..=27 => {
            let (expected, honest, _) = gen_expected(rng, w, tok, &path);
            vec![Op::Apply { tok, path, expected, content: gen_content(rng), we: gen_we(rng), honest, true_disk: None }]
        }
        28..=43 => {
            let is_dir = rng.chance(1, 3);
            let content = if is_dir || rng.chance(1, 5) { None } else { Some(gen_content(rng)) };
            vec![Op::Create { tok, path, is_dir, content, we: gen_we(rng) }]
        }
        44..=57 => vec![Op::Rename { tok, path, new: gen_path(rng, w), we: gen_we(rng) }],
        58..=69 => vec![Op::Delete { tok, path, we: gen_we(rng) }],
        70..=75 => vec![Op::List { tok }],
        76..=80 => vec![Op::Tree { tok }],
        81..=86 => vec![Op::Search {
            tok,
            query: rng.pick(&["needle", "zz", " NEEDLE ", "program", "", "  ", "ü", "zzout", "secret"]).to_string(),
            limit: *rng.pick(&[0usize, 1, 2, 50, 50]),
        }],
        87..=90 => vec![Op::Format {
            tok,
            path,
            content: if rng.bool() { None } else { Some(gen_content(rng)) },
        }],
        91..=93 => vec![Op::Health { tok }],
        94..=96 => vec![Op::Clock(w.now() + *rng.pick(&[1u64, 10, 450, 899, 900, 901, 2000]))],
        _ => vec![Op::Session(rng.chance(2, 3))],
    }
}

// ------------------------------------------------------------------------------------------
// oracle-only tail of a case: exotic paths and the analysis operations (not modelled)
// ------------------------------------------------------------------------------------------

/// `rename_symbol` that really edits a file next to which links with derived names are planted
/// (`r.st.tmp` -> outside): the write must touch `r.st` only (oracle-only, not modelled).
fn scripted_rename_symbol(w: &mut World, n: u64, out: &mut Out) {
    let r = w.root_abs().join("r.st");
    if !matches!(std::fs::symlink_metadata(&r), Ok(m) if m.is_file()) {
        return;
    }
    let _ = std::fs::write(&r, RENAME_SRC);
    w.snap = snapshot(&w.base);
    let Ok(sess) = w.state.create_session(IdeRole::Editor) else { return };
    // a buffer that is not what the file holds is refused and nothing is written (repair of
    // C19-rename-symbol-bypass: the rename result is written without an expected version)
    let stale = RENAME_SRC.replace("foo := 1;", "foo := 0;");
    let before = w.snap.clone();
    let refused = catch_unwind(AssertUnwindSafe(|| {
        w.state
            .rename_symbol(&sess.token, "r.st", Some(stale), Position { line: 2, character: 5 }, "bar", true)
            .map(|r| r.edit_count)
            .map_err(|e| (e.kind() == IdeErrorKind::Conflict, err_str(&e)))
    }));
    let after = snapshot(&w.base);
    let (_, changed) = diff(&before, &after);
    w.snap = after;
    match refused {
        Ok(Err((true, _))) if changed.is_empty() => out.count("scripted_rename_symbol_stale_refused"),
        Err(_) => {
            out.count("incidental_panic_in_analysis_op");
            out.line(format!("# NOTE incidental panic in scripted rename_symbol(r.st, stale buffer)"));
            return;
        }
        other => {
            let detail = format!("answer {:?}, changed {:?}", other, changed.iter().map(|c| c.0.join("/")).collect::<Vec<_>>());
            w.oracle_fail(out, n, "lost-update", "oracle-only scripted rename_symbol(r.st, buffer differs from the file)", &detail);
        }
    }
    let before = w.snap.clone();
    let res = catch_unwind(AssertUnwindSafe(|| {
        w.state
            .rename_symbol(&sess.token, "r.st", None, Position { line: 2, character: 5 }, "bar", true)
            .map(|r| r.edit_count)
            .map_err(|e| err_str(&e))
    }));
    let after = snapshot(&w.base);
    let (_, changed) = diff(&before, &after);
    w.snap = after;
    let label = "oracle-only scripted rename_symbol(r.st, foo -> bar)";
    match res {
        Ok(Ok(edits)) if edits > 0 => out.count("scripted_rename_symbol_edits"),
        Ok(_) => out.count("scripted_rename_symbol_no_edit"),
        Err(_) => {
            out.count("incidental_panic_in_analysis_op");
            out.line(format!("# NOTE incidental panic in {label}"));
        }
    }
    w.check_diff(out, n, label, &changed, true, &[]);
    // nothing but r.st itself may change
    let mut want = w.root_phys.clone();
    want.push("r.st".into());
    for (p, _) in &changed {
        if *p != want {
            w.oracle_fail(out, n, "rename-symbol-touched-another-entry", label, &p.join("/"));
        }
    }
}

fn oracle_only_tail(w: &mut World, rng: &mut Rng, n: u64, out: &mut Out) {
    scripted_rename_symbol(w, n, out);
    let long_comp = "L".repeat(300);
    let long_path = vec!["p"; 2500].join("/");
    let exotic: Vec<String> = vec![
        long_comp.clone(),
        format!("lib/{long_comp}/f.st"),
        format!("newdir/{long_comp}/f.st"),
        long_path,
        "nul\0byte.st".to_string(),
        "lib/\0/x.st".to_string(),
        format!("{}.st", "é".repeat(200)),
    ];
    for _ in 0..6 {
        let tok = gen_tok(rng, w);
        let token = w.token(tok);
        let we = gen_we(rng);
        let path = if rng.chance(1, 2) { rng.pick(&exotic).clone() } else { gen_path(rng, w) };
        let st_path = if rng.bool() { "main.st".to_string() } else { path.clone() };
        let before = w.snap.clone();
        let mut may_mutate = false;
        let mut text = String::new();
        let live_editor = w.maybe_live_editor(tok);
        let mut which = rng.below(12);
        // the (debug-build) lexer recurses once per character of a token: a 256 KiB identifier in
        // the workspace overflows the stack of every analysis operation (incidental, reported);
        // keep the harness alive by not analysing such workspaces
        let huge = w.snap.values().any(|n| matches!(n, Node::File(c) if c.len() > 16 * 1024));
        if huge && which >= 5 {
            which = rng.below(5);
            out.count("analysis_ops_skipped_huge_file");
        }
        let label = format!("oracle-only op {which} tok={tok} we={we} path={:?}", path.chars().take(40).collect::<String>());
        // the physical directory a delete acts on as a whole (hidden descendants go with it)
        let pre_phys = if which == 4 && !path.contains('\0') { w.physical_of(path.trim()) } else { None };
        let r = catch_unwind(AssertUnwindSafe(|| {
            let pos = Position { line: rng.below(4) as u32, character: rng.below(8) as u32 };
            match which {
                0 => text = format!("{:?}", w.state.open_source(&token, &path).map(|s| s.content)),
                1 => {
                    may_mutate = we && live_editor;
                    let _ = w.state.apply_source(&token, &path, 1, "exotic\n".into(), we);
                }
                2 => {
                    may_mutate = we && live_editor;
                    let _ = w.state.create_entry(&token, &path, rng.bool(), Some("exotic\n".into()), we);
                }
                3 => {
                    may_mutate = we && live_editor;
                    let _ = w.state.rename_entry(&token, "main.st", &path, we);
                }
                4 => {
                    may_mutate = we && live_editor;
                    let _ = w.state.delete_entry(&token, &path, we);
                }
                5 => text = format!("{:?}", w.state.diagnostics(&token, &st_path, Some("PROGRAM D\nEND_PROGRAM\n".into()))),
                6 => text = format!("{:?}", w.state.hover(&token, &st_path, None, pos)),
                7 => text = format!("{:?}", w.state.completion(&token, &st_path, None, pos, Some(20))),
                8 => text = format!("{:?}", w.state.definition(&token, &st_path, None, pos)),
                9 => text = format!("{:?}", w.state.workspace_symbols(&token, "", 100)),
                10 => {
                    may_mutate = we && live_editor;
                    text = format!("{:?}", w.state.rename_symbol(&token, &st_path, None, pos, "renamed_x", we).map(|r| r.edit_count));
                }
                _ => text = format!("{:?}", w.state.file_symbols(&token, &st_path, "", 100)),
            }
        }));
        let after = snapshot(&w.base);
        let (_, changed) = diff(&before, &after);
        w.snap = after;
        let mut subtrees: Vec<Vec<String>> = Vec::new();
        if let Some(p) = pre_phys {
            subtrees.push(p);
        }
        if r.is_err() {
            if which >= 5 {
                // a crash of an analysis operation is not a clause of C19; it is counted and
                // reported, and it poisons the state lock, so the tail stops here
                out.count("incidental_panic_in_analysis_op");
                out.line(format!("# NOTE incidental panic in {label}"));
                w.check_diff(out, n, &label, &changed, may_mutate, &subtrees);
                break;
            }
            w.oracle_fail(out, n, "panic", &label, "");
        }
        w.check_diff(out, n, &label, &changed, may_mutate, &subtrees);
        w.check_leak(out, n, &label, &text);
        out.count("oracle_only_ops");
    }
}

// ------------------------------------------------------------------------------------------
// cases
// ------------------------------------------------------------------------------------------

fn new_world(built: Built) -> World {
    let clock = Arc::new(AtomicU64::new(1000));
    let c2 = clock.clone();
    let state = WebIdeState::verif_with_clock(
        Some(built.root_arg.clone()),
        Arc::new(move || c2.load(Ordering::SeqCst)),
    );
    let snap = snapshot(&built.base);
    World {
        base: built.base,
        root_phys: built.root_phys,
        state,
        clock,
        tokens: Vec::new(),
        expires: Vec::new(),
        editor: Vec::new(),
        hist: snap
            .iter()
            .filter_map(|(k, n)| match n {
                Node::File(c) => Some((k.clone(), vec![(0u64, c.clone())])),
                _ => None,
            })
            .collect(),
        snap,
        issued: HashMap::new(),
        seq: 0,
        issue_seq: HashMap::new(),
        writes: HashMap::new(),
        last_write_ok: false,
        oracle_failures: 0,
    }
}

fn emit_header(w: &World, root_arg: &Path, n: u64, out: &mut Out) {
    out.line(format!("case {n}"));
    let root_logical: Vec<String> = root_arg
        .strip_prefix(&w.base)
        .expect("root below base")
        .components()
        .map(|c| c.as_os_str().to_string_lossy().to_string())
        .collect();
    out.line(format!("root {}", render_path(&root_logical)));
    for (k, node) in &w.snap {
        match node {
            Node::Dir => out.line(format!("d {}", render_path(k))),
            Node::File(c) => out.line(format!("f {} {}", render_path(k), enc_content(c))),
            Node::Link(t) => out.line(format!("l {} {}", render_path(k), render_path(t))),
        }
    }
    out.line("clock 1000");
}

/// the fixed corpus: witnesses of the repaired defects and of the open findings
fn corpus(k: u64) -> Option<Vec<Op>> {
    let o = |tok: usize, p: &str| Op::Open { tok, path: p.into() };
    let ap = |tok: usize, p: &str, e: u64, c: &str| Op::Apply {
        tok, path: p.into(), expected: e, content: c.into(), we: true, honest: true, true_disk: None,
    };
    let cr = |tok: usize, p: &str, d: bool, c: Option<&str>| Op::Create {
        tok, path: p.into(), is_dir: d, content: c.map(|s| s.to_string()), we: true,
    };
    let rn = |tok: usize, p: &str, q: &str| Op::Rename { tok, path: p.into(), new: q.into(), we: true };
    let de = |tok: usize, p: &str| Op::Delete { tok, path: p.into(), we: true };
    match k {
        // 60787ea: rename_entry by a bogus / viewer / expired token or with writes disabled must
        // not leave the new parent directories behind
        0 => Some(vec![
            Op::Session(true), Op::Session(false),
            rn(99, "main.st", "newdir/deep/main.st"),
            rn(1, "main.st", "viewerdir/main.st"),
            Op::Rename { tok: 0, path: "main.st".into(), new: "rodir/main.st".into(), we: false },
            cr(1, "viewer-made/x.st", false, Some("v")), cr(99, "bogus-made", true, None),
            Op::Clock(1000 + TTL), rn(0, "main.st", "expireddir/main.st"), cr(0, "expired-made.st", false, None),
            de(0, "main.st"), ap(0, "main.st", 1, "expired write"),
            Op::Session(true), rn(2, "main.st", "ok/deep/main.st"), Op::Tree { tok: 2 }, Op::Health { tok: 2 },
        ]),
        // 498c690: walkers must not follow links
        1 => Some(vec![
            Op::Session(false), Op::List { tok: 0 }, Op::Tree { tok: 0 },
            Op::Search { tok: 0, query: "needle".into(), limit: 50 },
            Op::Search { tok: 0, query: "zz".into(), limit: 50 },
            Op::Search { tok: 0, query: "zzout".into(), limit: 0 },
        ]),
        // fc6049d: last component is a link (file link out / in / hidden, dangling, directory link)
        2 => Some(vec![
            Op::Session(true),
            o(0, "fout.st"), ap(0, "fout.st", 1, "OVERWRITTEN"), o(0, "fin.st"), o(0, "fhid.st"),
            cr(0, "dang.st", false, Some("created outside")), cr(0, "dangin.st", false, Some("x")),
            cr(0, "dangdir", true, None), cr(0, "dangdir/sub/f.st", false, Some("x")),
            de(0, "fout.st"), de(0, "dout"), rn(0, "fout.st", "moved.st"), rn(0, "main.st", "dang.st"),
            rn(0, "main.st", "fout.st"), o(0, "src/fout2.st"), de(0, "loopa"), o(0, "loopa/x.st"),
            Op::Format { tok: 0, path: "fout.st".into(), content: None },
        ]),
        // paths through directory links: out, in, parent, root, chain, hidden (3aeec1a)
        3 => Some(vec![
            Op::Session(true),
            o(0, "dout/secret.st"), cr(0, "dout/new.st", false, Some("x")), de(0, "dout/secret.st"),
            rn(0, "main.st", "dout/main.st"), rn(0, "dout/secret.st", "stolen.st"),
            o(0, "dup/sibling.st"), o(0, "c1/secret.st"), cr(0, "c1/sub/new.st", false, Some("x")),
            o(0, "din/util.st"), ap(0, "din/util.st", 1, "via in-link"), o(0, "lib/util.st"),
            o(0, "droot/main.st"), cr(0, "droot/viaroot.st", false, Some("x")), o(0, "lib/back/lib/util.st"),
            o(0, "dhid/secret.st"), ap(0, "dhid/secret.st", 1, "x"), cr(0, "dhid/new.st", false, Some("x")),
            de(0, "dhid/secret.st"), rn(0, "main.st", "dhid/main.st"), cr(0, "dhid/sub", true, None),
            cr(0, "din/.cache/new.st", false, Some("x")), o(0, "din/.cache/c.st"),
        ]),
        // C19-version-reuse (repaired): delete + create restarted the version at 1, so A's snapshot
        // (v1) matched the re-created document; versions are never reused now, A must conflict
        4 => Some(vec![
            Op::Session(true), Op::Session(true),
            o(0, "main.st"), o(1, "main.st"), ap(1, "main.st", 1, "B1\n"),
            de(1, "main.st"), cr(1, "main.st", false, Some("B2 precious\n")),
            ap(0, "main.st", 1, "A stale\n"), o(1, "main.st"),
        ]),
        // the two-writer conflict of the test suite, rename keeps versions growing
        5 => Some(vec![
            Op::Session(true), Op::Session(true),
            o(0, "main.st"), o(1, "main.st"), ap(0, "main.st", 1, "A1\n"), ap(1, "main.st", 1, "B1\n"),
            o(1, "main.st"), ap(1, "main.st", 2, "B2\n"), rn(1, "main.st", "m2.st"), rn(1, "m2.st", "main.st"),
            ap(0, "main.st", 2, "A2 stale\n"), ap(0, "main.st", 3, "A3 stale\n"), o(0, "main.st"),
            ap(0, "main.st", 5, "A5\n"), Op::Health { tok: 0 },
        ]),
        // 41f5544: a backslash-named file is listed under a rewritten name that aliases a path
        // through a link / to a hidden entry; search must read only through the gate
        6 => Some(vec![
            Op::Session(true), Op::Session(false),
            cr(0, "dout\\secret.st", false, Some("x")), cr(0, "src\\fout2.st", false, None),
            cr(0, "dhid\\secret.st", false, None), cr(0, "src\\.hidden.st", false, None),
            cr(0, "lib\\..\\main.st", false, None), cr(0, "lib\\.cache\\c.st", false, None),
            Op::List { tok: 1 }, Op::Tree { tok: 1 },
            Op::Search { tok: 1, query: "zz".into(), limit: 50 },
            o(1, "dout/secret.st"), o(1, "dout\\secret.st"),
        ]),
        // OPEN finding C19-alias-keys: one file, two document keys (through the in-root link
        // droot -> root); B's write through the other key does not bump A's key, and A's locked
        // section runs on a read taken before B's write (emulated: the disk shows the old content)
        7 => Some(vec![
            Op::Session(true), Op::Session(true),
            o(0, "main.st"), o(1, "droot/main.st"), ap(1, "droot/main.st", 1, "B1 precious\n"),
            Op::XWrite { phys: vec!["ws".into(), "proj".into(), "main.st".into()], content: CONTENTS[0].into(), only_if: None },
            Op::Apply { tok: 0, path: "main.st".into(), expected: 1, content: "A stale\n".into(), we: true, honest: true,
                        true_disk: Some("B1 precious\n".into()) },
            Op::XWrite { phys: vec!["ws".into(), "proj".into(), "main.st".into()], content: "B1 precious\n".into(), only_if: Some(CONTENTS[0].into()) },
            o(1, "droot/main.st"),
        ]),
        // document-key bookkeeping of a folder rename: `lib_types.st` and `lib2/u.st` extend the
        // folder's name `lib` as strings but are not inside it; their tracked documents (and
        // version counters) must survive `lib` -> `libx`, stale saves must still conflict
        8 => Some(vec![
            Op::Session(true), Op::Session(true),
            o(0, "lib_types.st"), o(1, "lib_types.st"), ap(1, "lib_types.st", 1, "B1 types\n"),
            o(0, "lib2/u.st"), o(1, "lib2/u.st"), ap(1, "lib2/u.st", 1, "B1 u\n"),
            o(0, "lib/util.st"), o(1, "lib/util.st"), ap(1, "lib/util.st", 1, "B1 util\n"),
            rn(1, "lib", "libx"), Op::Health { tok: 0 },
            ap(0, "lib_types.st", 1, "A stale types\n"), ap(0, "lib2/u.st", 1, "A stale u\n"),
            ap(0, "libx/util.st", 1, "A stale util\n"), ap(0, "libx/util.st", 2, "A stale util 2\n"),
            o(1, "lib_types.st"), o(1, "lib2/u.st"), o(1, "libx/util.st"), o(0, "lib/util.st"),
            de(1, "lib2"), Op::Health { tok: 0 }, o(0, "lib_types.st"), ap(0, "lib_types.st", 2, "A2 types\n"),
            rn(1, "libx", "lib"), ap(0, "lib_types.st", 3, "A3 types\n"), o(1, "lib/util.st"),
        ]),
        // links from inside to OUTSIDE SIBLINGS OF THE ROOT whose names extend the root's name
        // (`proj_archive`, `proj2`, `proj-old`, `proj.tmp`): a string-prefix containment test
        // would let every operation through
        9 => Some(vec![
            Op::Session(true),
            o(0, "rel0/secret.st"), ap(0, "rel0/secret.st", 1, "OVERWRITTEN\n"), cr(0, "rel0/new.st", false, Some("x")),
            cr(0, "rel1/newdir", true, None), de(0, "rel1/secret.st"), rn(0, "main.st", "rel2/main.st"),
            rn(0, "rel2/secret.st", "stolen.st"), o(0, "rel3/main.st"), de(0, "rel3/lib"),
            o(0, "relf0.st"), o(0, "lib-old/secret.st"), cr(0, "lib-old/lib/x.st", false, Some("x")),
            Op::Format { tok: 0, path: "rel0/secret.st".into(), content: None },
            Op::Search { tok: 0, query: "zz".into(), limit: 50 }, Op::List { tok: 0 }, Op::Tree { tok: 0 },
        ]),
        // planted links with names DERIVED from saved files (`main.st.tmp`, `.bak`, `.lock`,
        // `lib/util.st.tmp` dangling): a save must touch the named file only
        10 => Some(vec![
            Op::Session(true),
            o(0, "main.st"), ap(0, "main.st", 1, "saved 1\n"), ap(0, "main.st", 2, "saved 2\n"),
            o(0, "lib/util.st"), ap(0, "lib/util.st", 1, "saved util\n"),
            o(0, "r.st"), ap(0, "r.st", 1, "saved r\n"),
            cr(0, "fresh.st", false, Some("fresh\n")), ap(0, "fresh.st", 1, "fresh 2\n"),
            o(0, "main.st.tmp"), de(0, "main.st.tmp"), o(0, "main.st~"), ap(0, "main.st~", 1, "bk\n"),
            rn(0, "main.st", "main2.st"), rn(0, "main2.st", "main.st"), Op::List { tok: 0 },
        ]),
        // C19-version-reuse (repaired), the other ways a path gets a new document.
        // 11: renamed away and re-created
        11 => Some(vec![
            Op::Session(true), Op::Session(true),
            o(0, "main.st"), o(1, "main.st"), ap(1, "main.st", 1, "B1\n"),
            rn(1, "main.st", "moved.st"), cr(1, "main.st", false, Some("B2 precious\n")),
            ap(0, "main.st", 1, "A stale\n"), ap(0, "main.st", 2, "A stale 2\n"), o(1, "main.st"),
            o(0, "moved.st"), ap(0, "moved.st", 1, "A stale moved\n"), ap(0, "moved.st", 2, "A stale moved 2\n"),
            Op::Health { tok: 0 },
        ]),
        // 12: a document renamed ONTO a path whose earlier document was deleted (A's snapshot v2
        // of the old one matched the moved one)
        12 => Some(vec![
            Op::Session(true), Op::Session(true),
            o(0, "lib/util.st"), o(1, "lib/util.st"), ap(1, "lib/util.st", 1, "U1\n"), o(0, "lib/util.st"),
            de(1, "lib/util.st"), o(1, "lib_types.st"), rn(1, "lib_types.st", "lib/util.st"),
            ap(0, "lib/util.st", 2, "A stale util\n"), o(1, "lib/util.st"), Op::Health { tok: 0 },
        ]),
        // 13: a folder deleted and re-created; a folder renamed and a file created in its place
        13 => Some(vec![
            Op::Session(true), Op::Session(true),
            o(0, "lib2/u.st"), o(1, "lib2/u.st"), ap(1, "lib2/u.st", 1, "V1\n"), de(1, "lib2"),
            cr(1, "lib2/u.st", false, Some("V2 precious\n")), ap(0, "lib2/u.st", 1, "A stale u\n"),
            o(1, "lib2/u.st"), rn(1, "lib2", "lib3"), cr(1, "lib2/u.st", false, Some("V3 precious\n")),
            ap(0, "lib2/u.st", 1, "A stale u 1\n"), ap(0, "lib2/u.st", 2, "A stale u 2\n"),
            o(0, "lib3/u.st"), o(0, "lib2/u.st"), Op::Health { tok: 0 },
        ]),
        _ => None,
    }
}

const CORPUS_LEN: u64 = 14;

fn run_case(args: &Args, n: u64, out: &mut Out) -> u64 {
    let mut rng = Rng::for_case(args.seed, n);
    let base = std::env::temp_dir().join(format!("c19-{}-{}-{}", std::process::id(), args.seed, n));
    let scripted = if n < CORPUS_LEN { corpus(n) } else { None };
    let built = build_tree(&base, &mut rng, scripted.is_some());
    let root_arg = built.root_arg.clone();
    let mut w = new_world(built);
    emit_header(&w, &root_arg, n, out);
    let mut mutated = false;
    let mut through_link = false;
    if let Some(ops) = scripted {
        for op in ops {
            exec(&mut w, &op, n, out);
        }
        out.count("cases_corpus");
        mutated = true;
    } else {
        let protocol = n % 5 == 4;
        out.count(if protocol { "cases_protocol" } else { "cases_paths" });
        // sessions
        let nsess = 2 + rng.below(3);
        for _ in 0..nsess {
            exec(&mut w, &Op::Session(rng.chance(3, 4)), n, out);
        }
        let focus: Vec<String> = if protocol {
            let ex: Vec<String> = existing_paths(&w.root_abs())
                .into_iter()
                .filter(|p| w.root_abs().join(p).is_file() && !p.split('/').any(|c| c.starts_with('.')))
                .collect();
            let mut f = vec!["main.st".to_string()];
            if !ex.is_empty() {
                f.push(rng.pick(&ex).clone());
            }
            // files whose path extends a directory's name as a STRING without being inside it
            // (`lib_types.st`, `lib2/u.st` next to `lib/`): the document-key bookkeeping of a
            // folder rename must not touch them
            let dirs: Vec<String> = existing_paths(&w.root_abs())
                .into_iter()
                .filter(|p| w.root_abs().join(p).is_dir())
                .collect();
            for p in &ex {
                if f.len() < 5 && dirs.iter().any(|d| p.starts_with(d.as_str()) && !p.starts_with(&format!("{d}/"))) {
                    f.push(p.clone());
                }
            }
            for p in &ex {
                if f.len() < 6 && p.contains('/') && rng.chance(1, 3) {
                    f.push(p.clone());
                }
            }
            f
        } else {
            Vec::new()
        };
        let nops = if protocol { 30 } else { 18 } + rng.below(10);
        for _ in 0..nops {
            for op in gen_op(&mut rng, &w, protocol, &focus) {
                let before = w.snap.len();
                if let Op::Open { path, .. } | Op::Apply { path, .. } | Op::Create { path, .. } | Op::Delete { path, .. } = &op {
                    if path.split('/').next().is_some_and(|c| {
                        matches!(std::fs::symlink_metadata(w.root_abs().join(c.trim())), Ok(m) if m.file_type().is_symlink())
                    }) {
                        through_link = true;
                    }
                }
                let before_snap = w.snap.clone();
                exec(&mut w, &op, n, out);
                if w.snap.len() != before {
                    mutated = true;
                }
                out.count("ops");
                // after a rename / delete that changed the tree: the tracked-document table is
                // property-relevant (a lost version counter = a lost update), so follow up on
                // EVERY path that was ever opened: re-open it, or save with the version it was
                // given (which must conflict exactly when the model says so)
                if matches!(op, Op::Rename { .. } | Op::Delete { .. }) && w.snap != before_snap {
                    let mut keys: Vec<(usize, String)> = w.issued.keys().cloned().collect();
                    keys.sort();
                    keys.dedup();
                    let step = keys.len() / 10 + 1;
                    for (j, (tok, key)) in keys.into_iter().enumerate() {
                        if j % step != 0 {
                            continue;
                        }
                        let follow = if rng.bool() {
                            Op::Open { tok, path: key }
                        } else {
                            let v = w.issued.get(&(tok, key.clone())).and_then(|m| m.keys().next_back().copied()).unwrap_or(1);
                            Op::Apply { tok, path: key, expected: v, content: gen_content(&mut rng), we: true, honest: true, true_disk: None }
                        };
                        exec(&mut w, &follow, n, out);
                        out.count("followup_ops");
                    }
                }
            }
        }
    }
    exec(&mut w, &Op::Snap, n, out);
    if mutated || through_link {
        out.line("tag nontrivial");
    }
    if through_link {
        out.line("tag through-link");
    }
    // not modelled: exotic paths and the analysis operations, checked by the oracles only
    oracle_only_tail(&mut w, &mut rng, n, out);
    out.line("end");
    let fails = w.oracle_failures;
    let _ = std::fs::remove_dir_all(&w.base);
    fails
}

/// C19-rename-symbol-bypass (repaired): `rename_symbol` with a stale buffer overwrote a newer
/// successful write without any version check.  Replayed on every run: the stale buffer must be
/// refused with the current version and leave the file alone; with the buffer the file really
/// holds (and without a buffer) the rename goes through, on the latest content, and bumps the
/// version, so a save based on the pre-rename snapshot conflicts.
fn replay_rename_symbol_bypass(args: &Args, out: &mut Out) {
    let base = std::env::temp_dir().join(format!("c19-{}-{}-rs", std::process::id(), args.seed));
    let _ = std::fs::remove_dir_all(&base);
    let root = base.join("proj");
    let original = "PROGRAM R\nVAR\n    foo : INT;\nEND_VAR\nfoo := 1;\nEND_PROGRAM\n";
    let newer = "PROGRAM R\nVAR\n    foo : INT;\n    precious : INT;\nEND_VAR\nfoo := 2;\nEND_PROGRAM\n";
    write_file(&root.join("r.st"), original);
    let state = WebIdeState::new(Some(root.clone()));
    let a = state.create_session(IdeRole::Editor).expect("session").token;
    let b = state.create_session(IdeRole::Editor).expect("session").token;
    let ra = state.open_source(&a, "r.st").expect("open");
    let rb = state.open_source(&b, "r.st").expect("open");
    let wb = state.apply_source(&b, "r.st", rb.version, newer.to_string(), true);
    let pos = || Position { line: 2, character: 5 };
    let fail = |out: &mut Out, detail: String| {
        out.count("oracle_fail_lost-update");
        out.line(format!(
            "# ORACLE-FAIL {{\"case\": \"known\", \"class\": \"lost-update\", \"op\": \"replay of C19-rename-symbol-bypass: A opens r.st, B saves a newer text, A calls rename_symbol(content = A's stale buffer)\", \"detail\": {}}}",
            json_escape(&detail)
        ));
    };
    let wb_version = wb.as_ref().map(|r| r.version).unwrap_or(0);
    // 1. the stale buffer
    let rr = state.rename_symbol(&a, "r.st", Some(ra.content.clone()), pos(), "bar", true);
    let disk = std::fs::read_to_string(root.join("r.st")).unwrap_or_default();
    if wb.is_err() {
        fail(out, format!("B's honest save was refused: {:?}", wb.as_ref().err().map(err_str)));
    }
    if disk != newer {
        fail(out, format!(
            "B's successful write (v{wb_version}) was overwritten by A's rename_symbol on a stale buffer (answer {:?}); disk = {}",
            rr.as_ref().map(|r| r.edit_count).map_err(err_str),
            json_escape(&disk)
        ));
    }
    match &rr {
        Err(e) if e.kind() == IdeErrorKind::Conflict && e.current_version() == Some(wb_version) => {
            out.count("rename_symbol_stale_buffer_refused");
        }
        other => fail(out, format!(
            "rename_symbol on a stale buffer must answer conflict with current version {wb_version}, got {:?}",
            other.as_ref().map(|r| r.edit_count).map_err(err_str)
        )),
    }
    // 2. the buffer the file really holds: goes through on the latest content, version bumped
    let r2 = state.rename_symbol(&a, "r.st", Some(newer.to_string()), pos(), "bar", true);
    let disk2 = std::fs::read_to_string(root.join("r.st")).unwrap_or_default();
    let want2 = newer.replace("foo", "bar");
    match &r2 {
        Ok(r) if disk2 == want2 && r.changed_files.iter().any(|c| c.path == "r.st" && c.version == wb_version + 1) => {
            out.count("rename_symbol_current_buffer_applied");
        }
        other => fail(out, format!(
            "rename_symbol with the current buffer must rename on the latest content and bump v{wb_version}: answer {:?}, disk = {}",
            other.as_ref().map(|r| r.changed_files.iter().map(|c| (c.path.clone(), c.version)).collect::<Vec<_>>()).map_err(err_str),
            json_escape(&disk2)
        )),
    }
    // 3. B's save based on its pre-rename snapshot must now conflict
    let w3 = state.apply_source(&b, "r.st", wb_version, "B based on the text before the rename\n".to_string(), true);
    let disk3 = std::fs::read_to_string(root.join("r.st")).unwrap_or_default();
    if w3.is_ok() || disk3 != disk2 {
        fail(out, format!("a save based on the snapshot before rename_symbol went through: disk = {}", json_escape(&disk3)));
    }
    let _ = std::fs::remove_dir_all(&base);
}

/// k sessions x m writes from real threads: successes must form a chain and the disk must hold
/// the content of the last success (thorough tier; testing, not proof).
fn thread_stress(args: &Args, rounds: usize, out: &mut Out) {
    for round in 0..rounds {
        let base = std::env::temp_dir().join(format!("c19-{}-{}-st{}", std::process::id(), args.seed, round));
        let _ = std::fs::remove_dir_all(&base);
        let root = base.join("proj");
        write_file(&root.join("main.st"), "v0\n");
        let state = Arc::new(WebIdeState::new(Some(root.clone())));
        let k = 4;
        let m = 25;
        let mut handles = Vec::new();
        for t in 0..k {
            let state = state.clone();
            handles.push(std::thread::spawn(move || {
                let tok = state.create_session(IdeRole::Editor).expect("session").token;
                let mut successes: Vec<(u64, u64, String, String)> = Vec::new(); // expected, new, base, content
                for i in 0..m {
                    let Ok(s) = state.open_source(&tok, "main.st") else { continue };
                    let content = format!("t{t}-w{i}\n");
                    if let Ok(r) = state.apply_source(&tok, "main.st", s.version, content.clone(), true) {
                        successes.push((s.version, r.version, s.content.clone(), content));
                    }
                }
                successes
            }));
        }
        let mut all: Vec<(u64, u64, String, String)> = Vec::new();
        for h in handles {
            all.extend(h.join().expect("thread"));
        }
        all.sort();
        let mut ok = true;
        let mut detail = String::new();
        for pair in all.windows(2) {
            // versions strictly increase, and every write is based on the content of the previous one
            if pair[1].0 < pair[0].1 {
                ok = false;
                detail = format!("two successes overlap: {:?} then {:?}", pair[0], pair[1]);
            }
            if pair[1].2 != pair[0].3 {
                ok = false;
                detail = format!("success {:?} was not based on the previous success {:?}", pair[1], pair[0]);
            }
        }
        for s in &all {
            if s.1 != s.0 + 1 {
                ok = false;
                detail = format!("chain step is not v -> v+1: {s:?}");
            }
        }
        let disk = std::fs::read_to_string(root.join("main.st")).unwrap_or_default();
        if let Some(last) = all.last() {
            if disk != last.3 {
                ok = false;
                detail = format!("disk {disk:?} is not the last success {last:?}");
            }
        }
        out.add("stress_successes", all.len() as u64);
        out.count("stress_rounds");
        if !ok {
            out.count("oracle_fail_stress");
            out.line(format!(
                "# ORACLE-FAIL {{\"case\": \"stress-{round}\", \"class\": \"lost-update-threads\", \"op\": \"thread stress\", \"detail\": {}}}",
                json_escape(&detail)
            ));
        }
        let _ = std::fs::remove_dir_all(&base);
    }
}

/// Real-thread contention on ONE expected version (quick tier): in every round k editor sessions
/// open the file (all are given the same version v), wait on a barrier and call
/// `apply_source(expected = v, <own ~40 kB content>)` together; every 4th round a further thread
/// issues open / format / list requests meanwhile.  The property's statement on the outcome:
/// at most one success per expected version (exactly one when only writers run), it returns v+1,
/// and the file afterwards holds exactly the content of that success (else the previous content).
/// This depends on check, disk write and commit of `apply_source` being ONE locked section
/// (`Proto.next (.finish i)` in the model; `c19_counterexample_split_apply` shows what happens
/// otherwise).  Threads are nondeterministic: a failure is reported with the round's trace and
/// marked schedule-dependent.
fn barrier_stress(args: &Args, rounds: usize, out: &mut Out) {
    if rounds == 0 {
        return;
    }
    let base = std::env::temp_dir().join(format!("c19-{}-{}-bar", std::process::id(), args.seed));
    let _ = std::fs::remove_dir_all(&base);
    let root = base.join("proj");
    write_file(&root.join("main.st"), "v0\n");
    write_file(&root.join("other.st"), "PROGRAM O\nEND_PROGRAM\n");
    let state = Arc::new(WebIdeState::new(Some(root.clone())));
    let k = 4usize;
    let toks: Vec<String> =
        (0..k).map(|_| state.create_session(IdeRole::Editor).expect("session").token).collect();
    let viewer = state.create_session(IdeRole::Viewer).expect("session").token;
    let mut rng = Rng::for_case(args.seed, u64::MAX - 7);
    let mut expected_disk = "v0\n".to_string();
    for round in 0..rounds {
        let mixed = round % 4 == 3;
        let mut trace: Vec<String> = Vec::new();
        let mut versions = Vec::new();
        for (i, t) in toks.iter().enumerate() {
            match state.open_source(t, "main.st") {
                Ok(s) => {
                    trace.push(format!("t{i} open -> v{} ({} bytes)", s.version, s.content.len()));
                    versions.push(s.version);
                }
                Err(e) => trace.push(format!("t{i} open -> {}", err_str(&e))),
            }
        }
        let v = versions.first().copied().unwrap_or(0);
        let mut problems: Vec<String> = Vec::new();
        if versions.len() != k || versions.iter().any(|x| *x != v) {
            problems.push(format!("sequential opens returned different versions {versions:?}"));
        }
        let barrier = Arc::new(std::sync::Barrier::new(k + usize::from(mixed)));
        let pad = 30_000 + rng.below(20_000) as usize;
        let mut handles = Vec::new();
        for (i, t) in toks.iter().enumerate() {
            let (state, barrier, t) = (state.clone(), barrier.clone(), t.clone());
            let content = format!("r{round}-t{i}\n{}\n", char::from(b'a' + i as u8).to_string().repeat(pad));
            handles.push(std::thread::spawn(move || {
                barrier.wait();
                let r = state.apply_source(&t, "main.st", v, content.clone(), true);
                (i, content, r.map(|w| w.version).map_err(|e| err_str(&e)))
            }));
        }
        let side = mixed.then(|| {
            let (state, barrier, viewer, t0) = (state.clone(), barrier.clone(), viewer.clone(), toks[0].clone());
            std::thread::spawn(move || {
                barrier.wait();
                let mut n = 0u32;
                for j in 0..6 {
                    let ok = match j % 3 {
                        0 => state.open_source(&viewer, "other.st").is_ok(),
                        1 => state.format_source(&t0, "main.st", None).is_ok(),
                        _ => state.list_sources(&viewer).is_ok(),
                    };
                    n += u32::from(ok);
                }
                n
            })
        });
        let mut results = Vec::new();
        for h in handles {
            match h.join() {
                Ok(r) => results.push(r),
                Err(_) => problems.push("a writer thread panicked".into()),
            }
        }
        if let Some(h) = side {
            if h.join().is_err() {
                problems.push("the reader thread panicked".into());
            }
        }
        results.sort_by_key(|r| r.0);
        let mut successes = Vec::new();
        for (i, content, r) in &results {
            match r {
                Ok(nv) => {
                    trace.push(format!("t{i} apply(expected={v}) -> ok v{nv}"));
                    successes.push((*i, content.clone(), *nv));
                }
                Err(e) => trace.push(format!("t{i} apply(expected={v}) -> {e}")),
            }
        }
        if successes.len() > 1 {
            problems.push(format!("{} writes based on version {v} succeeded", successes.len()));
        }
        if successes.is_empty() && problems.is_empty() {
            problems.push(format!("no write based on the current version {v} succeeded"));
        }
        for (i, _, nv) in &successes {
            if *nv != v + 1 {
                problems.push(format!("t{i}: success is not v -> v+1 ({v} -> {nv})"));
            }
        }
        // the last success = the one with the highest returned version
        if let Some((_, c, _)) = successes.iter().max_by_key(|s| s.2) {
            expected_disk = c.clone();
        }
        let disk = std::fs::read_to_string(root.join("main.st")).unwrap_or_default();
        if disk != expected_disk {
            let head: String = disk.chars().take(12).collect();
            let want: String = expected_disk.chars().take(12).collect();
            problems.push(format!(
                "disk ({} bytes, starts {head:?}) is not the content of the last success ({} bytes, starts {want:?})",
                disk.len(),
                expected_disk.len()
            ));
            // keep going from what is really there
            expected_disk = disk;
        }
        out.count("barrier_rounds");
        out.add("barrier_successes", successes.len() as u64);
        if !problems.is_empty() {
            out.count("oracle_fail_barrier");
            out.line(format!(
                "# ORACLE-FAIL {{\"case\": \"barrier-{round}\", \"class\": \"lost-update-threads\", \"schedule_dependent\": true, \"op\": \"{k} threads released together: apply_source(main.st, expected={v})\", \"detail\": {}, \"trace\": {}}}",
                json_escape(&problems.join("; ")),
                serde_json::to_string(&trace).unwrap_or_default()
            ));
        }
    }
    let _ = std::fs::remove_dir_all(&base);
}

pub fn run(args: &Args) -> i32 {
    let mut out = Out::new();
    for n in args.case_numbers() {
        let fails = run_case(args, n, &mut out);
        out.count("cases");
        if fails > 0 {
            out.count("cases_with_oracle_failure");
        }
    }
    if args.only.is_none() {
        out.line("case known");
        replay_rename_symbol_bypass(args, &mut out);
        barrier_stress(args, args.extra_usize("barrier", 200), &mut out);
        let rounds = args.extra_usize("stress", 0);
        thread_stress(args, rounds, &mut out);
        out.line("end");
    }
    out.finish(&args.out);
    0
}
