//! C20 — resource threads: consistent shared globals; pause/resume/stop always work.
//!
//! Runs the REAL `ResourceRunner::spawn_with_shared` threads (real `ManualClock`, `StartGate`,
//! `SharedGlobals`, command channel, `Runtime::execute_cycle` on programs built by the real
//! compiler) under two kinds of schedules:
//!
//! * **scripted** cases: every thread is parked at well defined points — the clock read of each
//!   loop iteration (`N`, a `Clock` wrapper that delegates everything else to the real
//!   `ManualClock`), inside `IoDriver::read_inputs` while it owns the shared mutex (`H`) — so that
//!   after every controller operation the system is quiescent and its status is a deterministic
//!   function of the script.  The Lean driver replays the script on the model and must print the
//!   same status lines.
//! * **stress** cases: threads run freely under a random controller; the I/O driver (which runs
//!   inside the locked closure) records the lock order and what every cycle saw and wrote; the
//!   model replays that order serially; pause/stop obligations are evaluated on the recorded
//!   history.
//!
//! Timeouts: the only short timeout (`miss_ms`) is used to conclude "this thread is blocked on
//! the shared mutex" where the script expects exactly that, so it can only miss a defect.  Every
//! other wait is bounded by a hard watchdog (`hang_s`); running into it is reported as `hang`.

use std::collections::VecDeque;
use std::sync::atomic::{AtomicU64, Ordering};
use std::sync::mpsc::Receiver;
use std::sync::{Arc, Condvar, Mutex};
use std::time::{Duration as StdDuration, Instant};

use indexmap::IndexMap;
use smol_str::SmolStr;
use trust_runtime::error::RuntimeError;
use trust_runtime::harness::TestHarness;
use trust_runtime::io::IoDriver;
use trust_runtime::retain::RetainStore;
use trust_runtime::scheduler::{
    Clock, ManualClock, ResourceCommand, ResourceControl, ResourceHandle, ResourceRunner,
    ResourceState, SharedGlobals, StartGate,
};
use trust_runtime::value::{Duration, Value};
use trust_runtime::watchdog::FaultPolicy;
use trust_runtime::RetainSnapshot;

use crate::rng::Rng;
use crate::util::{join, Out};
use crate::Args;

// ------------------------------------------------------------------------------------------------
// Instrumentation shared between the controller (harness main thread) and one resource thread
// ------------------------------------------------------------------------------------------------

#[derive(Clone, Debug)]
pub struct Attempt {
    pub stamp: u64,
    pub input: u8,
    /// `Some` once `write_outputs` was reached: (cnt seen, pa seen, pb seen, cnt after, lc after)
    pub out: Option<[i64; 5]>,
}

#[derive(Default)]
pub struct Obs {
    tokens: u64,
    free_run: bool,
    at_now: bool,
    in_sleep: Option<i64>,
    hold: bool,
    in_hold: bool,
    input: u8,
    enters: u64,
    writes: u64,
    attempts: Vec<Attempt>,
    reported: usize,
    saves: Vec<Option<i64>>,
    dropped: bool,
    /// stress cases: a short random busy wait inside `read_inputs` (inside the locked closure)
    jitter: u32,
    /// poison scenario: the driver panics in `read_inputs`
    panic_on_read: bool,
}

/// Rung by every instrumentation point so that the controller can wait without spinning.
#[derive(Default)]
pub struct Bell {
    m: Mutex<u64>,
    cv: Condvar,
}

impl Bell {
    fn epoch(&self) -> u64 {
        *self.m.lock().unwrap()
    }
    /// Waits until the epoch differs from `seen` or `max` has passed.
    fn wait_change(&self, seen: u64, max: StdDuration) {
        let g = self.m.lock().unwrap();
        if *g != seen {
            return;
        }
        let _ = self.cv.wait_timeout(g, max).unwrap();
    }
}

#[derive(Default)]
pub struct Ctl {
    m: Mutex<Obs>,
    cv: Condvar,
    bell: Arc<Bell>,
}

impl Ctl {
    fn with_bell(bell: Arc<Bell>) -> Ctl {
        Ctl {
            m: Mutex::new(Obs::default()),
            cv: Condvar::new(),
            bell,
        }
    }
    /// wake whoever waits for this resource's instrumentation state (thread side)
    fn ring(&self) {
        self.cv.notify_all();
        let mut e = self.bell.m.lock().unwrap();
        *e += 1;
        self.bell.cv.notify_all();
    }
}

/// The clock handed to `ResourceRunner`: the real `ManualClock`, plus a rendezvous in `now()`
/// (called once per loop iteration, outside the shared mutex) that stands for the OS scheduler
/// taking the CPU away at that point.
#[derive(Clone)]
pub struct StepClock {
    inner: ManualClock,
    ctl: Arc<Ctl>,
}

impl Clock for StepClock {
    fn now(&self) -> Duration {
        let mut g = self.ctl.m.lock().unwrap();
        g.at_now = true;
        self.ctl.ring();
        while g.tokens == 0 && !g.free_run {
            g = self.ctl.cv.wait(g).unwrap();
        }
        if !g.free_run {
            g.tokens -= 1;
        }
        g.at_now = false;
        let jitter = g.jitter;
        drop(g);
        if jitter > 0 {
            // stress cases: perturb the schedule outside the locked closure as well, so that the
            // mutex changes hands between spinning threads
            let t = std::time::SystemTime::now()
                .duration_since(std::time::UNIX_EPOCH)
                .map(|d| d.subsec_nanos())
                .unwrap_or(0);
            let spins = (t >> 4) % jitter;
            for _ in 0..spins {
                std::hint::spin_loop();
            }
            if spins % 8 == 0 {
                std::thread::yield_now();
            }
        }
        self.inner.now()
    }

    fn sleep_until(&self, deadline: Duration) {
        {
            let mut g = self.ctl.m.lock().unwrap();
            g.in_sleep = Some(deadline.as_nanos());
            self.ctl.ring();
        }
        self.inner.sleep_until(deadline);
        let mut g = self.ctl.m.lock().unwrap();
        g.in_sleep = None;
        self.ctl.ring();
    }

    fn wake(&self) {
        self.inner.wake();
    }
}

/// I/O driver of one resource: `read_inputs` / `write_outputs` run inside `execute_cycle`, i.e.
/// inside the locked closure, so the stamps taken here are in lock order.
struct Probe {
    ctl: Arc<Ctl>,
    stamp: Arc<AtomicU64>,
}

fn le_i32(bytes: &[u8], at: usize) -> i64 {
    let mut b = [0u8; 4];
    b.copy_from_slice(&bytes[at..at + 4]);
    i64::from(i32::from_le_bytes(b))
}

impl IoDriver for Probe {
    fn read_inputs(&mut self, inputs: &mut [u8]) -> Result<(), RuntimeError> {
        let mut g = self.ctl.m.lock().unwrap();
        if g.hold {
            g.in_hold = true;
            self.ctl.ring();
            while g.hold {
                g = self.ctl.cv.wait(g).unwrap();
            }
            g.in_hold = false;
        }
        if g.jitter > 0 {
            // perturb the schedule while the mutex is held (cheap xorshift on the stamp)
            let mut x = self.stamp.load(Ordering::Relaxed).wrapping_mul(0x9E37_79B9_7F4A_7C15) | 1;
            x ^= x >> 29;
            let spins = (x % u64::from(g.jitter)) as u32;
            drop(g);
            for _ in 0..spins {
                std::hint::spin_loop();
            }
            if spins % 7 == 0 {
                std::thread::yield_now();
            }
            g = self.ctl.m.lock().unwrap();
        }
        if g.panic_on_read {
            drop(g);
            panic!("c20 probe: injected I/O driver panic");
        }
        g.enters += 1;
        let input = g.input;
        if let Some(b) = inputs.get_mut(0) {
            *b = input;
        }
        let stamp = self.stamp.fetch_add(1, Ordering::SeqCst);
        g.attempts.push(Attempt {
            stamp,
            input,
            out: None,
        });
        self.ctl.ring();
        Ok(())
    }

    fn write_outputs(&mut self, outputs: &[u8]) -> Result<(), RuntimeError> {
        let mut g = self.ctl.m.lock().unwrap();
        g.writes += 1;
        if outputs.len() >= 20 {
            let vals = [
                le_i32(outputs, 0),
                le_i32(outputs, 4),
                le_i32(outputs, 8),
                le_i32(outputs, 12),
                le_i32(outputs, 16),
            ];
            if let Some(last) = g.attempts.last_mut() {
                last.out = Some(vals);
            }
        }
        self.ctl.ring();
        Ok(())
    }
}

impl Drop for Probe {
    fn drop(&mut self) {
        let mut g = self.ctl.m.lock().unwrap();
        g.dropped = true;
        self.ctl.ring();
    }
}

struct CountingStore {
    ctl: Arc<Ctl>,
}

fn value_i64(v: &Value) -> Option<i64> {
    match v {
        Value::DInt(v) => Some(i64::from(*v)),
        Value::Int(v) => Some(i64::from(*v)),
        Value::SInt(v) => Some(i64::from(*v)),
        Value::LInt(v) => Some(*v),
        Value::UDInt(v) => Some(i64::from(*v)),
        Value::UInt(v) => Some(i64::from(*v)),
        Value::USInt(v) => Some(i64::from(*v)),
        _ => None,
    }
}

impl RetainStore for CountingStore {
    fn load(&self) -> Result<RetainSnapshot, RuntimeError> {
        Ok(RetainSnapshot::default())
    }
    fn store(&self, snapshot: &RetainSnapshot) -> Result<(), RuntimeError> {
        let rc = snapshot.values().get("rc").and_then(value_i64);
        self.ctl.m.lock().unwrap().saves.push(rc);
        Ok(())
    }
}

// ------------------------------------------------------------------------------------------------
// Configuration of a case
// ------------------------------------------------------------------------------------------------

#[derive(Clone, Debug)]
pub struct ResCfg {
    pub inc: i64,
    pub interval: i64,
    pub scale: u32,
    pub gated: bool,
    pub clk: usize,
    pub restart: bool,
    /// debugger: 0 = none, 1 = DebugControl attached and idle, 2 = attached with a breakpoint armed
    /// that is never hit, 3 = attached with a breakpoint that is hit in every cycle and continued
    /// at once by a debugger-client thread.  The model ignores this dimension: the locked closure
    /// is one critical section whatever the debugger does.
    pub dbg: u8,
}

#[derive(Clone, Debug)]
pub struct CaseCfg {
    pub res: Vec<ResCfg>,
    pub c0: i64,
    pub p0: i64,
    /// the shared names (ids as in the model), in the order given to `SharedGlobals::from_runtime`
    pub names: Vec<u32>,
}

/// Global names of the generated programs, numbered as in the model.
const NAMES: [(u32, &str); 6] = [
    (0, "cnt"),
    (1, "pa"),
    (2, "pb"),
    (3, "lc"),
    (4, "rc"),
    (9, "nope"),
];

fn name_of(id: u32) -> &'static str {
    NAMES.iter().find(|(i, _)| *i == id).map(|(_, n)| *n).unwrap_or("nope")
}

fn id_of(name: &str) -> u32 {
    NAMES.iter().find(|(_, n)| *n == name).map(|(i, _)| *i).unwrap_or(99)
}

pub fn source(inc: i64, c0: i64, p0: i64) -> String {
    format!(
        r#"
CONFIGURATION C
VAR_GLOBAL
    cnt : DINT := {c0};
    pa : DINT := {p0};
    pb : DINT := {p0};
    lc : DINT := 0;
    fm AT %IB0 : USINT;
    o_scnt AT %QD0 : DINT;
    o_spa AT %QD4 : DINT;
    o_spb AT %QD8 : DINT;
    o_cnt AT %QD12 : DINT;
    o_lc AT %QD16 : DINT;
END_VAR
VAR_GLOBAL RETAIN
    rc : DINT := 0;
END_VAR
PROGRAM P1 : Main;
END_CONFIGURATION

PROGRAM Main
VAR_EXTERNAL
    cnt : DINT;
    pa : DINT;
    pb : DINT;
    lc : DINT;
    rc : DINT;
    fm : USINT;
    o_scnt : DINT;
    o_spa : DINT;
    o_spb : DINT;
    o_cnt : DINT;
    o_lc : DINT;
END_VAR
VAR
    zero : DINT := 0;
    x : DINT := 0;
END_VAR
o_scnt := cnt;
o_spa := pa;
o_spb := pb;
IF fm = 1 THEN
    x := 1 / zero;
END_IF;
cnt := cnt + {inc};
pa := pa + 1;
IF fm = 2 THEN
    x := 1 / zero;
END_IF;
pb := pb + 1;
lc := lc + 1;
rc := rc + 1;
o_cnt := cnt;
o_lc := lc;
END_PROGRAM
"#
    )
}

// ------------------------------------------------------------------------------------------------
// Debugger dimension
// ------------------------------------------------------------------------------------------------

/// Stops every debugger-client thread of a case when dropped.
pub struct DebugClients {
    quit: Arc<std::sync::atomic::AtomicBool>,
    pub hits: Arc<AtomicU64>,
}

impl DebugClients {
    fn new() -> Self {
        DebugClients {
            quit: Arc::new(std::sync::atomic::AtomicBool::new(false)),
            hits: Arc::new(AtomicU64::new(0)),
        }
    }
}

impl Drop for DebugClients {
    fn drop(&mut self) {
        self.quit.store(true, Ordering::SeqCst);
    }
}

/// Attaches a `DebugControl` to `rt` according to `dbg` (see `ResCfg::dbg`).
fn attach_debugger(rt: &mut trust_runtime::Runtime, dbg: u8, src: &str, clients: &DebugClients) -> Result<(), String> {
    use trust_runtime::debug::{DebugBreakpoint, SourceLocation};
    if dbg == 0 {
        return Ok(());
    }
    let debug = rt.enable_debug();
    // cycle events are not consumed by anybody: send them into a closed channel instead of a queue
    let (etx, erx) = std::sync::mpsc::channel();
    drop(erx);
    debug.set_runtime_sender(etx);
    match dbg {
        2 => debug.set_breakpoints_for_file(4242, vec![DebugBreakpoint::new(SourceLocation::new(4242, 0, 10))]),
        3 => {
            // the second statement of the program body, executed in every cycle
            let at = src.find("o_spa := pa;").ok_or("statement not found")? as u32;
            let loc = rt
                .statement_locations(0)
                .and_then(|ls| ls.iter().find(|l| l.start == at).copied())
                .ok_or("no statement location for the breakpoint")?;
            let (stx, srx) = std::sync::mpsc::channel();
            debug.set_stop_sender(stx);
            debug.set_breakpoints_for_file(0, vec![DebugBreakpoint::new(loc)]);
            let quit = clients.quit.clone();
            let hits = clients.hits.clone();
            let client = debug.clone();
            std::thread::Builder::new()
                .name("c20-debugger".into())
                .spawn(move || loop {
                    match srx.recv_timeout(StdDuration::from_millis(20)) {
                        Ok(_stop) => {
                            hits.fetch_add(1, Ordering::SeqCst);
                            client.continue_run();
                        }
                        Err(std::sync::mpsc::RecvTimeoutError::Timeout) => {
                            if quit.load(Ordering::SeqCst) {
                                return;
                            }
                        }
                        Err(std::sync::mpsc::RecvTimeoutError::Disconnected) => return,
                    }
                })
                .map_err(|e| e.to_string())?;
        }
        _ => {}
    }
    Ok(())
}

// ------------------------------------------------------------------------------------------------
// The world: real threads + controller-side bookkeeping
// ------------------------------------------------------------------------------------------------

#[derive(Clone, Debug, PartialEq)]
pub enum Pos {
    G,
    N,
    S(i64),
    L,
    H,
    D,
    Flight,
    Hang,
}

impl Pos {
    fn show(&self) -> String {
        match self {
            Pos::G => "G".into(),
            Pos::N => "N".into(),
            Pos::S(d) => format!("S@{d}"),
            Pos::L => "L".into(),
            Pos::H => "H".into(),
            Pos::D => "D".into(),
            Pos::Flight => "F".into(),
            Pos::Hang => "hang".into(),
        }
    }
}

struct Rsrc {
    handle: ResourceHandle<StepClock>,
    control: ResourceControl<StepClock>,
    ctl: Arc<Ctl>,
    clk: usize,
    joined: bool,
    join_ok: bool,
    stop_requested: bool,
    /// granted a token in the run branch and not seen at a parking point since
    lock_bound: bool,
    classified_l: bool,
    snaps: VecDeque<Receiver<IndexMap<SmolStr, Value>>>,
}

struct ClockSt {
    clock: ManualClock,
    now: i64,
    intr: bool,
}

pub struct World {
    res: Vec<Rsrc>,
    clocks: Vec<ClockSt>,
    shared: SharedGlobals,
    gate: Arc<StartGate>,
    gate_open: bool,
    bell: Arc<Bell>,
    pub dbg_clients: DebugClients,
    miss: StdDuration,
    hang: StdDuration,
    pub saw_l: bool,
    pub hung: bool,
}

fn show_state(s: ResourceState) -> &'static str {
    match s {
        ResourceState::Boot => "boot",
        ResourceState::Ready => "ready",
        ResourceState::Running => "running",
        ResourceState::Paused => "paused",
        ResourceState::Faulted => "faulted",
        ResourceState::Stopped => "stopped",
    }
}

fn show_err(e: Option<RuntimeError>) -> &'static str {
    match e {
        None => "-",
        Some(RuntimeError::UndefinedVariable(_)) => "undefined",
        Some(RuntimeError::DivisionByZero) => "cycle",
        Some(_) => "other",
    }
}

impl World {
    pub fn build(cfg: &CaseCfg, stamp: Arc<AtomicU64>, miss_ms: u64, hang_s: u64, free: bool) -> Result<World, String> {
        let nclocks = cfg.res.iter().map(|r| r.clk).max().unwrap_or(0) + 1;
        let clocks: Vec<ClockSt> = (0..nclocks)
            .map(|_| ClockSt {
                clock: ManualClock::new(),
                now: 0,
                intr: false,
            })
            .collect();
        let gate = Arc::new(StartGate::new());
        let bell = Arc::new(Bell::default());
        let dbg_clients = DebugClients::new();
        let mut runtimes = Vec::new();
        let mut ctls = Vec::new();
        for rc in &cfg.res {
            let ctl = Arc::new(Ctl::with_bell(bell.clone()));
            if free {
                let mut g = ctl.m.lock().unwrap();
                g.free_run = true;
                g.jitter = 600;
            }
            let src = source(rc.inc, cfg.c0, cfg.p0);
            let mut rt = TestHarness::from_source(&src)
                .map_err(|e| format!("compile: {e}"))?
                .into_runtime();
            rt.io_mut().resize(1, 20, 0);
            attach_debugger(&mut rt, rc.dbg, &src, &dbg_clients)?;
            if rc.restart {
                rt.set_fault_policy(FaultPolicy::Restart);
            }
            rt.add_io_driver(
                "probe",
                Box::new(Probe {
                    ctl: ctl.clone(),
                    stamp: stamp.clone(),
                }),
            );
            rt.set_retain_store(Some(Box::new(CountingStore { ctl: ctl.clone() })), None);
            runtimes.push(rt);
            ctls.push(ctl);
        }
        let shared = SharedGlobals::from_runtime(
            cfg.names.iter().map(|n| SmolStr::new(name_of(*n))).collect(),
            &runtimes[0],
        )
        .map_err(|e| format!("from_runtime: {e:?}"))?;
        let mut res = Vec::new();
        for (i, (rt, ctl)) in runtimes.into_iter().zip(ctls.into_iter()).enumerate() {
            let rc = &cfg.res[i];
            let clock = StepClock {
                inner: clocks[rc.clk].clock.clone(),
                ctl: ctl.clone(),
            };
            let mut runner = ResourceRunner::new(rt, clock, Duration::from_nanos(rc.interval))
                .with_time_scale(rc.scale);
            if rc.gated {
                runner = runner.with_start_gate(gate.clone());
            }
            let handle = runner
                .spawn_with_shared(format!("c20-r{i}"), shared.clone())
                .map_err(|e| format!("spawn: {e:?}"))?;
            let control = handle.control();
            res.push(Rsrc {
                handle,
                control,
                ctl,
                clk: rc.clk,
                joined: false,
                join_ok: true,
                stop_requested: false,
                lock_bound: false,
                classified_l: false,
                snaps: VecDeque::new(),
            });
        }
        Ok(World {
            res,
            clocks,
            shared,
            gate,
            gate_open: false,
            bell,
            dbg_clients,
            miss: StdDuration::from_millis(miss_ms),
            hang: StdDuration::from_secs(hang_s),
            saw_l: false,
            hung: false,
        })
    }

    fn observe(&self, r: usize) -> Pos {
        let x = &self.res[r];
        let g = x.ctl.m.lock().unwrap();
        if g.dropped {
            return Pos::D;
        }
        if g.in_hold {
            return Pos::H;
        }
        if g.at_now && g.tokens == 0 && !g.free_run {
            return Pos::N;
        }
        if let Some(d) = g.in_sleep {
            let c = &self.clocks[x.clk];
            if !c.intr && c.now < d {
                return Pos::S(d);
            }
            return Pos::Flight;
        }
        drop(g);
        if x.handle.state() == ResourceState::Ready && !self.gate_open && !x.stop_requested {
            return Pos::G;
        }
        Pos::Flight
    }

    /// Wait until every thread is parked, blocked or gone.
    pub fn settle(&mut self, free: bool) -> Vec<Pos> {
        let start = Instant::now();
        loop {
            let epoch = self.bell.epoch();
            let n = self.res.len();
            let held: Vec<bool> = (0..n)
                .map(|r| self.res[r].ctl.m.lock().unwrap().in_hold)
                .collect();
            let mut all = true;
            let mut pos = Vec::with_capacity(n);
            for r in 0..n {
                let p = self.observe(r);
                match p {
                    Pos::Flight => {
                        let other_holds = held.iter().enumerate().any(|(q, h)| *h && q != r);
                        if !free && self.res[r].lock_bound && other_holds {
                            if self.res[r].classified_l || start.elapsed() >= self.miss {
                                pos.push(Pos::L);
                                continue;
                            }
                        }
                        all = false;
                        pos.push(Pos::Flight);
                    }
                    Pos::D => {
                        let x = &mut self.res[r];
                        if !x.joined {
                            x.join_ok = x.handle.join().is_ok();
                            x.joined = true;
                        }
                        x.lock_bound = false;
                        x.classified_l = false;
                        pos.push(Pos::D);
                    }
                    Pos::N | Pos::S(_) | Pos::H | Pos::G => {
                        self.res[r].lock_bound = false;
                        self.res[r].classified_l = false;
                        pos.push(p);
                    }
                    other => pos.push(other),
                }
            }
            if all {
                for (r, p) in pos.iter().enumerate() {
                    if *p == Pos::L {
                        self.res[r].classified_l = true;
                        self.saw_l = true;
                    }
                }
                return pos;
            }
            if start.elapsed() > self.hang {
                self.hung = true;
                return pos
                    .into_iter()
                    .map(|p| if p == Pos::Flight { Pos::Hang } else { p })
                    .collect();
            }
            // sleep until some instrumentation point is passed (or 1 ms: the gate, the clock
            // bookkeeping and the `miss` window are not signalled)
            self.bell.wait_change(epoch, StdDuration::from_millis(1));
        }
    }

    fn pos_is_lock_free(pos: &[Pos]) -> bool {
        !pos.iter()
            .any(|p| matches!(p, Pos::H | Pos::L | Pos::Flight | Pos::Hang))
    }

    /// The status line (without the `impl ` prefix).
    pub fn status(&mut self, ret: &str, pos: &[Pos], free: bool) -> String {
        let mut per = Vec::new();
        let mut cycles: Vec<(u64, usize, [i64; 5])> = Vec::new();
        for (r, x) in self.res.iter().enumerate() {
            let mut g = x.ctl.m.lock().unwrap();
            let sv = match g.saves.last() {
                Some(Some(v)) => format!("v{}={}", g.saves.len(), v),
                Some(None) => format!("v{}=?", g.saves.len()),
                None => "v0".to_string(),
            };
            let from = g.reported;
            // an attempt still waiting for its `write_outputs` is reported once it is complete
            let upto = if pos[r] == Pos::H || pos[r] == Pos::Flight || pos[r] == Pos::Hang {
                g.attempts.len().saturating_sub(1).max(from)
            } else {
                g.attempts.len()
            };
            for a in &g.attempts[from..upto] {
                if let Some(vals) = a.out {
                    cycles.push((a.stamp, r, vals));
                }
            }
            g.reported = upto;
            let join_note = if x.joined && !x.join_ok { "!panic" } else { "" };
            per.push(format!(
                "r{r}={},{}{},e{},w{},{},{}",
                pos[r].show(),
                show_state(x.handle.state()),
                join_note,
                g.enters,
                g.writes,
                sv,
                show_err(x.handle.last_error())
            ));
        }
        cycles.sort();
        let sh = if Self::pos_is_lock_free(pos) {
            let get = |n: &str| {
                self.shared
                    .get(n)
                    .as_ref()
                    .and_then(value_i64)
                    .map(|v| v.to_string())
                    .unwrap_or_else(|| "?".into())
            };
            format!("{},{},{}", get("cnt"), get("pa"), get("pb"))
        } else {
            "-".to_string()
        };
        let cyc = if free {
            "*".to_string()
        } else if cycles.is_empty() {
            "-".to_string()
        } else {
            join(
                cycles.iter().map(|(_, r, v)| format!("{r}:{}/{}/{}/{}/{}", v[0], v[1], v[2], v[3], v[4])),
                ";",
            )
        };
        let mut snaps = Vec::new();
        for (r, x) in self.res.iter_mut().enumerate() {
            while let Some(rx) = x.snaps.front() {
                match rx.try_recv() {
                    Ok(map) => {
                        let body = join(
                            map.iter().map(|(k, v)| {
                                format!(
                                    "{}={}",
                                    id_of(k.as_str()),
                                    value_i64(v).map(|v| v.to_string()).unwrap_or_else(|| "?".into())
                                )
                            }),
                            ",",
                        );
                        snaps.push(format!("{r}:{body}"));
                        x.snaps.pop_front();
                    }
                    Err(std::sync::mpsc::TryRecvError::Empty) => break,
                    Err(std::sync::mpsc::TryRecvError::Disconnected) => {
                        // the command was dropped unprocessed (thread ended)
                        x.snaps.pop_front();
                    }
                }
            }
        }
        let snap = if snaps.is_empty() { "-".to_string() } else { snaps.join(";") };
        format!("{ret} | {} | sh={sh} | cyc={cyc} | snap={snap}", per.join(" "))
    }

    fn wake_clock(&mut self, c: usize) {
        self.clocks[c].intr = true;
    }

    /// Executes one controller operation on the real objects; returns the `ret` word.
    pub fn apply(&mut self, op: &Op) -> String {
        match op {
            Op::Spawn => "-".into(),
            Op::Go(r) => {
                let x = &mut self.res[*r];
                x.lock_bound = x.handle.state() == ResourceState::Running;
                let mut g = x.ctl.m.lock().unwrap();
                g.tokens += 1;
                x.ctl.cv.notify_all();
                "-".into()
            }
            Op::Adv(c, dt) => {
                let t = self.clocks[*c].clock.advance(Duration::from_nanos(*dt));
                self.clocks[*c].now = t.as_nanos();
                "-".into()
            }
            Op::Pause(r) | Op::Resume(r) => {
                let res = if matches!(op, Op::Pause(_)) {
                    self.res[*r].control.pause()
                } else {
                    self.res[*r].control.resume()
                };
                match res {
                    Ok(()) => {
                        let c = self.res[*r].clk;
                        self.wake_clock(c);
                        "ok".into()
                    }
                    Err(_) => "closed".into(),
                }
            }
            Op::SendP(r) | Op::SendR(r) => {
                let cmd = if matches!(op, Op::SendP(_)) {
                    ResourceCommand::Pause
                } else {
                    ResourceCommand::Resume
                };
                match self.res[*r].control.send_command(cmd) {
                    Ok(()) => "ok".into(),
                    Err(_) => "closed".into(),
                }
            }
            Op::MApply(r, ups) => {
                let mut updates = IndexMap::new();
                for (n, v) in ups {
                    updates.insert(SmolStr::new(name_of(*n)), Value::DInt(*v as i32));
                }
                match self.res[*r]
                    .control
                    .send_command(ResourceCommand::MeshApply { updates })
                {
                    Ok(()) => "ok".into(),
                    Err(_) => "closed".into(),
                }
            }
            Op::MSnap(r, ns) => {
                let (tx, rx) = std::sync::mpsc::channel();
                let names = ns.iter().map(|n| SmolStr::new(name_of(*n))).collect();
                match self.res[*r].control.send_command(ResourceCommand::MeshSnapshot {
                    names,
                    respond_to: tx,
                }) {
                    Ok(()) => {
                        self.res[*r].snaps.push_back(rx);
                        "ok".into()
                    }
                    Err(_) => "closed".into(),
                }
            }
            Op::Stop(r) => {
                self.res[*r].control.stop();
                self.res[*r].stop_requested = true;
                let c = self.res[*r].clk;
                self.wake_clock(c);
                "-".into()
            }
            Op::Open => {
                self.gate.open();
                self.gate_open = true;
                "-".into()
            }
            Op::Hold(r) => {
                let x = &self.res[*r];
                x.ctl.m.lock().unwrap().hold = true;
                "-".into()
            }
            Op::Release(r) => {
                let x = &self.res[*r];
                let mut g = x.ctl.m.lock().unwrap();
                g.hold = false;
                // the thread leaves the rendezvous now; it is in flight until it parks again
                g.in_hold = false;
                x.ctl.cv.notify_all();
                "-".into()
            }
            Op::SetIn(r, v) => {
                self.res[*r].ctl.m.lock().unwrap().input = *v;
                "-".into()
            }
            Op::Join => {
                self.release_everything();
                "-".into()
            }
        }
    }

    /// stop every thread and remove every obstacle the harness put in its way
    pub fn release_everything(&mut self) {
        for r in 0..self.res.len() {
            self.res[r].control.stop();
            self.res[r].stop_requested = true;
            let c = self.res[r].clk;
            self.wake_clock(c);
            let x = &self.res[r];
            let mut g = x.ctl.m.lock().unwrap();
            g.free_run = true;
            g.hold = false;
            g.in_hold = false;
            x.ctl.cv.notify_all();
        }
    }
}

// ------------------------------------------------------------------------------------------------
// Scripted cases
// ------------------------------------------------------------------------------------------------

#[derive(Clone, Debug)]
pub enum Op {
    Spawn,
    Go(usize),
    Adv(usize, i64),
    Pause(usize),
    Resume(usize),
    SendP(usize),
    SendR(usize),
    Stop(usize),
    Open,
    Hold(usize),
    Release(usize),
    SetIn(usize, u8),
    MApply(usize, Vec<(u32, i64)>),
    MSnap(usize, Vec<u32>),
    Join,
}

impl Op {
    fn show(&self) -> String {
        match self {
            Op::Spawn => "spawn".into(),
            Op::Go(r) => format!("go {r}"),
            Op::Adv(c, dt) => format!("adv {c} {dt}"),
            Op::Pause(r) => format!("pause {r}"),
            Op::Resume(r) => format!("resume {r}"),
            Op::SendP(r) => format!("sendp {r}"),
            Op::SendR(r) => format!("sendr {r}"),
            Op::Stop(r) => format!("stop {r}"),
            Op::Open => "open".into(),
            Op::Hold(r) => format!("hold {r}"),
            Op::Release(r) => format!("release {r}"),
            Op::SetIn(r, v) => format!("setin {r} {v}"),
            Op::MApply(r, ups) => format!(
                "mapply {r} {}",
                if ups.is_empty() {
                    "-".to_string()
                } else {
                    join(ups.iter().map(|(n, v)| format!("{n}={v}")), ",")
                }
            ),
            Op::MSnap(r, ns) => format!(
                "msnap {r} {}",
                if ns.is_empty() { "-".to_string() } else { join(ns.iter(), ",") }
            ),
            Op::Join => "join".into(),
        }
    }
    fn kind(&self) -> &'static str {
        match self {
            Op::Spawn => "spawn",
            Op::Go(_) => "go",
            Op::Adv(..) => "adv",
            Op::Pause(_) => "pause",
            Op::Resume(_) => "resume",
            Op::SendP(_) => "sendp",
            Op::SendR(_) => "sendr",
            Op::Stop(_) => "stop",
            Op::Open => "open",
            Op::Hold(_) => "hold",
            Op::Release(_) => "release",
            Op::SetIn(..) => "setin",
            Op::MApply(..) => "mapply",
            Op::MSnap(..) => "msnap",
            Op::Join => "join",
        }
    }
}

const MS: i64 = 1_000_000;

pub fn gen_cfg(rng: &mut Rng) -> CaseCfg {
    let n = match rng.below(10) {
        0 => 1,
        1..=4 => 2,
        5..=7 => 3,
        _ => 4,
    };
    let shared_clock = rng.chance(1, 3);
    let gated = rng.chance(1, 4);
    let intervals = [0i64, 10 * MS, 10 * MS, 10 * MS, 7 * MS, 100 * MS, 1];
    let res = (0..n)
        .map(|i| ResCfg {
            inc: rng.range(1, 9),
            interval: *rng.pick(&intervals),
            scale: if rng.chance(1, 3) { *rng.pick(&[2u32, 3, 10, 1000]) } else { 1 },
            gated: gated && !rng.chance(1, 6),
            clk: if shared_clock { 0 } else if rng.chance(1, 5) { 0 } else { i },
            restart: rng.chance(1, 4),
            dbg: *rng.pick(&[0u8, 0, 1, 2, 2, 3, 3]),
        })
        .collect();
    CaseCfg {
        res,
        c0: rng.range(-5, 50),
        p0: rng.range(-3, 20),
        names: gen_shared_names(rng),
    }
}

/// Mostly all three shared variables; sometimes a subset, another order, a duplicate, nothing.
pub fn gen_shared_names(rng: &mut Rng) -> Vec<u32> {
    match rng.below(12) {
        0 => vec![0],
        1 => vec![1, 2],
        2 => vec![2, 1, 0],
        3 => vec![0, 1, 0, 2],
        4 => vec![0, 2],
        5 => vec![],
        _ => vec![0, 1, 2],
    }
}

fn gen_names(rng: &mut Rng) -> Vec<u32> {
    let k = rng.below(4) as usize;
    (0..k).map(|_| *rng.pick(&[0u32, 1, 2, 3, 3, 4, 9])).collect()
}

/// Picks the next operation among those that make sense in the observed situation.
fn gen_op(rng: &mut Rng, cfg: &CaseCfg, w: &World, pos: &[Pos], pending: &mut VecDeque<Op>) -> Op {
    if let Some(op) = pending.pop_front() {
        return op;
    }
    let n = cfg.res.len();
    let states: Vec<ResourceState> = w.res.iter().map(|x| x.handle.state()).collect();
    let any_l = pos.iter().any(|p| *p == Pos::L);
    let any_h = pos.iter().any(|p| *p == Pos::H);
    let armed: Vec<bool> = w.res.iter().map(|x| x.ctl.m.lock().unwrap().hold).collect();
    let mut cand: Vec<(u64, Op)> = Vec::new();
    let runnable: Vec<usize> = (0..n)
        .filter(|r| pos[*r] == Pos::N && states[*r] == ResourceState::Running)
        .collect();
    for r in 0..n {
        let done = pos[r] == Pos::D;
        if pos[r] == Pos::N {
            let run_branch = states[r] == ResourceState::Running;
            if !(run_branch && any_l) {
                cand.push((12, Op::Go(r)));
            }
        }
        let wlive = if done { 1 } else { 4 };
        cand.push((wlive, Op::Pause(r)));
        cand.push((wlive, Op::Resume(r)));
        cand.push((wlive / 2 + 1, Op::SendP(r)));
        cand.push((wlive / 2 + 1, Op::SendR(r)));
        if !done {
            cand.push((1, Op::Stop(r)));
            if !armed[r] {
                cand.push((2, Op::Hold(r)));
            }
            cand.push((2, Op::SetIn(r, *rng.pick(&[0u8, 0, 0, 1, 2, 2]))));
            let ups: Vec<(u32, i64)> = (0..rng.below(3))
                .map(|_| (*rng.pick(&[0u32, 1, 3, 3, 4, 9]), rng.range(-4, 40)))
                .collect();
            cand.push((1, Op::MApply(r, ups)));
            cand.push((2, Op::MSnap(r, gen_names(rng))));
        }
        if armed[r] {
            cand.push((6, Op::Release(r)));
        }
    }
    for c in 0..w.clocks.len() {
        let ivs: Vec<i64> = cfg.res.iter().filter(|r| r.clk == c).map(|r| r.interval).collect();
        let iv = if ivs.is_empty() { 10 * MS } else { *rng.pick(&ivs) };
        let dt = if iv <= 1 {
            *rng.pick(&[1i64, 1, 1000, 0])
        } else {
            *rng.pick(&[iv, iv, iv, iv / 2, iv * 2, iv - 1, 1, 0, iv / 3])
        };
        cand.push((5, Op::Adv(c, dt)));
    }
    if cfg.res.iter().any(|r| r.gated) && !w.gate_open {
        cand.push((6, Op::Open));
    }
    // contention: A inside the locked closure, B released towards the mutex
    if runnable.len() >= 2 && !any_l && !any_h && !armed.iter().any(|a| *a) {
        cand.push((14, Op::Hold(usize::MAX)));
    }
    let total: u64 = cand.iter().map(|(w, _)| *w).sum();
    let mut pick = rng.below(total);
    let mut chosen = cand[0].1.clone();
    for (wt, op) in &cand {
        if pick < *wt {
            chosen = op.clone();
            break;
        }
        pick -= *wt;
    }
    if let Op::MApply(r, ups) = &chosen {
        // look at the effect: a snapshot of the same names right behind the update
        if rng.bool() {
            let mut ns: Vec<u32> = ups.iter().map(|(n, _)| *n).collect();
            ns.push(*rng.pick(&[3u32, 9, 4]));
            pending.push_back(Op::MSnap(*r, ns));
        }
    }
    if let Op::Hold(usize::MAX) = chosen {
        let a = *rng.pick(&runnable);
        let others: Vec<usize> = runnable.iter().copied().filter(|r| *r != a).collect();
        let b = *rng.pick(&others);
        pending.push_back(Op::Go(a));
        pending.push_back(Op::Go(b));
        // something happens while B waits
        match rng.below(6) {
            0 => pending.push_back(Op::Pause(b)),
            1 => pending.push_back(Op::Stop(b)),
            2 => pending.push_back(Op::Adv(cfg.res[b].clk, cfg.res[b].interval.max(1))),
            3 => pending.push_back(Op::Pause(a)),
            4 => pending.push_back(Op::Stop(a)),
            _ => {}
        }
        pending.push_back(Op::Release(a));
        return Op::Hold(a);
    }
    chosen
}

fn write_cfg(n: u64, cfg: &CaseCfg, out: &mut Out) {
    for r in &cfg.res {
        out.count(&format!("res_debugger_mode_{}", r.dbg));
    }
    out.line(format!("case {n}"));
    out.line(format!(
        "sys {} {} {} {}",
        cfg.res.len(),
        cfg.c0,
        cfg.p0,
        if cfg.names.is_empty() { "-".to_string() } else { join(cfg.names.iter(), ",") }
    ));
    for (i, r) in cfg.res.iter().enumerate() {
        out.line(format!(
            "res {i} {} {} {} {} {} {} {}",
            r.inc,
            r.interval,
            r.scale,
            u8::from(r.gated),
            r.clk,
            u8::from(r.restart),
            r.dbg
        ));
    }
}

pub fn run_scripted(n: u64, rng: &mut Rng, args: &Args, stamp: Arc<AtomicU64>, out: &mut Out) -> Result<(), String> {
    let cfg = gen_cfg(rng);
    let nops = 8 + rng.below(args.extra_usize("ops", 36) as u64) as usize;
    write_cfg(n, &cfg, out);
    let mut w = World::build(
        &cfg,
        stamp,
        args.extra_usize("miss_ms", 12) as u64,
        args.extra_usize("hang_s", 20) as u64,
        false,
    )?;
    let mut pending: VecDeque<Op> = VecDeque::new();
    let mut pos;
    let mut paused_go = false;
    let mut fault_seen = false;
    // spawn
    out.line("spawn");
    pos = w.settle(false);
    let st = w.status("-", &pos, false);
    out.line(format!("impl {st}"));
    for k in 0..nops {
        if w.hung {
            break;
        }
        if k + 1 >= nops && pending.is_empty() {
            break;
        }
        let op = gen_op(rng, &cfg, &w, &pos, &mut pending);
        if let Op::Go(r) = op {
            if w.res[r].handle.state() == ResourceState::Paused {
                paused_go = true;
            }
        }
        out.line(op.show());
        out.count(&format!("op_{}", op.kind()));
        let ret = w.apply(&op);
        pos = w.settle(false);
        let st = w.status(&ret, &pos, false);
        if st.contains("faulted") {
            fault_seen = true;
        }
        out.line(format!("impl {st}"));
    }
    // End of the case: stop the threads one by one (each `stop` is an ordinary scripted operation,
    // so no thread moves between the store of its flag and the wake-up of a clock it shares),
    // then remove every obstacle and wait for the end.
    for r in 0..w.res.len() {
        if pos[r] == Pos::D || w.hung {
            continue;
        }
        let op = Op::Stop(r);
        out.line(op.show());
        out.count("op_stop");
        let ret = w.apply(&op);
        pos = w.settle(false);
        let st = w.status(&ret, &pos, false);
        out.line(format!("impl {st}"));
    }
    if w.hung {
        // the mismatch is on record; clean up without further comparison
        out.line("abort");
        w.release_everything();
        let _ = w.settle(true);
    } else {
        out.line("join");
        out.count("op_join");
        w.release_everything();
        pos = w.settle(true);
        let st = w.status("-", &pos, true);
        if st.contains("faulted") {
            fault_seen = true;
        }
        out.line(format!("impl {st}"));
    }
    let total_cycles: u64 = w.res.iter().map(|x| x.ctl.m.lock().unwrap().writes).sum();
    let active = w.res.iter().filter(|x| x.ctl.m.lock().unwrap().writes > 0).count();
    if w.saw_l {
        out.line("tag contention");
        out.count("cases_with_contention");
    }
    if paused_go {
        out.line("tag paused-go");
        out.count("cases_with_paused_go");
    }
    if fault_seen {
        out.line("tag fault");
        out.count("cases_with_fault");
    }
    if !w.hung && cfg.names.contains(&1) && cfg.names.contains(&2) {
        let pa = w.shared.get("pa").as_ref().and_then(value_i64);
        let pb = w.shared.get("pb").as_ref().and_then(value_i64);
        if pa.is_some() && pb.is_some() && pa != pb {
            // only a cycle that faulted between the two writes and was written back can do this
            // (finding C20-faulted-cycle-publishes-partial-writes, fixed: a reproduction is a violation)
            out.line("tag partial-publish");
            out.count("cases_with_partial_publish");
        }
    }
    if w.hung {
        out.line("tag hang");
        out.count("cases_with_hang");
    }
    out.add("cycles", total_cycles);
    out.add("debugger_breakpoint_hits", w.dbg_clients.hits.load(Ordering::SeqCst));
    if cfg.res.iter().any(|r| r.dbg >= 2) {
        out.line("tag debugger-armed");
    }
    if active >= 2 && (w.saw_l || paused_go || fault_seen) {
        out.line("tag nontrivial");
    }
    out.line("end");
    Ok(())
}

// ------------------------------------------------------------------------------------------------
// API cases: `SharedGlobals::from_runtime` and the single-threaded `tick_with_shared`
// (the second copy of the locked closure, scheduler.rs `tick_with_shared`)
// ------------------------------------------------------------------------------------------------

fn show_names(ns: &[u32]) -> String {
    if ns.is_empty() {
        "-".to_string()
    } else {
        join(ns.iter(), ",")
    }
}

pub fn run_api(n: u64, rng: &mut Rng, _args: &Args, stamp: Arc<AtomicU64>, out: &mut Out) -> Result<(), String> {
    let mut cfg = gen_cfg(rng);
    for r in cfg.res.iter_mut() {
        r.gated = false;
        r.restart = false;
    }
    write_cfg(n, &cfg, out);
    // runtimes with probes, not spawned
    let mut runners = Vec::new();
    let mut ctls = Vec::new();
    let dbg_clients = DebugClients::new();
    for rc in &cfg.res {
        let ctl = Arc::new(Ctl::default());
        ctl.m.lock().unwrap().free_run = true;
        let src = source(rc.inc, cfg.c0, cfg.p0);
        let mut rt = TestHarness::from_source(&src)
            .map_err(|e| format!("compile: {e}"))?
            .into_runtime();
        rt.io_mut().resize(1, 20, 0);
        attach_debugger(&mut rt, rc.dbg, &src, &dbg_clients)?;
        rt.add_io_driver("probe", Box::new(Probe { ctl: ctl.clone(), stamp: stamp.clone() }));
        let clock = StepClock { inner: ManualClock::new(), ctl: ctl.clone() };
        runners.push(ResourceRunner::new(rt, clock, Duration::from_nanos(rc.interval)));
        ctls.push(ctl);
    }
    // from_runtime with and without unknown names
    for _ in 0..2 {
        let k = rng.below(5) as usize;
        let ns: Vec<u32> = (0..k).map(|_| *rng.pick(&[0u32, 1, 2, 3, 4, 9, 0, 1])).collect();
        out.line(format!("fromrt {}", show_names(&ns)));
        let res = SharedGlobals::from_runtime(
            ns.iter().map(|n| SmolStr::new(name_of(*n))).collect(),
            runners[0].runtime(),
        );
        out.line(match res {
            Ok(_) => "impl ok".to_string(),
            Err(RuntimeError::UndefinedVariable(_)) => "impl err-undefined".to_string(),
            Err(e) => format!("impl err-other {e:?}"),
        });
        out.count("api_fromrt");
    }
    let shared = SharedGlobals::from_runtime(
        cfg.names.iter().map(|n| SmolStr::new(name_of(*n))).collect(),
        runners[0].runtime(),
    )
    .map_err(|e| format!("from_runtime: {e:?}"))?;
    let nticks = 5 + rng.below(25);
    let mut faulted = 0;
    for _ in 0..nticks {
        let r = rng.below(runners.len() as u64) as usize;
        let inp = *rng.pick(&[0u8, 0, 0, 0, 0, 0, 1, 2]);
        ctls[r].m.lock().unwrap().input = inp;
        out.line(format!("scyc {r} {inp}"));
        let res = runners[r].tick_with_shared(&shared);
        let g = ctls[r].m.lock().unwrap();
        match (&res, g.attempts.last().and_then(|a| a.out)) {
            (Ok(()), Some(v)) => out.line(format!("impl ok {}/{}/{}/{}/{}", v[0], v[1], v[2], v[3], v[4])),
            (Ok(()), None) => out.line("impl ok-without-outputs"),
            (Err(_), _) => {
                faulted += 1;
                out.line("impl fault")
            }
        }
        out.count("api_ticks");
    }
    out.line("sfinal");
    let get = |n: &str| {
        shared.get(n).as_ref().and_then(value_i64).map(|v| v.to_string()).unwrap_or_else(|| "?".into())
    };
    out.line(format!("impl {},{},{}", get("cnt"), get("pa"), get("pb")));
    if faulted > 0 && runners.len() >= 2 {
        out.line("tag nontrivial");
    }
    out.add("debugger_breakpoint_hits", dbg_clients.hits.load(Ordering::SeqCst));
    out.line("tag api");
    out.line("end");
    Ok(())
}

// ------------------------------------------------------------------------------------------------
// Stress cases: free running threads, random controller; lock order recorded by the probes
// ------------------------------------------------------------------------------------------------

fn spin_us(us: u64) {
    let t = Instant::now();
    while t.elapsed() < StdDuration::from_micros(us) {
        std::hint::spin_loop();
    }
}

fn wait_state(h: &ResourceControl<StepClock>, want: &[ResourceState], max: StdDuration) -> Option<ResourceState> {
    let t = Instant::now();
    loop {
        let s = h.state();
        if want.contains(&s) {
            return Some(s);
        }
        if t.elapsed() > max {
            return None;
        }
        std::thread::yield_now();
    }
}

pub fn run_stress(n: u64, rng: &mut Rng, args: &Args, stamp: Arc<AtomicU64>, out: &mut Out) -> Result<(), String> {
    let mut cfg = gen_cfg(rng);
    if cfg.res.len() < 2 {
        let extra = cfg.res[0].clone();
        cfg.res.push(ResCfg { clk: 1, ..extra });
    }
    for r in cfg.res.iter_mut() {
        r.gated = false;
        r.scale = 1;
        r.interval = *rng.pick(&[0i64, MS, MS, 10 * MS]);
    }
    write_cfg(n, &cfg, out);
    let hang_s = args.extra_usize("hang_s", 20) as u64;
    let mut w = World::build(&cfg, stamp.clone(), 0, hang_s, true)?;
    let nres = cfg.res.len();
    let cap = args.extra_usize("stress_attempts", 300) as u64;
    let nops = 20 + rng.below(args.extra_usize("stress_ops", 80) as u64);
    let confirm = StdDuration::from_millis(100);
    // controller-side knowledge
    let mut paused_confirmed = vec![false; nres];
    let mut dirty = vec![false; nres];
    let mut stopped = vec![false; nres];
    let mut events: Vec<(u64, String)> = Vec::new();
    let total_attempts = |w: &World| -> u64 { w.res.iter().map(|x| x.ctl.m.lock().unwrap().enters).sum() };
    for _ in 0..nops {
        if total_attempts(&w) >= cap {
            break;
        }
        let r = rng.below(nres as u64) as usize;
        match rng.below(16) {
            0..=5 => {
                let c = rng.below(w.clocks.len() as u64) as usize;
                let iv = cfg.res.iter().filter(|x| x.clk == c).map(|x| x.interval).max().unwrap_or(MS).max(1);
                let t = w.clocks[c].clock.advance(Duration::from_nanos(iv));
                w.clocks[c].now = t.as_nanos();
                out.count("stress_adv");
            }
            6..=8 => {
                if !paused_confirmed[r] && !dirty[r] && !stopped[r] {
                    // pause round: send, wait until the controller can read Paused
                    if w.res[r].control.pause().is_ok() {
                        match wait_state(
                            &w.res[r].control,
                            &[ResourceState::Paused, ResourceState::Faulted, ResourceState::Stopped],
                            confirm,
                        ) {
                            Some(ResourceState::Paused) => {
                                let s = stamp.fetch_add(1, Ordering::SeqCst);
                                events.push((s, format!("spaused {r}")));
                                paused_confirmed[r] = true;
                                out.count("stress_pause_confirmed");
                            }
                            Some(_) => dirty[r] = true,
                            None => {
                                dirty[r] = true;
                                let _ = w.res[r].control.resume();
                                out.count("stress_pause_unconfirmed");
                            }
                        }
                    }
                }
            }
            9..=11 => {
                if paused_confirmed[r] {
                    let s = stamp.fetch_add(1, Ordering::SeqCst);
                    events.push((s, format!("sresume {r}")));
                    paused_confirmed[r] = false;
                    let _ = w.res[r].control.resume();
                    if wait_state(
                        &w.res[r].control,
                        &[ResourceState::Running, ResourceState::Faulted, ResourceState::Stopped],
                        confirm,
                    ) != Some(ResourceState::Running)
                    {
                        dirty[r] = true;
                    }
                }
            }
            12..=13 => {
                w.res[r].ctl.m.lock().unwrap().input = *rng.pick(&[0u8, 0, 0, 1, 2]);
            }
            14 => {
                let live = stopped.iter().filter(|s| !**s).count();
                if live > 1 && !stopped[r] {
                    w.res[r].control.stop();
                    stopped[r] = true;
                    out.count("stress_stop_midway");
                }
            }
            _ => spin_us(rng.below(300)),
        }
        spin_us(rng.below(120));
    }
    // leave some resources paused when the stop arrives (stop-while-paused)
    for r in 0..nres {
        if paused_confirmed[r] && rng.bool() {
            let s = stamp.fetch_add(1, Ordering::SeqCst);
            events.push((s, format!("sresume {r}")));
            paused_confirmed[r] = false;
            let _ = w.res[r].control.resume();
        }
    }
    w.release_everything();
    let pos = w.settle(true);
    let hung = w.hung;
    // merge the lock-order log with the controller's events
    let mut lines: Vec<(u64, String, Option<String>)> = Vec::new();
    for (s, l) in events {
        lines.push((s, l, None));
    }
    let mut faults = 0;
    for (r, x) in w.res.iter().enumerate() {
        let g = x.ctl.m.lock().unwrap();
        for a in &g.attempts {
            let imp = match a.out {
                Some(v) => format!("ok {}/{}/{}/{}/{}", v[0], v[1], v[2], v[3], v[4]),
                None => {
                    faults += 1;
                    "fault".to_string()
                }
            };
            lines.push((a.stamp, format!("scyc {r} {}", a.input), Some(imp)));
        }
    }
    lines.sort();
    out.add("stress_cycles", lines.iter().filter(|l| l.2.is_some()).count() as u64);
    for (_, l, imp) in lines {
        out.line(l);
        if let Some(imp) = imp {
            out.line(format!("impl {imp}"));
        }
    }
    for (r, x) in w.res.iter().enumerate() {
        let g = x.ctl.m.lock().unwrap();
        let sv = match g.saves.last() {
            Some(Some(v)) => format!("v{}={}", g.saves.len(), v),
            Some(None) => format!("v{}=?", g.saves.len()),
            None => "v0".to_string(),
        };
        out.line(format!("sjoin {r}"));
        out.line(format!(
            "impl {},{}{},e{},{},{}",
            pos[r].show(),
            show_state(x.handle.state()),
            if x.joined && !x.join_ok { "!panic" } else { "" },
            g.enters,
            sv,
            show_err(x.handle.last_error())
        ));
    }
    out.line("sfinal");
    if hung {
        out.line("impl hang");
    } else {
        let get = |n: &str| {
            w.shared.get(n).as_ref().and_then(value_i64).map(|v| v.to_string()).unwrap_or_else(|| "?".into())
        };
        out.line(format!("impl {},{},{}", get("cnt"), get("pa"), get("pb")));
    }
    w.hung = hung;
    if hung {
        out.line("tag hang");
        out.count("cases_with_hang");
    }
    if faults > 0 {
        out.count("stress_cases_with_fault");
    }
    out.add("debugger_breakpoint_hits", w.dbg_clients.hits.load(Ordering::SeqCst));
    if cfg.res.iter().any(|r| r.dbg >= 2) {
        out.line("tag stress-debugger-armed");
    }
    out.line("tag stress");
    out.line("tag nontrivial");
    out.line("end");
    if hung {
        return Err("hang".into());
    }
    Ok(())
}

// ------------------------------------------------------------------------------------------------
// Poison scenario (outside the model: panics), regression witness of finding
// C20-panic-poisons-shared-globals (fixed): after a panic inside one resource's cycle the other
// resource must keep running, publish the right state, obey stop, and `SharedGlobals::get` must
// not panic.  Any other outcome is reported by checks/c20.py as a violation.
// ------------------------------------------------------------------------------------------------

pub fn run_poison(n: u64, _rng: &mut Rng, args: &Args, stamp: Arc<AtomicU64>, out: &mut Out) -> Result<(), String> {
    let cfg = CaseCfg {
        res: (0..2)
            .map(|i| ResCfg { inc: 1 + i as i64, interval: 10 * MS, scale: 1, gated: false, clk: i, restart: false, dbg: 0 })
            .collect(),
        c0: 0,
        p0: 0,
        names: vec![0, 1, 2],
    };
    write_cfg(n, &cfg, out);
    out.line("poison");
    let hook = std::panic::take_hook();
    std::panic::set_hook(Box::new(|_| {}));
    let result = (|| -> Result<&'static str, String> {
        let mut w = World::build(&cfg, stamp, 0, args.extra_usize("hang_s", 20) as u64, true)?;
        let wait = |w: &World, r: usize, f: &dyn Fn(&Obs) -> bool| -> bool {
            let t = Instant::now();
            loop {
                if f(&w.res[r].ctl.m.lock().unwrap()) {
                    return true;
                }
                if t.elapsed() > StdDuration::from_secs(5) {
                    return false;
                }
                std::thread::sleep(StdDuration::from_millis(1));
            }
        };
        // both resources complete their first cycle and sleep
        if !wait(&w, 0, &|g| g.writes >= 1 && g.in_sleep.is_some()) || !wait(&w, 1, &|g| g.writes >= 1 && g.in_sleep.is_some()) {
            return Err("poison scenario: first cycles did not complete".into());
        }
        // resource 0 panics inside its locked cycle
        w.res[0].ctl.m.lock().unwrap().panic_on_read = true;
        let t = w.clocks[0].clock.advance(Duration::from_nanos(10 * MS));
        w.clocks[0].now = t.as_nanos();
        if !wait(&w, 0, &|g| g.dropped) {
            return Err("poison scenario: the panicking thread did not end".into());
        }
        // resource 1 is asked for one more cycle: it must complete it (regression witness of the
        // fix "with_lock recovers a poisoned guard")
        let before = w.res[1].ctl.m.lock().unwrap().writes;
        let t = w.clocks[1].clock.advance(Duration::from_nanos(10 * MS));
        w.clocks[1].now = t.as_nanos();
        let moved = wait(&w, 1, &|g| g.dropped || g.writes > before);
        let killed = w.res[1].ctl.m.lock().unwrap().dropped;
        let state_after = w.res[1].handle.state();
        let got = std::panic::catch_unwind(std::panic::AssertUnwindSafe(|| w.shared.get("cnt")));
        // r0 added 1, r1 added 2 twice; the panicking cycle of r0 never reached the program
        let value_ok = matches!(&got, Ok(Some(v)) if value_i64(v) == Some(5));
        // and it must still obey stop
        w.release_everything();
        let pos = w.settle(true);
        let stopped = pos[1] == Pos::D && w.res[1].handle.state() == ResourceState::Stopped && w.res[1].join_ok;
        if !moved {
            return Ok("poison-other-stuck");
        }
        if killed {
            return Ok("poison-others-killed");
        }
        if got.is_err() {
            return Ok("poison-get-panics");
        }
        if state_after != ResourceState::Running || !value_ok || !stopped {
            return Ok("poison-other-wrong-state");
        }
        Ok("poison-others-survive")
    })();
    std::panic::set_hook(hook);
    match result {
        Ok(tag) => {
            out.line(format!("tag {tag}"));
            out.count(tag);
        }
        Err(e) => return Err(e),
    }
    out.line("tag api");
    out.line("end");
    Ok(())
}

pub fn run(args: &Args) -> i32 {
    let mut out = Out::new();
    let stamp = Arc::new(AtomicU64::new(1));
    let t0 = Instant::now();
    let max_hangs = args.extra_usize("max_hangs", 2) as u64;
    for n in args.case_numbers() {
        let mut rng = Rng::for_case(args.seed, n);
        let res = match n % 10 {
            0 if n == 10 => run_poison(n, &mut rng, args, stamp.clone(), &mut out),
            0 => run_api(n, &mut rng, args, stamp.clone(), &mut out),
            3 | 7 => run_stress(n, &mut rng, args, stamp.clone(), &mut out),
            _ => run_scripted(n, &mut rng, args, stamp.clone(), &mut out),
        };
        match res {
            Ok(()) => {}
            Err(e) if e == "hang" => {}
            Err(e) => {
                eprintln!("case {n}: {e}");
                return 3;
            }
        }
        out.count("cases");
        // a hung thread costs `hang_s` seconds: after a few, the run has its failing inputs
        if out.stats.get("cases_with_hang").copied().unwrap_or(0) >= max_hangs {
            eprintln!("stopping after {max_hangs} hung cases");
            break;
        }
    }
    out.add("wall_ms", t0.elapsed().as_millis() as u64);
    out.finish(&args.out);
    0
}
