//! prototype
use crate::Args;
use std::sync::{Arc, Mutex};
use trust_runtime::harness::TestHarness;
use trust_runtime::io::IoDriver;
use trust_runtime::scheduler::{ManualClock, ResourceRunner, SharedGlobals};
use trust_runtime::value::Duration;

struct P {
    log: Arc<Mutex<Vec<String>>>,
}
impl IoDriver for P {
    fn read_inputs(&mut self, inputs: &mut [u8]) -> Result<(), trust_runtime::error::RuntimeError> {
        self.log.lock().unwrap().push(format!("read {}", inputs.len()));
        if !inputs.is_empty() {
            inputs[0] = 0;
        }
        Ok(())
    }
    fn write_outputs(&mut self, outputs: &[u8]) -> Result<(), trust_runtime::error::RuntimeError> {
        self.log.lock().unwrap().push(format!("write {:?}", outputs));
        Ok(())
    }
}
impl Drop for P {
    fn drop(&mut self) {
        self.log.lock().unwrap().push("drop".into());
    }
}

pub fn source(inc: i64) -> String {
    format!(
        r#"
CONFIGURATION C
VAR_GLOBAL
    cnt : DINT := 0;
    pa : DINT := 0;
    pb : DINT := 0;
    lc : DINT := 0;
END_VAR
VAR_GLOBAL RETAIN
    rc : DINT := 0;
END_VAR
PROGRAM P1 : Main;
END_CONFIGURATION

PROGRAM Main
VAR_EXTERNAL
    cnt : DINT;
    pa : DINT;
    pb : DINT;
    lc : DINT;
    rc : DINT;
END_VAR
VAR
    fm AT %IB0 : USINT;
    o_scnt AT %QD0 : DINT;
    o_spa AT %QD4 : DINT;
    o_spb AT %QD8 : DINT;
    o_cnt AT %QD12 : DINT;
    o_lc AT %QD16 : DINT;
    zero : DINT := 0;
    x : DINT := 0;
END_VAR
o_scnt := cnt;
o_spa := pa;
o_spb := pb;
IF fm = 1 THEN
    x := 1 / zero;
END_IF;
cnt := cnt + {inc};
pa := pa + 1;
IF fm = 2 THEN
    x := 1 / zero;
END_IF;
pb := pb + 1;
lc := lc + 1;
rc := rc + 1;
o_cnt := cnt;
o_lc := lc;
END_PROGRAM
"#
    )
}

pub fn run(_args: &Args) -> i32 {
    let log = Arc::new(Mutex::new(Vec::new()));
    let mut rt = TestHarness::from_source(&source(3)).expect("compile").into_runtime();
    eprintln!("io in={} out={}", rt.io().inputs().len(), rt.io().outputs().len());
    rt.add_io_driver("probe", Box::new(P { log: log.clone() }));
    let shared = SharedGlobals::from_runtime(vec!["cnt".into(), "pa".into(), "pb".into()], &rt).unwrap();
    let clock = ManualClock::new();
    let runner = ResourceRunner::new(rt, clock.clone(), Duration::from_millis(10));
    let mut h = runner.spawn_with_shared("r0", shared.clone()).unwrap();
    std::thread::sleep(std::time::Duration::from_millis(50));
    clock.advance(Duration::from_millis(10));
    std::thread::sleep(std::time::Duration::from_millis(50));
    eprintln!("state {:?} sleep_calls {}", h.state(), clock.sleep_calls());
    h.stop();
    h.join().unwrap();
    eprintln!("state {:?} cnt={:?}", h.state(), shared.get("cnt"));
    for l in log.lock().unwrap().iter() {
        eprintln!("{l}");
    }
    0
}
