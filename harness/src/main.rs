//! vharness: runs the real trust-platform code on generated cases and writes them, together with
//! the implementation's canonical answers, in the line protocol read by the Lean driver.
//!
//! usage: vharness <property> --seed <u64> --cases <n> --out <file> [--replay <file>] [extra...]

pub mod rng;
pub mod util;
include!(concat!(env!("OUT_DIR"), "/registry.rs"));

use std::collections::HashMap;

pub struct Args {
    pub seed: u64,
    pub cases: u64,
    pub out: String,
    pub replay: Option<String>,
    pub only: Option<u64>,
    pub extra: HashMap<String, String>,
}

impl Args {
    /// Case numbers to run: all of `0..cases`, or the single case selected by `--only`.
    pub fn case_numbers(&self) -> Vec<u64> {
        match self.only {
            Some(n) => vec![n],
            None => (0..self.cases).collect(),
        }
    }
    pub fn extra_usize(&self, key: &str, default: usize) -> usize {
        self.extra.get(key).and_then(|v| v.parse().ok()).unwrap_or(default)
    }
}

fn parse_args(argv: &[String]) -> Args {
    let mut args = Args {
        seed: 1,
        cases: 100,
        out: "cases.txt".into(),
        replay: None,
        only: None,
        extra: HashMap::new(),
    };
    let mut i = 0;
    while i < argv.len() {
        let key = argv[i].trim_start_matches("--").to_string();
        let val = argv.get(i + 1).cloned().unwrap_or_default();
        match key.as_str() {
            "seed" => args.seed = val.parse().expect("seed"),
            "cases" => args.cases = val.parse().expect("cases"),
            "out" => args.out = val,
            "replay" => args.replay = Some(val),
            "only" => args.only = Some(val.parse().expect("only")),
            _ => {
                args.extra.insert(key, val);
            }
        }
        i += 2;
    }
    args
}

fn main() {
    let argv: Vec<String> = std::env::args().collect();
    if argv.len() < 2 {
        eprintln!("usage: vharness <property> [--seed n] [--cases n] [--out file] [--replay file]");
        std::process::exit(2);
    }
    let args = parse_args(&argv[2..]);
    let code = match dispatch(argv[1].as_str(), &args) {
        Some(code) => code,
        None => {
            eprintln!("unknown property {}", argv[1]);
            2
        }
    };
    std::process::exit(code);
}
