//! SplitMix64: every random choice of a run derives from one seed so that a case replays exactly.

#[derive(Clone, Debug)]
pub struct Rng(pub u64);

impl Rng {
    pub fn new(seed: u64) -> Self {
        Rng(seed ^ 0x9E37_79B9_7F4A_7C15)
    }
    /// Independent stream for case `n` of a run seeded with `seed`.
    pub fn for_case(seed: u64, n: u64) -> Self {
        let mut r = Rng::new(seed.wrapping_mul(0xD134_2543_DE82_EF95).wrapping_add(n));
        r.next();
        r
    }
    pub fn next(&mut self) -> u64 {
        self.0 = self.0.wrapping_add(0x9E37_79B9_7F4A_7C15);
        let mut z = self.0;
        z = (z ^ (z >> 30)).wrapping_mul(0xBF58_476D_1CE4_E5B9);
        z = (z ^ (z >> 27)).wrapping_mul(0x94D0_49BB_1331_11EB);
        z ^ (z >> 31)
    }
    /// Uniform in `0..n` (n > 0).
    pub fn below(&mut self, n: u64) -> u64 {
        self.next() % n
    }
    /// Uniform in `lo..=hi`.
    pub fn range(&mut self, lo: i64, hi: i64) -> i64 {
        let span = (hi as i128 - lo as i128 + 1) as u128;
        (lo as i128 + (self.next() as u128 % span) as i128) as i64
    }
    pub fn chance(&mut self, num: u64, den: u64) -> bool {
        self.below(den) < num
    }
    pub fn pick<'a, T>(&mut self, xs: &'a [T]) -> &'a T {
        &xs[self.below(xs.len() as u64) as usize]
    }
    pub fn bool(&mut self) -> bool {
        self.next() & 1 == 1
    }
}
