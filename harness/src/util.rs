//! Small helpers shared by the per-property modules.

use std::fmt::Write as _;

pub fn hex(bytes: &[u8]) -> String {
    if bytes.is_empty() {
        return "-".into();
    }
    let mut s = String::with_capacity(bytes.len() * 2);
    for b in bytes {
        let _ = write!(s, "{b:02x}");
    }
    s
}

pub fn unhex(s: &str) -> Vec<u8> {
    if s == "-" {
        return Vec::new();
    }
    (0..s.len() / 2)
        .map(|i| u8::from_str_radix(&s[2 * i..2 * i + 2], 16).expect("hex"))
        .collect()
}

pub fn join<T: ToString>(xs: impl IntoIterator<Item = T>, sep: &str) -> String {
    xs.into_iter()
        .map(|x| x.to_string())
        .collect::<Vec<_>>()
        .join(sep)
}

/// Output sink for the cases file plus a small histogram for the evidence.
pub struct Out {
    pub buf: String,
    pub stats: std::collections::BTreeMap<String, u64>,
}

impl Out {
    pub fn new() -> Self {
        Out {
            buf: String::new(),
            stats: Default::default(),
        }
    }
    pub fn line(&mut self, s: impl AsRef<str>) {
        self.buf.push_str(s.as_ref());
        self.buf.push('\n');
    }
    pub fn count(&mut self, key: &str) {
        *self.stats.entry(key.to_string()).or_insert(0) += 1;
    }
    pub fn add(&mut self, key: &str, n: u64) {
        *self.stats.entry(key.to_string()).or_insert(0) += n;
    }
    /// Write the cases file and `<file>.stats.json`.
    pub fn finish(&self, path: &str) {
        std::fs::write(path, &self.buf).expect("write cases");
        let stats = serde_json::to_string_pretty(&self.stats).expect("stats");
        std::fs::write(format!("{path}.stats.json"), stats).expect("write stats");
    }
}
