import TrustVerif.Drv.Common
import TrustVerif.Drv.C06

/-- Line-protocol driver: `driver <property>` reads a cases file on stdin and prints the model's
answers, one line per operation that has an observable result. -/
def main (args : List String) : IO UInt32 := do
  let stdin ← IO.getStdin
  match args with
  | ["c06"] => do TrustVerif.Drv.C06.main (← TrustVerif.Drv.readLines stdin); return 0
  | _ => do IO.eprintln "usage: driver <property>"; return 2
