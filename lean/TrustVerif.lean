import TrustVerif.Model.C06
import TrustVerif.Lemmas.C06
