import TrustVerif.Model.StCore
import TrustVerif.Model.StCheck
import TrustVerif.Model.C02
import TrustVerif.Model.C03
import TrustVerif.Drv.Common
import TrustVerif.Drv.StParse
import TrustVerif.Model.StExtCheck
import TrustVerif.Model.StArray
import TrustVerif.Drv.StExtParse

/-
Driver shared by C01 / C02 / C03.  Protocol of one case:

  case <n>
  decl <name> <TYPE> <init> <typed 0|1>     one per declared variable, declaration order
  body <s-expression>                       see Drv/StParse.lean
  src <hex>                                 the ST source the implementation compiled (ignored)
  check                                     -> m accept | m reject
  set <name> <Tag:value>                    input write between cycles (no answer)
  cycle                                     -> m <ok|ErrorVariant|panic> frames=<n> <name>=<Tag>:<v> …
  end

Oracle-only cases (features the models do not cover: VAR_TEMP, FB outputs bound to elements of
frame-local variables, I/O latching, restarts, several programs).  The programs are well typed by
construction, the model has no opinion on the values, and only the properties' own statements
are evaluated on what the implementation did (pass 2):

  odecl <slot> <Tag>                        declared tag of a dumped slot
  obs <outcome> frames=<n> <slot>=<Tag>:<v> …   -> m seen     (the observation is in the op line)
  obst <outcome> frames=<n> <slot>=<Tag>:<v> …  -> m seen     (judged by C03 only: histories in
                                            which the environment writes ill-typed process-image values)
  aoff <n> <lo1> <hi1> … <lon> <hin> <s1> … <sn>   -> m ok <offset> | m IndexOutOfBounds:<idx>:<lo>:<hi>
                                            `array_offset` (Model/StArray.lean, proved to be row-major
                                            addressing): the position of element [s1,…,sn] in the
                                            array value, observed by writing a marker through the
                                            subscripts and looking where it landed
  oexp <outcome|*> <slot>=<Tag>:<v> …       what the generator of the stream expects of the NEXT
                                            observation (outcome and the listed slots), computed by
                                            the generator's own straight-line evaluation of the
                                            program it wrote: the C02 judgement of the stream

`driver c01`         (pass 1) prints the model's answers (`m …`) for the correspondence diff.
`driver c01 oracle`  (pass 2) reads the `impl` lines and evaluates the three properties' own
statements on the IMPLEMENTATION's behaviour; one line per case:
  o <n> acc=<0|1> strict=<0|1> spec=<0|1> c01=<ok|sig> c02=<na|ok|sig> c03=<ok|sig>
A signature (`sig`) names the failed clause; `checks/c0x.py` matches it against known_findings.json.
-/
namespace TrustVerif.Drv.C01
open TrustVerif.StCore TrustVerif.StExt TrustVerif.Drv TrustVerif.Drv.St

/-- Recursion budget of the model interpreter.  The generator bounds every loop, so a generated
program needs a depth of a few hundred at most; the implementation runs without a deadline. -/
def fuel : Nat := 200000

/-- One `cycle` operation: the input writes before it and the implementation's answer. -/
structure Step where
  sets : List (String × Val) := []
  impl : Option String := none

structure Case where
  n : String := ""
  decls : List VarDecl := []
  body : Option Block := none
  /-- stage S4: FUNCTIONs and the body as an extended block (used when `funcs` is non-empty) -/
  funcs : List FuncDef := []
  fbs : List FbDef := []
  insts : List (String × String) := []
  aggs : List (String × AggDecl) := []
  xbody : Option XBlock := none
  /-- stage S3: the body once more in the extended syntax — the nested-aggregate model `StExt`
  is run next to the flattened, proved model `StCore` and must give the same answers -/
  xcheck : Option XBlock := none
  verdict : Option String := none     -- impl answer to `check`
  steps : List Step := []             -- reversed while reading
  pending : List (String × Val) := []
  bad : Bool := false
  /-- oracle-only cases: declared tags and observations (reversed while reading) -/
  odecls : List (String × String) := []
  obs : List (Bool × String × Option String) := []   -- (judged by C01 too, observation, expectation)
  oexp : Option String := none
  /-- `aoff` operations: the model's answer and (pass 2) the implementation's -/
  aoffs : List (String × Option String) := []
  /-- operations in file order (reversed while reading), for pass 1: true = check, false = cycle -/
  ops : List Bool := []
  lastOp : Option Bool := none

def Case.program (c : Case) : Option Program :=
  c.body.map fun b => { decls := c.decls, aggs := c.aggs, body := b }

def Case.xprogram (c : Case) : Option XProgram :=
  c.xbody.map fun b => { funcs := c.funcs, fbs := c.fbs, insts := c.insts, aggs := c.aggs, decls := c.decls, body := b }

def applySetsX (rs : XRunState) (sets : List (String × Val)) : XRunState :=
  sets.foldl (fun rs (x, v) => { rs with store := { rs.store with vars := insert x v rs.store.vars } }) rs

/-- Run the stage-S4 model over the case's steps. -/
def runModelX (p : XProgram) (steps : List Step) : List (CycleOut × Env × Nat) :=
  let rec go (rs : XRunState) : List Step → List (CycleOut × Env × Nat)
    | [] => []
    | s :: rest =>
      let (rs', o) := xcycle p fuel (applySetsX rs s.sets)
      -- the dump: the PROGRAM's variables, then every FB instance's variables as `inst.var`
      let flat : Env := rs'.store.insts.flatMap fun (c, e) => e.map fun (x, v) => (c ++ "." ++ x, v)
      -- stage S3: elements as `a[i]`, fields as `s.f`
      let flatA : Env := rs'.store.aggs.flatMap fun (a, g) =>
        match g with
        | .arr lo _ elems => elems.zipIdx.map fun ((v, j) : Val × Nat) => (s!"{a}[{lo + Int.ofNat j}]", v)
        | .str fields => fields.map fun (f, v) => (a ++ "." ++ f, v)
      (o, rs'.store.vars ++ flatA ++ flat, rs'.store.frames.length) :: go rs' rest
  go { store := p.initStore } steps

def readLine (c : Case) (line : String) : Case :=
  match words line with
  | "tag" :: _ => c
  | "src" :: _ => c
  | "#" :: _ => c
  | [] => c
  | ["decl", name, ty, init, typed] =>
    match parseTy? ty, init.toInt?, parseBool? typed with
    | some t, some i, some tp =>
      { c with decls := c.decls ++ [{ name := name, ty := t, init := i, typedInit := tp }] }
    | _, _, _ => { c with bad := true }
  | "func" :: toks =>
    match parseFunc? toks with
    | some f => { c with funcs := c.funcs ++ [f] }
    | none => { c with bad := true }
  | "fb" :: toks =>
    match parseFb? toks with
    | some f => { c with fbs := c.fbs ++ [f] }
    | none => { c with bad := true }
  | ["inst", v, t] => { c with insts := c.insts ++ [(v, t)] }
  | "arr" :: rest =>
    match parseAgg? ("arr" :: rest) with
    | some a => { c with aggs := c.aggs ++ [a] }
    | none => { c with bad := true }
  | "svar" :: rest =>
    match parseAgg? ("svar" :: rest) with
    | some a => { c with aggs := c.aggs ++ [a] }
    | none => { c with bad := true }
  | "body" :: toks =>
    if c.funcs.isEmpty && c.fbs.isEmpty && c.insts.isEmpty then
      match parseBlock? toks with
      | some b => { c with body := some b, xcheck := if c.aggs.isEmpty then none else parseXBlock? toks }
      | none => { c with bad := true }
    else
      match parseXBlock? toks with
      | some b => { c with xbody := some b }
      | none => { c with bad := true }
  | ["odecl", slot, tag] => { c with odecls := (slot, tag) :: c.odecls }
  | "aoff" :: nd :: rest =>
    let ans : String :=
      match nd.toNat?, rest.mapM String.toInt? with
      | some n, some xs =>
        if xs.length ≠ 3 * n then "bad-op" else
        let bounds := xs.take (2 * n)
        let subs := xs.drop (2 * n)
        let dims : List (Int × Int) := (List.range n).map fun j => (bounds.getD (2 * j) 0, bounds.getD (2 * j + 1) 0)
        match StArray.arrayOffset dims subs with
        | .ok off => s!"ok {off}"
        | .error (.outOfBounds i lo hi) => s!"IndexOutOfBounds:{i}:{lo}:{hi}"
        | .error .typeMismatch => "TypeMismatch"
      | _, _ => "bad-op"
    { c with aoffs := (ans, none) :: c.aoffs, lastOp := none }
  | "oexp" :: rest => { c with oexp := some (joinWith " " rest) }
  | "obs" :: rest => { c with obs := (true, joinWith " " rest, c.oexp) :: c.obs, oexp := none, lastOp := none }
  | "obst" :: rest => { c with obs := (false, joinWith " " rest, c.oexp) :: c.obs, oexp := none, lastOp := none }
  | ["check"] => { c with ops := true :: c.ops, lastOp := some true }
  | ["set", name, val] =>
    match parseVal? val with
    | some v => { c with pending := c.pending ++ [(name, v)] }
    | none => { c with bad := true }
  | ["cycle"] =>
    { c with ops := false :: c.ops, lastOp := some false, pending := [],
             steps := { sets := c.pending } :: c.steps }
  | "impl" :: rest =>
    match c.lastOp with
    | some true => { c with verdict := some (joinWith " " rest), lastOp := none }
    | some false =>
      match c.steps with
      | s :: ss => { c with steps := { s with impl := some (joinWith " " rest) } :: ss, lastOp := none }
      | [] => { c with bad := true }
    | none =>
      match c.aoffs with
      | (m, none) :: more => { c with aoffs := (m, some (joinWith " " rest)) :: more }
      | _ => if c.obs.isEmpty then { c with bad := true } else c
  | _ => { c with bad := true }

def applySets (rs : RunState) (sets : List (String × Val)) : RunState :=
  -- TestHarness-style input write: `set_instance_var(id, name, value)`
  sets.foldl (fun rs (x, v) => { rs with store := { rs.store with vars := insert x v rs.store.vars } }) rs

/-- Run the implementation model over the case's steps. -/
def runModel (cfg : Cfg) (p : Program) (steps : List Step) : List (CycleOut × Env × Nat) :=
  let rec go (rs : RunState) : List Step → List (CycleOut × Env × Nat)
    | [] => []
    | s :: rest =>
      let (rs', o) := cycle cfg p fuel (applySets rs s.sets)
      (o, rs'.store.vars, rs'.store.frames.length) :: go rs' rest
  go { store := p.initStore } steps

def showCycle (o : CycleOut) (e : Env) (frames : Nat) : String :=
  s!"{showOut o} frames={frames} {showEnv e}"

/-! ### pass 1 -/

def emitModel (accepted : Bool) (ops : List Bool) (outs : List (CycleOut × Env × Nat)) : List String :=
  match ops with
  | [] => []
  | true :: rest => (if accepted then "m accept" else "m reject") :: emitModel accepted rest outs
  | false :: rest =>
    match outs with
    | (o, e, f) :: more => ("m " ++ s!"{showOut o} frames={f} {showEnv e}") :: emitModel accepted rest more
    | [] => "bad-op" :: emitModel accepted rest []

def modelPass (c : Case) : List String :=
  if !c.aoffs.isEmpty then c.aoffs.reverse.map (fun a => if a.1 = "bad-op" then "bad-op" else "m " ++ a.1) else
  if !c.obs.isEmpty then (if c.bad then c.obs.map fun _ => "bad-op" else c.obs.map fun _ => "m seen") else
  match c.xprogram with
  | some xp =>
    if c.bad then c.ops.map fun _ => "bad-op" else
    emitModel xp.accepted c.ops.reverse (runModelX xp c.steps.reverse)
  | none =>
  match c.program with
  | none => c.ops.map fun _ => "bad-op"
  | some p =>
    if c.bad then c.ops.map fun _ => "bad-op" else
    let steps := c.steps.reverse
    let outs := runModel .real p steps
    -- stage S3: the two models of the aggregates must agree (verdict and every cycle)
    let agree : Bool :=
      match c.xcheck with
      | none => c.aggs.isEmpty
      | some xb =>
        let xp : XProgram := { funcs := [], fbs := [], insts := [], aggs := c.aggs, decls := c.decls, body := xb }
        xp.accepted == p.accepted &&
          (runModelX xp steps).map (fun (o, e, f) => showCycle o e f) == outs.map (fun (o, e, f) => showCycle o e f)
    if !agree then c.ops.map fun _ => "m models-disagree" else
    let rec emit (ops : List Bool) (outs : List (CycleOut × Env × Nat)) : List String :=
      match ops with
      | [] => []
      | true :: rest => (if p.accepted then "m accept" else "m reject") :: emit rest outs
      | false :: rest =>
        match outs with
        | (o, e, f) :: more => ("m " ++ showCycle o e f) :: emit rest more
        | [] => "bad-op" :: emit rest []
    emit c.ops.reverse outs

/-! ### pass 2: oracles on the implementation -/

/-- Parsed `impl` answer of a cycle. -/
structure ImplCycle where
  outcome : String
  frames : Nat
  env : Env
  otherTags : Bool      -- a value outside the fragment (`Other…`) was dumped

def parseImplCycle (s : String) : Option ImplCycle :=
  match words s with
  | outcome :: fr :: vars =>
    match fr.splitOn "=" with
    | ["frames", n] =>
      match n.toNat? with
      | none => none
      | some frames =>
        let parsed := vars.map fun w =>
          match w.splitOn "=" with
          | [x, v] => (x, parseVal? v)
          | _ => (w, none)
        some { outcome := outcome, frames := frames,
               env := parsed.filterMap (fun (x, v) => v.map (fun v => (x, v))),
               otherTags := parsed.any (fun (_, v) => v.isNone) }
    | _ => none
  | _ => none

def errByName (s : String) : Option RustErr := RustErr.all.find? (fun e => e.name = s)

/-- C01 on one cycle of the implementation.  `prevFault` = an earlier cycle of this case faulted;
`modelOut` = the model's outcome of the same cycle (used only to attribute a static-class fault
to the site that raises it). -/
def c01Cycle (ic : ImplCycle) (prevFault : Bool) (modelOut : Option CycleOut) : String :=
  if ic.outcome = "panic" then "panic"
  else if ic.frames ≠ 0 then "frames-left"
  else if ic.outcome = "ok" then "ok"
  else
    match errByName ic.outcome with
    | none => s!"unknown-error:{ic.outcome}"
    | some e =>
      match e.cls with
      | .valueDependent => "ok"
      | .latch => if prevFault then "ok" else "latch-without-fault"
      | .foreign => s!"foreign:{e.name}"
      | .staticClass =>
        let site := match modelOut with
          | some (some (.fault e' s)) => if e' = e then s.name else "unattributed"
          | _ => "unattributed"
        s!"static:{e.name}:{site}"

def firstNotOk (xs : List String) : String :=
  match xs.find? (· ≠ "ok") with
  | some s => s
  | none => "ok"

/-- Compare one implementation cycle with the reference's cycle. -/
def c02Same (ic : ImplCycle) (sσ : SEnv) (sf : Option SFault) : Bool :=
  (match sf with
    | none => ic.outcome = "ok"
    | some f => ic.outcome = f.name) &&
  (eraseEnv ic.env == sσ) && !ic.otherTags

def c02SameModel (o : CycleOut) (e : Env) (sσ : SEnv) (sf : Option SFault) : Bool :=
  (match sf, o with
    | none, none => true
    | some f, some (.fault er _) => er.name = f.name
    | _, _ => false) &&
  (eraseEnv e == sσ)

/-- Reference run over the steps (stops after the first fault: the resource is latched). -/
def runSpec (p : Program) (steps : List Step) : List (SEnv × Option SFault) :=
  let rec go (σ : SEnv) : List Step → List (SEnv × Option SFault)
    | [] => []
    | s :: rest =>
      let σ0 := s.sets.foldl (fun σ (x, v) => sinsert x (erase v) σ) σ
      let (σ1, f) := Spec.cycle p fuel σ0
      match f with
      | none => (σ1, f) :: go σ1 rest
      | some _ => [(σ1, f)]
  go (Spec.initEnv p) steps

def repairs (p : Program) : List (String × Cfg) :=
  [ ("lit-lowering", { litSmallest := true }),
    ("coerce-write", { coerce := some p.ctx }),
    ("lit-lowering+coerce-write", { litSmallest := true, coerce := some p.ctx }),
    ("for-ulint-cast", { forExact := true }),
    ("all", { litSmallest := true, coerce := some p.ctx, forExact := true }) ]

def c02Oracle (p : Program) (steps : List Step) (impl : List ImplCycle) (isStrict : Bool) : String :=
  let spec := runSpec p steps
  -- compare the implementation with the reference on the cycles the reference defines
  let pairs := spec.zip impl
  let agree := decide (spec.length ≤ impl.length) && pairs.all (fun ((sσ, sf), ic) => c02Same ic sσ sf)
  if agree then "ok"
  else if isStrict then "mismatch"
  else
    let fixedBy := (repairs p).find? fun (_, cfg) =>
      let outs := runModel cfg p steps
      (spec.zip outs).all fun ((sσ, sf), (o, e, _)) => c02SameModel o e sσ sf
    match fixedBy with
    | some (name, _) => s!"fixed-by:{name}"
    | none => "mismatch"

def c01go (prev : Bool) : List ImplCycle → List (CycleOut × Env × Nat) → List String
  | [], _ => []
  | ic :: rest, ms =>
    let (mo, ms') := match ms with
      | (o, _, _) :: more => (some o, more)
      | [] => (none, [])
    c01Cycle ic prev mo :: c01go (prev || ic.outcome ≠ "ok") rest ms'

/-- Pass 2 for a stage-S4 case: C01 (fault classes, frames) and C03 (tags of the program's
variables at every cycle boundary) on the implementation's answers; the reference of C02 does not
cover calls yet (`c02=na`). -/
def oraclePassX (c : Case) (p : XProgram) : String :=
  if c.bad then s!"o {c.n} bad-op" else
  let steps := c.steps.reverse
  let acc := c.verdict == some "accept"
  let head := s!"o {c.n} acc={if acc then 1 else 0} strict=0 spec=0"
  if c.verdict == some "panic" then s!"{head} c01=compile-panic c02=na c03=ok" else
  if !acc then s!"{head} c01=ok c02=na c03=ok" else
  let implO := steps.map fun s => s.impl.bind parseImplCycle
  if implO.any Option.isNone then s!"o {c.n} bad-op" else
  let impl := implO.filterMap id
  let model := runModelX p steps
  -- a recorded finding can explain a failure only if the implementation behaves exactly as the
  -- model of the code as it is; otherwise the failure is new (`unmodelled:` never matches a finding)
  let explained := p.accepted && (steps.zip model).all fun (s, (o, e, f)) => s.impl == some (showCycle o e f)
  -- recorded finding: the initialiser of a FUNCTION local is never checked
  let initHole := p.funcs.any fun fd => fd.locals.any fun l => !localInitTyped p.funcs fd l
  let pre := if !explained then "unmodelled:" else if initHole then "local-init-unchecked:" else ""
  let c01 := firstNotOk (c01go false impl model)
  -- declared types: the PROGRAM's variables and, per FB instance, the FB's parameters and VARs
  let ctx : Ctx := (p.decls.map fun d => (d.name, d.ty)) ++
    (p.aggs.flatMap fun (a, d) =>
      match d with
      | .arr lo hi t => (List.range (hi - lo + 1).toNat).map fun (j : Nat) => (s!"{a}[{lo + Int.ofNat j}]", t)
      | .str _ fields => fields.map fun (f, t) => (a ++ "." ++ f, t)) ++
    p.insts.flatMap fun (c, t) =>
      match findFb p.fbs t with
      | none => []
      | some fb => (fb.params.map fun q => (c ++ "." ++ q.name, q.ty)) ++ (fb.vars.map fun l => (c ++ "." ++ l.name, l.ty))
  let c03s := impl.map fun ic =>
    if ic.otherTags then "foreign-value" else
    match firstBadSlot ctx ic.env with
    | none => "ok"
    | some (_, cl) => cl.sig
  let c03 := firstNotOk c03s
  let dress (s : String) := if s = "ok" ∨ s = "na" then s else pre ++ s
  -- no reference for calls yet: for C02 the validated model stands in for it
  let c02 := if explained then "na" else "unmodelled:differs-from-model"
  s!"{head} c01={dress c01} c02={c02} c03={dress c03}"

/-- One dumped slot of an oracle-only observation: tag as printed, value (0 for non-integers). -/
def parseOSlot (w : String) : Option (String × String × Int) :=
  match w.splitOn "=" with
  | [x, tv] =>
    match tv.splitOn ":" with
    | [t, v] => v.toInt?.map fun n => (x, t, n)
    | _ => none
  | _ => none

/-- C03 on an oracle-only observation: every declared slot is present, carries the declared tag,
and an integer lies in the range of its kind. -/
def c03Obs (odecls : List (String × String)) (slots : List (String × String × Int)) : String :=
  let bad := odecls.findSome? fun (x, t) =>
    match slots.find? (fun s => s.1 = x) with
    | none => some s!"missing:{x}"
    | some (_, tag, v) =>
      if tag ≠ t then some s!"foreign-tag:{t}:{tag}"
      else
        match IKind.all.find? (fun k => k.tag = t) with
        | some k => if k.inRange v then none else some "range"
        | none => if t = "Bool" ∧ v ≠ 0 ∧ v ≠ 1 then some "range" else none
  bad.getD "ok"

/-- Pass 2 for an oracle-only case. -/
def oraclePassObs (c : Case) : String :=
  if c.bad then s!"o {c.n} bad-op" else
  let head := s!"o {c.n} acc=1 strict=0 spec=0"
  let rec go (prev : Bool) : List (Bool × String × Option String) → List (String × String × String)
    | [] => []
    | (j01, o, ex) :: rest =>
      match words o with
      | outcome :: fr :: vars =>
        let frames := match fr.splitOn "=" with
          | ["frames", n] => n.toNat?
          | _ => none
        let slots := vars.map parseOSlot
        match frames with
        | none => [("bad-obs", "bad-obs", "bad-obs")]
        | some f =>
          if slots.any Option.isNone then [("bad-obs", "bad-obs", "bad-obs")] else
          let ic : ImplCycle := { outcome := outcome, frames := f, env := [], otherTags := false }
          let got := slots.filterMap id
          let c02 : String :=
            match ex with
            | none => "ok"
            | some e =>
              match words e with
              | eo :: evs =>
                if eo ≠ "*" ∧ eo ≠ outcome then s!"expected-outcome:{eo}:{outcome}"
                else
                  let bad := evs.findSome? fun w =>
                    match parseOSlot w with
                    | none => some "bad-oexp"
                    | some (x, t, v) =>
                      match got.find? (fun s => s.1 = x) with
                      | some (_, t', v') => if t = t' ∧ v = v' then none else some s!"expected-value:{x}"
                      | none => some s!"expected-missing:{x}"
                  bad.getD "ok"
              | [] => "bad-oexp"
          ((if j01 then c01Cycle ic prev none else "ok"), c02, c03Obs c.odecls.reverse got)
            :: go (prev || (outcome ≠ "ok")) rest
      | _ => [("bad-obs", "bad-obs", "bad-obs")]
  let rs := go false c.obs.reverse
  let dress (s : String) := if s = "ok" then s else "unmodelled:" ++ s
  let c02 := firstNotOk (rs.map (·.2.1))
  let c02 := if c02 = "ok" ∧ rs.all (fun _ => true) ∧ c.obs.all (fun o => o.2.2.isNone) then "na" else c02
  s!"{head} c01={dress (firstNotOk (rs.map (·.1)))} c02={if c02 = "na" then c02 else dress c02} c03={dress (firstNotOk (rs.map (·.2.2)))}"

def oraclePass (c : Case) : String :=
  if !c.aoffs.isEmpty then
    -- the Lean function is proved to be the row-major reference: a difference is a C02 failure
    let bad := c.aoffs.any fun (m, i) => i != some m
    s!"o {c.n} acc=1 strict=0 spec=0 c01=ok c02={if bad then "unmodelled:array-offset" else "ok"} c03=ok"
  else
  if !c.obs.isEmpty then oraclePassObs c else
  match c.xprogram with
  | some xp => oraclePassX c xp
  | none =>
  match c.program with
  | none => if c.ops.isEmpty && !c.bad then s!"o {c.n} raw" else s!"o {c.n} bad-op"
  | some p =>
    if c.bad then s!"o {c.n} bad-op" else
    let steps := c.steps.reverse
    let acc := c.verdict == some "accept"
    let isStrict := Strict p
    let isSpec := Spec.typed p
    let head := s!"o {c.n} acc={if acc then 1 else 0} strict={if isStrict then 1 else 0} spec={if isSpec then 1 else 0}"
    if c.verdict == some "panic" then s!"{head} c01=compile-panic c02=na c03=ok" else
    if !acc then
      -- the guard region of the partial theorems must be inside what the compiler accepts
      if isStrict then s!"{head} c01=strict-rejected c02=strict-rejected c03=strict-rejected"
      else s!"{head} c01=ok c02=na c03=ok"
    else
    let implO := steps.map fun s => s.impl.bind parseImplCycle
    if implO.any Option.isNone then s!"o {c.n} bad-op" else
    let impl := implO.filterMap id
    let model := runModel .real p steps
    let explained := p.accepted && (steps.zip model).all fun (s, (o, e, f)) => s.impl == some (showCycle o e f)
    let pre := if isStrict then "strict:" else if explained then "" else "unmodelled:"
    let c01 := firstNotOk (c01go false impl model)
    -- C03: every cycle boundary, also after a faulted cycle
    let c03s := impl.map fun ic =>
      if ic.otherTags then "foreign-value" else
      match firstBadSlot p.ctx ic.env with
      | none => "ok"
      | some (_, cl) => cl.sig
    let c03 := firstNotOk c03s
    let c02 := if isSpec then c02Oracle p steps impl (isStrict || !explained)
      else if explained then "na" else "differs-from-model"
    let dress (s : String) := if s = "ok" ∨ s = "na" then s else pre ++ s
    s!"{head} c01={dress c01} c02={dress c02} c03={dress c03}"

def main (lines : Array String) (args : List String) : IO Unit := do
  let oracle := args.contains "oracle"
  let mut cur : Option Case := none
  for line in lines do
    match words line with
    | ["case", n] => cur := some { n := n }
    | ["end"] =>
      match cur with
      | some c =>
        if oracle then IO.println (oraclePass c)
        else for l in modelPass c do IO.println l
        cur := none
      | none => IO.println "bad-op"
    | _ =>
      match cur with
      | some c => cur := some (readLine c line)
      | none => if (words line).isEmpty then pure () else IO.println "bad-op"

end TrustVerif.Drv.C01
