import TrustVerif.Model.StCore
import TrustVerif.Model.StCheck
import TrustVerif.Drv.Common
import TrustVerif.Drv.StParse

/-
Driver shared by C01 / C02 / C03 (model pass).  Protocol of one case:

  case <n>
  decl <name> <TYPE> <init> <typed 0|1>     one per declared variable, declaration order
  body <s-expression>                       see Drv/StParse.lean
  src <hex>                                 the ST source the implementation compiled (ignored)
  check                                     -> m accept | m reject
  set <name> <Tag:value>                    input write between cycles (no answer)
  cycle                                     -> m <ok|ErrorVariant|panic> frames=<n> <name>=<Tag>:<v> …
  end
-/
namespace TrustVerif.Drv.C01
open TrustVerif.StCore TrustVerif.Drv TrustVerif.Drv.St

/-- Recursion budget of the model interpreter.  The generator bounds every loop, so a generated
program needs a depth of a few hundred at most; the implementation runs without a deadline. -/
def fuel : Nat := 200000

structure St where
  decls : List VarDecl := []
  body : Option Block := none
  run : Option RunState := none
  bad : Bool := false

def St.program (st : St) : Option Program :=
  st.body.map fun b => { decls := st.decls, body := b }

def St.runState (st : St) (p : Program) : RunState :=
  match st.run with
  | some r => r
  | none => { store := p.initStore }

def showCycle (rs : RunState) (o : CycleOut) : String :=
  s!"{showOut o} frames={rs.store.frames.length} {showEnv rs.store.vars}"

def step (st : St) (line : String) : St × Option String :=
  match words line with
  | ["case", _] => ({}, none)
  | ["end"] => (st, none)
  | "impl" :: _ => (st, none)
  | "tag" :: _ => (st, none)
  | "src" :: _ => (st, none)
  | "#" :: _ => (st, none)
  | ["decl", name, ty, init, typed] =>
    match parseTy? ty, init.toInt?, parseBool? typed with
    | some t, some i, some tp =>
      ({ st with decls := st.decls ++ [{ name := name, ty := t, init := i, typedInit := tp }] }, none)
    | _, _, _ => (st, some "bad-op")
  | "body" :: toks =>
    match parseBlock? toks with
    | some b => ({ st with body := some b }, none)
    | none => (st, some "bad-op")
  | ["check"] =>
    match st.program with
    | some p => (st, some (if p.accepted then "m accept" else "m reject"))
    | none => (st, some "bad-op")
  | ["set", name, val] =>
    match st.program, parseVal? val with
    | some p, some v =>
      let rs := st.runState p
      -- TestHarness-style input write: `set_instance_var(id, name, value)`
      ({ st with run := some { rs with store := { rs.store with vars := insert name v rs.store.vars } } }, none)
    | _, _ => (st, some "bad-op")
  | ["cycle"] =>
    match st.program with
    | some p =>
      let (rs', o) := cycle p fuel (st.runState p)
      ({ st with run := some rs' }, some ("m " ++ showCycle rs' o))
    | none => (st, some "bad-op")
  | [] => (st, none)
  | _ => (st, some "bad-op")

def main (lines : Array String) (_args : List String) : IO Unit := do
  let mut st : St := {}
  for line in lines do
    let (st', out) := step st line
    st := st'
    match out with
    | some o => IO.println o
    | none => pure ()

end TrustVerif.Drv.C01
