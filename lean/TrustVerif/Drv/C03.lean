import TrustVerif.Drv.C01

/- C03 uses the ST-core driver of C01 (same protocol; `driver c03 oracle` = pass 2). -/
namespace TrustVerif.Drv.C03
def main (lines : Array String) (args : List String) : IO Unit := TrustVerif.Drv.C01.main lines args
end TrustVerif.Drv.C03
