import TrustVerif.Model.C04
import TrustVerif.Drv.Common

/-
Driver for C04.  Protocol (one case):

  case <n>
  -- route S: the pub structs (one struct of each kind per case, created with `new()`)
  s ton|tof|tp <in> <pt> <dt>              -> m q<b>e<et> | m panic
  s ctu <cu> <r> <pv>                      -> m q<b>v<cv>          (i16)
  s ctd <cd> <ld> <pv>                     -> m q<b>v<cv>
  s ctud <cu> <cd> <r> <ld> <pv>           -> m u<b>d<b>v<cv>
  s rtrig|ftrig <clk>                      -> m q<b>
  s sr <s1> <r> | s rs <s> <r1>            -> m q<b>
  sburst ctu|ctud <n> <pv>                 n pulses on CU (TRUE then FALSE), answer of the last call
  -- routes X (execute_builtin on a bare VariableStorage) and P (ST program through TestHarness)
  inst <kind> <intkind|->                  declares the next instance (ids are positions)
  setcv <id> <v>                           presets the instance variable CV
  call <id> <now> <args…>                  -> m <answer> | m panic     (args as in route S, without dt)
  qcall <id> <now> <args…>                 quiet call; its answer is reported by the next `obs`
  obs                                      -> m <answers of the quiet calls…> | <stored outputs of every instance…>
  end
-/
namespace TrustVerif.Drv.C04
open TrustVerif.C04 TrustVerif.Drv

inductive Kind where
  | ton | tof | tp | ctu | ctd | ctud | rtrig | ftrig | sr | rs
deriving DecidableEq, Repr

def parseKind? : String → Option Kind
  | "ton" => some .ton | "tof" => some .tof | "tp" => some .tp
  | "ctu" => some .ctu | "ctd" => some .ctd | "ctud" => some .ctud
  | "rtrig" => some .rtrig | "ftrig" => some .ftrig | "sr" => some .sr | "rs" => some .rs
  | _ => none

def parseIntKind? : String → Option IntKind
  | "sint" => some .sint | "int" => some .int | "dint" => some .dint | "lint" => some .lint
  | "usint" => some .usint | "uint" => some .uint | "udint" => some .udint | "ulint" => some .ulint
  | _ => none

structure St where
  -- route S
  ton : TonS := {}
  tof : TofS := {}
  tp : TpS := {}
  ctu : CState := {}
  ctd : CState := {}
  ctud : CState := {}
  rtrig : Bool := false
  ftrig : Bool := false
  sr : Bool := false
  rs : Bool := false
  -- routes X / P
  kinds : List (Kind × IntKind) := []
  store : Store := []
  pending : List String := []

def b (x : Bool) : String := if x then "1" else "0"
def showT (o : TOut) : String := s!"q{b o.q}e{o.et}"
def showC (o : COut) : String := s!"q{b o.q}v{o.cv}"
def showUd (o : CudOut) : String := s!"u{b o.qu}d{b o.qd}v{o.cv}"
def showB (q : Bool) : String := s!"q{b q}"

def showOut : Out → String
  | .timer o => showT o
  | .ctr o => showC o
  | .ctud o => showUd o
  | .bit q => showB q

/-- Stored outputs of an instance, as the harness reads them from the instance variables. -/
def showInst (k : Kind) (i : Inst) : String :=
  match k with
  | .ton | .tof | .tp => showT { q := i.timer.q, et := i.timer.et }
  | .ctu | .ctd => showC { q := i.cq, cv := i.ctr.cv }
  | .ctud => showUd { qu := i.cq, qd := i.cqd, cv := i.ctr.cv }
  | .rtrig | .ftrig => showB i.tq
  | .sr | .rs => showB i.q1

/-- Parse the arguments of an X/P call of the given kind. -/
def parseCall? (k : Kind) (ik : IntKind) (now : Int) (args : List String) : Option Call :=
  match k, args with
  | .ton, [i, pt] => do some (.ton { inp := ← parseBool? i, pt := ← pt.toInt?, now := now })
  | .tof, [i, pt] => do some (.tof { inp := ← parseBool? i, pt := ← pt.toInt?, now := now })
  | .tp, [i, pt] => do some (.tp { inp := ← parseBool? i, pt := ← pt.toInt?, now := now })
  | .ctu, [cu, r, pv] => do
    some (.ctu ik { cu := ← parseBool? cu, r := ← parseBool? r, pv := ← pv.toInt? })
  | .ctd, [cd, ld, pv] => do
    some (.ctd ik { cd := ← parseBool? cd, ld := ← parseBool? ld, pv := ← pv.toInt? })
  | .ctud, [cu, cd, r, ld, pv] => do
    some (.ctud ik { cu := ← parseBool? cu, cd := ← parseBool? cd, r := ← parseBool? r,
                     ld := ← parseBool? ld, pv := ← pv.toInt? })
  | .rtrig, [clk] => do some (.rtrig (← parseBool? clk))
  | .ftrig, [clk] => do some (.ftrig (← parseBool? clk))
  | .sr, [s, r] => do some (.sr (← parseBool? s) (← parseBool? r))
  | .rs, [s, r] => do some (.rs (← parseBool? s) (← parseBool? r))
  | _, _ => none

def parseT? (args : List String) : Option TCall :=
  match args with
  | [i, pt, dt] => do some { inp := ← parseBool? i, pt := ← pt.toInt?, dt := ← dt.toInt? }
  | _ => none

def bad (st : St) : St × Option String := (st, some "bad-op")

def stepS (st : St) (kind : String) (args : List String) : St × Option String :=
  match kind with
  | "ton" =>
    match parseT? args with
    | some c =>
      if tonOvf st.ton c then (st, some "m panic") else
      let r := tonStep st.ton c
      ({ st with ton := r.1 }, some ("m " ++ showT r.2))
    | none => bad st
  | "tof" =>
    match parseT? args with
    | some c =>
      if tofOvf st.tof c then (st, some "m panic") else
      let r := tofStep st.tof c
      ({ st with tof := r.1 }, some ("m " ++ showT r.2))
    | none => bad st
  | "tp" =>
    match parseT? args with
    | some c =>
      if tpOvf st.tp c then (st, some "m panic") else
      let r := tpStep st.tp c
      ({ st with tp := r.1 }, some ("m " ++ showT r.2))
    | none => bad st
  | "ctu" =>
    match args with
    | [cu, r, pv] =>
      match parseBool? cu, parseBool? r, pv.toInt? with
      | some cu, some r, some pv =>
        let o := ctuStep .int st.ctu { cu := cu, r := r, pv := pv }
        ({ st with ctu := o.1 }, some ("m " ++ showC o.2))
      | _, _, _ => bad st
    | _ => bad st
  | "ctd" =>
    match args with
    | [cd, ld, pv] =>
      match parseBool? cd, parseBool? ld, pv.toInt? with
      | some cd, some ld, some pv =>
        let o := ctdStep .int st.ctd { cd := cd, ld := ld, pv := pv }
        ({ st with ctd := o.1 }, some ("m " ++ showC o.2))
      | _, _, _ => bad st
    | _ => bad st
  | "ctud" =>
    match args with
    | [cu, cd, r, ld, pv] =>
      match parseBool? cu, parseBool? cd, parseBool? r, parseBool? ld, pv.toInt? with
      | some cu, some cd, some r, some ld, some pv =>
        let o := ctudStep .int st.ctud { cu := cu, cd := cd, r := r, ld := ld, pv := pv }
        ({ st with ctud := o.1 }, some ("m " ++ showUd o.2))
      | _, _, _, _, _ => bad st
    | _ => bad st
  | "rtrig" =>
    match args.mapM parseBool? with
    | some [clk] => let o := rtrigStep st.rtrig clk; ({ st with rtrig := o.1 }, some ("m " ++ showB o.2))
    | _ => bad st
  | "ftrig" =>
    match args.mapM parseBool? with
    | some [clk] => let o := ftrigStep st.ftrig clk; ({ st with ftrig := o.1 }, some ("m " ++ showB o.2))
    | _ => bad st
  | "sr" =>
    match args.mapM parseBool? with
    | some [s, r] => let q := srStep st.sr s r; ({ st with sr := q }, some ("m " ++ showB q))
    | _ => bad st
  | "rs" =>
    match args.mapM parseBool? with
    | some [s, r] => let q := rsStep st.rs s r; ({ st with rs := q }, some ("m " ++ showB q))
    | _ => bad st
  | _ => bad st

/-- `n` pulses on CU: (CU = TRUE, then CU = FALSE) `n` times; the answer of the last call. -/
def burstCtu (s : CState) (pv : Int) : Nat → CState × COut
  | 0 => (s, { q := decide (s.cv ≥ pv), cv := s.cv })
  | n + 1 =>
    let s1 := (ctuStep .int s { cu := true, r := false, pv := pv }).1
    let r := ctuStep .int s1 { cu := false, r := false, pv := pv }
    if n = 0 then r else burstCtu r.1 pv n

def burstCtud (s : CState) (pv : Int) : Nat → CState × CudOut
  | 0 => (s, { qu := decide (s.cv ≥ pv), qd := decide (s.cv ≤ 0), cv := s.cv })
  | n + 1 =>
    let s1 := (ctudStep .int s { cu := true, cd := false, r := false, ld := false, pv := pv }).1
    let r := ctudStep .int s1 { cu := false, cd := false, r := false, ld := false, pv := pv }
    if n = 0 then r else burstCtud r.1 pv n

def doCall (st : St) (quiet : Bool) (id now : String) (args : List String) : St × Option String :=
  match id.toNat?, now.toInt? with
  | some id, some now =>
    match st.kinds[id]? with
    | some (k, ik) =>
      match parseCall? k ik now args with
      | some c =>
        if execOvf (st.store.get id) c then
          if quiet then ({ st with pending := st.pending ++ ["panic"] }, none) else (st, some "m panic")
        else
          let r := st.store.call id c
          if quiet then ({ st with store := r.1, pending := st.pending ++ [showOut r.2] }, none)
          else ({ st with store := r.1 }, some ("m " ++ showOut r.2))
      | none => bad st
    | none => bad st
  | _, _ => bad st

def step (st : St) (line : String) : St × Option String :=
  match words line with
  | ["case", _] => ({}, none)
  | ["end"] => (st, none)
  | "impl" :: _ => (st, none)
  | "tag" :: _ => (st, none)
  | "s" :: kind :: args => stepS st kind args
  | ["sburst", "ctu", n, pv] =>
    match n.toNat?, pv.toInt? with
    | some n, some pv => let r := burstCtu st.ctu pv n; ({ st with ctu := r.1 }, some ("m " ++ showC r.2))
    | _, _ => bad st
  | ["sburst", "ctud", n, pv] =>
    match n.toNat?, pv.toInt? with
    | some n, some pv => let r := burstCtud st.ctud pv n; ({ st with ctud := r.1 }, some ("m " ++ showUd r.2))
    | _, _ => bad st
  | ["inst", kind, ik] =>
    match parseKind? kind with
    | some k =>
      let ik? : Option IntKind := if ik = "-" then some .int else parseIntKind? ik
      match ik? with
      | some ik => ({ st with kinds := st.kinds ++ [(k, ik)], store := st.store ++ [{}] }, none)
      | none => bad st
    | none => bad st
  | ["setcv", id, v] =>
    match id.toNat?, v.toInt? with
    | some id, some v =>
      if id < st.store.length then
        let i := st.store.get id
        ({ st with store := st.store.set id { i with ctr := { i.ctr with cv := v } } }, none)
      else bad st
    | _, _ => bad st
  | "call" :: id :: now :: args => doCall st false id now args
  | "qcall" :: id :: now :: args => doCall st true id now args
  | ["obs"] =>
    let dumps := (st.kinds.zip st.store).map fun p => showInst p.1.1 p.2
    ({ st with pending := [] }, some ("m " ++ (if st.pending.isEmpty then "-" else joinWith " " st.pending) ++ " | " ++ joinWith " " dumps))
  | [] => (st, none)
  | _ => bad st

def main (lines : Array String) (_args : List String) : IO Unit := do
  let mut st : St := {}
  for line in lines do
    let (st', out) := step st line
    st := st'
    match out with
    | some o => IO.println o
    | none => pure ()

end TrustVerif.Drv.C04
