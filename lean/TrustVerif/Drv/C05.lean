import TrustVerif.Model.C05
import TrustVerif.Drv.Common

/-
Driver for C05.  Protocol (one case):
  case <n>
  opts <0|1>  /  inputs … | … | …   generator options and input names (not interpreted here)
  src <path hex> <text hex>          generated sources (not interpreted here)
  trace <dt> <b> <i> …               generated trace   (not interpreted here)
  # …                                comments
  names program|function <hex>…      keys of runtime.programs() / functions() in IndexMap order
  owner fb|class <name hex> <method hex>…   one function block / class with its methods
  base <owner hex> <base hex>        EXTENDS relation of a function block / class
  pouindex                           → rows of the POU index predicted by the PouIdMap model
  vtables                            → method tables of all function blocks and classes (method_table_for)
  strtab <hex>…                      → number of entries after interning the decoded string table
  xcompile <digest>…                 digests of the container bytes observed by the child processes
  xentry <entry point> <digest>…     the same for another public compile entry point
  xcycle <i> <digest>…               digests of the dump of cycle i observed by the child processes
  xrepub <i> <digest>…               digests of the I/O images after publishing the state of cycle i again
  xconst <digest>…                   digests of the never-assigned image ranges after the later cycles
  impl …                             (ignored here)
  end
For `xcompile`/`xcycle` the model prints the common observation (`agree`) or `DIVERGE`.
-/
namespace TrustVerif.Drv.C05
open TrustVerif.C05 TrustVerif.Drv

structure St where
  caseNo : Nat := 0
  programs : List String := []
  functions : List String := []
  fbs : List (String × List String) := []
  classes : List (String × List String) := []
  bases : List (String × String) := []

def textOfHex? (s : String) : Option String :=
  (parseHex? s).map fun bs => String.ofList (bs.map Char.ofNat)

def hexOfText (s : String) : String := showHex (s.toList.map Char.toNat)

def norm (s : String) : String := s.toUpper

def showOpt : Option Nat → String
  | some n => toString n
  | none => "-"

def showRow (r : PouRow) : String :=
  s!"{r.kind}:{hexOfText (norm r.name)}:{showOpt r.id}:{showOpt r.owner}"

def pouNames (st : St) : PouNames :=
  { programs := st.programs, functionBlocks := st.fbs, functions := st.functions, classes := st.classes }

/-- Ids of all methods, read back from the `PouIdMap` model after `build`. -/
def idsP : List (String × List String) → Prog PouMap PouKey Nat (List ((String × String) × Option Nat))
  | [] => .ret []
  | (_, []) :: rest => idsP rest
  | (o, n :: ns) :: rest =>
    (methodIdP norm o n).bind fun id =>
    (idsP ((o, ns) :: rest)).bind fun more => .ret (((norm o, norm n), id) :: more)
termination_by os => (os.length, (os.head?.map (·.2.length)).getD 0)

def findDef (defs : List (String × List String)) (key : String) : Option (String × List String) :=
  defs.find? fun d => norm d.1 = key

/-- `class_like_def`: function blocks first, then classes. -/
def classLike (st : St) (key : String) : Option (Option String × List String) :=
  match findDef st.fbs key with
  | some d => some ((st.bases.find? fun b => norm b.1 = key).map (·.2), d.2)
  | none =>
    match findDef st.classes key with
    | some d => some ((st.bases.find? fun b => norm b.1 = key).map (·.2), d.2)
    | none => none

def showEntry (e : MEntry) : String := s!"{hexOfText (norm e.name)}:{e.pouId}:{e.slot}"

def showTable (owner : String) : Except VtErr (List MEntry) → String
  | .ok t => s!"{hexOfText (norm owner)}={joinWith ";" (t.map showEntry)}"
  | .error e => s!"{hexOfText (norm owner)}=error:{reprStr e}"

def vtables (st : St) : String :=
  let r := pouNames st
  let ids := exec (Layout.spin st.caseNo) ((buildP norm r).bind fun _ => idsP (r.functionBlocks ++ r.classes))
  let methodId := fun (o n : String) => (ids.find? fun p => p.1 = (norm o, norm n)).bind (·.2)
  let owners := (st.fbs ++ st.classes).map (·.1)
  let fuel := owners.length + 2
  let ts := exec (Layout.spin (st.caseNo + 1)) (methodTablesP norm (classLike st) methodId fuel owners)
  joinWith "," ((owners.zip ts).map fun (o, t) => showTable o t)

def step (st : St) (line : String) : St × Option String :=
  if line.startsWith "#" then (st, none) else
  match words line with
  | ["case", n] => ({ caseNo := n.toNat?.getD 0 }, none)
  | ["end"] => (st, none)
  | "impl" :: _ => (st, none)
  | "tag" :: _ => (st, none)
  | "src" :: _ => (st, none)
  | "trace" :: _ => (st, none)
  | "opts" :: _ => (st, none)
  | "inputs" :: _ => (st, none)
  | "names" :: kind :: hs =>
    match hs.mapM textOfHex? with
    | some ns =>
      if kind = "program" then ({ st with programs := st.programs ++ ns }, none)
      else if kind = "function" then ({ st with functions := st.functions ++ ns }, none)
      else (st, some "bad-op")
    | none => (st, some "bad-op")
  | "owner" :: kind :: h :: hs =>
    match textOfHex? h, hs.mapM textOfHex? with
    | some n, some ms =>
      if kind = "fb" then ({ st with fbs := st.fbs ++ [(n, ms)] }, none)
      else if kind = "class" then ({ st with classes := st.classes ++ [(n, ms)] }, none)
      else (st, some "bad-op")
    | _, _ => (st, some "bad-op")
  | ["base", o, b] =>
    match textOfHex? o, textOfHex? b with
    | some o, some b => ({ st with bases := st.bases ++ [(o, b)] }, none)
    | _, _ => (st, some "bad-op")
  | ["vtables"] => (st, some ("m " ++ vtables st))
  | ["pouindex"] =>
    let rows := exec (Layout.spin st.caseNo) (pouIndexP norm (pouNames st))
    (st, some ("m " ++ joinWith "," (rows.map showRow)))
  | "strtab" :: hs =>
    match hs.mapM textOfHex? with
    | some ss =>
      let r := exec (Layout.spin st.caseNo) (internAllP [] ss)
      (st, some s!"m {r.2.length}")
    | none => (st, some "bad-op")
  | "xcompile" :: ds =>
    match agree ds with
    | some d => (st, some ("m " ++ d))
    | none => (st, some "m DIVERGE")
  | "xcycle" :: _ :: ds =>
    match agree ds with
    | some d => (st, some ("m " ++ d))
    | none => (st, some "m DIVERGE")
  | "xentry" :: _ :: ds =>
    match agree ds with
    | some d => (st, some ("m " ++ d))
    | none => (st, some "m DIVERGE")
  | "xrepub" :: _ :: ds =>
    match agree ds with
    | some d => (st, some ("m " ++ d))
    | none => (st, some "m DIVERGE")
  | "xconst" :: ds =>
    match agree ds with
    | some d => (st, some ("m " ++ d))
    | none => (st, some "m DIVERGE")
  | [] => (st, none)
  | _ => (st, some "bad-op")

def main (lines : Array String) (_args : List String) : IO Unit := do
  let mut st : St := {}
  for line in lines do
    let (st', out) := step st line
    st := st'
    match out with
    | some o => IO.println o
    | none => pure ()

end TrustVerif.Drv.C05
