import TrustVerif.Model.C05
import TrustVerif.Drv.Common

/-
Driver for C05.  Protocol (one case):
  case <n>
  opts <0|1>  /  inputs … | … | …   generator options and input names (not interpreted here)
  src <path hex> <text hex>          generated sources (not interpreted here)
  trace <dt> <b> <i> …               generated trace   (not interpreted here)
  # …                                comments
  names program|function <hex>…      keys of runtime.programs() / functions() in IndexMap order
  owner fb|class <name hex> <method hex>…   one function block / class with its methods
  pouindex                           → rows of the POU index predicted by the PouIdMap model
  strtab <hex>…                      → number of entries after interning the decoded string table
  xcompile <digest>…                 digests of the container bytes observed by the child processes
  xcycle <i> <digest>…               digests of the dump of cycle i observed by the child processes
  impl …                             (ignored here)
  end
For `xcompile`/`xcycle` the model prints the common observation (`agree`) or `DIVERGE`.
-/
namespace TrustVerif.Drv.C05
open TrustVerif.C05 TrustVerif.Drv

structure St where
  caseNo : Nat := 0
  programs : List String := []
  functions : List String := []
  fbs : List (String × List String) := []
  classes : List (String × List String) := []

def textOfHex? (s : String) : Option String :=
  (parseHex? s).map fun bs => String.ofList (bs.map Char.ofNat)

def hexOfText (s : String) : String := showHex (s.toList.map Char.toNat)

def norm (s : String) : String := s.toUpper

def showOpt : Option Nat → String
  | some n => toString n
  | none => "-"

def showRow (r : PouRow) : String :=
  s!"{r.kind}:{hexOfText (norm r.name)}:{showOpt r.id}:{showOpt r.owner}"

def pouNames (st : St) : PouNames :=
  { programs := st.programs, functionBlocks := st.fbs, functions := st.functions, classes := st.classes }

def step (st : St) (line : String) : St × Option String :=
  if line.startsWith "#" then (st, none) else
  match words line with
  | ["case", n] => ({ caseNo := n.toNat?.getD 0 }, none)
  | ["end"] => (st, none)
  | "impl" :: _ => (st, none)
  | "tag" :: _ => (st, none)
  | "src" :: _ => (st, none)
  | "trace" :: _ => (st, none)
  | "opts" :: _ => (st, none)
  | "inputs" :: _ => (st, none)
  | "names" :: kind :: hs =>
    match hs.mapM textOfHex? with
    | some ns =>
      if kind = "program" then ({ st with programs := st.programs ++ ns }, none)
      else if kind = "function" then ({ st with functions := st.functions ++ ns }, none)
      else (st, some "bad-op")
    | none => (st, some "bad-op")
  | "owner" :: kind :: h :: hs =>
    match textOfHex? h, hs.mapM textOfHex? with
    | some n, some ms =>
      if kind = "fb" then ({ st with fbs := st.fbs ++ [(n, ms)] }, none)
      else if kind = "class" then ({ st with classes := st.classes ++ [(n, ms)] }, none)
      else (st, some "bad-op")
    | _, _ => (st, some "bad-op")
  | ["pouindex"] =>
    let rows := exec (Layout.spin st.caseNo) (pouIndexP norm (pouNames st))
    (st, some ("m " ++ joinWith "," (rows.map showRow)))
  | "strtab" :: hs =>
    match hs.mapM textOfHex? with
    | some ss =>
      let r := exec (Layout.spin st.caseNo) (internAllP [] ss)
      (st, some s!"m {r.2.length}")
    | none => (st, some "bad-op")
  | "xcompile" :: ds =>
    match agree ds with
    | some d => (st, some ("m " ++ d))
    | none => (st, some "m DIVERGE")
  | "xcycle" :: _ :: ds =>
    match agree ds with
    | some d => (st, some ("m " ++ d))
    | none => (st, some "m DIVERGE")
  | [] => (st, none)
  | _ => (st, some "bad-op")

def main (lines : Array String) (_args : List String) : IO Unit := do
  let mut st : St := {}
  for line in lines do
    let (st', out) := step st line
    st := st'
    match out with
    | some o => IO.println o
    | none => pure ()

end TrustVerif.Drv.C05
