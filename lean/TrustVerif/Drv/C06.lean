import TrustVerif.Model.C06
import TrustVerif.Drv.Common

/-
Driver for C06.  Protocol (one case):
  case <n>
  progs <nprogs>
  task <interval> <single|-1> <priority> <p...>        (declaration order)
  reg <t0> <b...>          clock and BOOL globals at registration
  cycle <now> <b...>       clock and BOOL globals at the start of the cycle
  impl <...>               (ignored here)
  end
For every `cycle` line the model prints `m tasks=.. progs=.. ovev=.. ovc=..`.
-/
namespace TrustVerif.Drv.C06
open TrustVerif.C06 TrustVerif.Drv

structure St where
  nprogs : Nat := 0
  tasks : List Task := []
  sts : List TState := []
  registered : Bool := false

def lookup (bs : List Bool) (i : Nat) : Bool := bs.getD i false

def showOut (o : CycleOut) : String :=
  s!"tasks={showNats o.tasks} progs={showNats o.programs} ovev={joinWith "," (o.overrunEvents.map fun p => s!"{p.1}:{p.2}")} ovc={showNats o.overrunCounts}"

def step (st : St) (line : String) : St × Option String :=
  match words line with
  | ["case", _] => ({}, none)
  | ["end"] => (st, none)
  | "impl" :: _ => (st, none)
  | "tag" :: _ => (st, none)
  | ["progs", n] =>
    match n.toNat? with
    | some n => ({ st with nprogs := n }, none)
    | none => (st, some "bad-op")
  | "task" :: iv :: sg :: pr :: ps =>
    match iv.toInt?, sg.toInt?, pr.toNat?, parseNats? ps with
    | some iv, some sg, some pr, some ps =>
      let single := if sg < 0 then none else some sg.toNat
      ({ st with tasks := st.tasks ++ [{ interval := iv, single := single, priority := pr, programs := ps }] }, none)
    | _, _, _, _ => (st, some "bad-op")
  | "reg" :: t0 :: bs =>
    match t0.toInt?, parseBools? bs with
    | some t0, some bs =>
      let sts := st.tasks.map fun tk =>
        register t0 (match tk.single with | some i => lookup bs i | none => false)
      ({ st with sts := sts, registered := true }, none)
    | _, _ => (st, some "bad-op")
  | "cycle" :: now :: bs =>
    match now.toInt?, parseBools? bs with
    | some now, some bs =>
      if !st.registered then (st, some "bad-op") else
      let (sts', out) := cycle st.tasks st.nprogs st.sts (lookup bs) now
      ({ st with sts := sts' }, some ("m " ++ showOut out))
    | _, _ => (st, some "bad-op")
  | [] => (st, none)
  | _ => (st, some "bad-op")

def main (lines : Array String) (_args : List String) : IO Unit := do
  let mut st : St := {}
  for line in lines do
    let (st', out) := step st line
    st := st'
    match out with
    | some o => IO.println o
    | none => pure ()

end TrustVerif.Drv.C06
