import TrustVerif.Model.C07
import TrustVerif.Drv.Common

/-
Driver for C07.  Tokens: address `<A><S>:<byte>:<bit>:<path|->:<wild>` (`IW:4:0:4:0`), value
`<kind>:<payload>` (`int:-5`, `time:<ns>`, `date:<ticks>`, `enum:<numeric value>`, `other:2`), type
`bool|sint|…|time|date|tod|dt|ltime|ldate|ltod|ldt|other|none`.

  case <n>
  kind raw|bind|pa|rt
  resize <i> <q> <m>                       IoInterface::resize
  setimg <I|Q|M> <hex>                     overwrite an image through the public mutable slice
  w <addr> <value>                         IoInterface::write      -> m ok|err:<e> I=.. Q=.. M=..
  r <addr>                                 IoInterface::read       -> m ok <value> | err:<e>
  nvars <n> / var <id> <value> / setvar <id> <value>
  bind name|ref <id> <addr> <type>         append a binding
  at <firstId> <baseAddr> e:<ty>|a:<len>:<ty>|s:<ty>,..   append the bindings of an AT declaration
  latch                                    IoInterface::read_inputs  -> m ok|err:<e> vars=..
  publish                                  IoInterface::write_outputs -> m ok|err:<e> I=.. Q=.. M=..
  pr <value> <acc> / pw <value> <acc> <value>   partial access     -> m ok <value> | err:..
  debug <0|1> / prog <p> <stmt..> / task <t> <p..> / bg <p..> / drivers <n>
  bindings                                 -> m <var>@<addr>@<type>,…
  din <d> <readFail> <writeFail> <off:byte,..|->     script of driver d for the next cycle
  ext <id> <value> / qio <addr> <value> / force <addr> <value> / release <addr> / clearfault
  cycle full|idle                          -> m res=.. log=.. vars=.. I=.. Q=.. M=..
-/
namespace TrustVerif.Drv.C07
open TrustVerif.C07 TrustVerif.Drv

def parseArea? : Char → Option Area
  | 'I' => some .input | 'Q' => some .output | 'M' => some .memory | _ => none

def parseSize? : Char → Option Size
  | 'X' => some .bit | 'B' => some .byte | 'W' => some .word | 'D' => some .dword | 'L' => some .lword
  | _ => none

def parseAddr? (s : String) : Option Addr :=
  match s.splitOn ":" with
  | [as, byte, bit, path, wild] =>
    match as.toList with
    | [a, z] => do
      let area ← parseArea? a
      let size ← parseSize? z
      let byte ← byte.toNat?
      let bit ← bit.toNat?
      let path ← if path = "-" then some [] else (path.splitOn ".").mapM (·.toNat?)
      let wild ← parseBool? wild
      some { area, size, byte, bit, path, wildcard := wild }
    | _ => none
  | _ => none

def areaTok : Area → String | .input => "I" | .output => "Q" | .memory => "M"
def sizeTok : Size → String | .bit => "X" | .byte => "B" | .word => "W" | .dword => "D" | .lword => "L"

def addrTok (a : Addr) : String :=
  s!"{areaTok a.area}{sizeTok a.size}:{a.byte}:{a.bit}:{if a.path.isEmpty then "-" else joinWith "." (a.path.map toString)}:{if a.wildcard then 1 else 0}"

def parseTKind? : String → Option TKind
  | "time" => some .time | "date" => some .date | "tod" => some .tod | "dt" => some .dt
  | "ltime" => some .ltime | "ldate" => some .ldate | "ltod" => some .ltod | "ldt" => some .ldt
  | _ => none

def tkindTok : TKind → String
  | .time => "time" | .date => "date" | .tod => "tod" | .dt => "dt"
  | .ltime => "ltime" | .ldate => "ldate" | .ltod => "ltod" | .ldt => "ldt"

def parseValue? (s : String) : Option Value :=
  match s.splitOn ":" with
  | [k, p] =>
    match parseTKind? k with
    | some tk => p.toInt?.map (.tick tk)
    | none =>
    match k with
    | "enum" => p.toInt?.map .enum
    | "bool" => (parseBool? p).map .bool
    | "sint" => p.toInt?.map .sint
    | "int" => p.toInt?.map .int
    | "dint" => p.toInt?.map .dint
    | "lint" => p.toInt?.map .lint
    | "usint" => p.toNat?.map .usint
    | "uint" => p.toNat?.map .uint
    | "udint" => p.toNat?.map .udint
    | "ulint" => p.toNat?.map .ulint
    | "real" => p.toNat?.map .real
    | "lreal" => p.toNat?.map .lreal
    | "byte" => p.toNat?.map .byte
    | "word" => p.toNat?.map .word
    | "dword" => p.toNat?.map .dword
    | "lword" => p.toNat?.map .lword
    | "char" => p.toNat?.map .char
    | "wchar" => p.toNat?.map .wchar
    | "other" => p.toNat?.map .other
    | _ => none
  | _ => none

def valTok : Value → String
  | .bool b => s!"bool:{if b then 1 else 0}"
  | .sint v => s!"sint:{v}" | .int v => s!"int:{v}" | .dint v => s!"dint:{v}" | .lint v => s!"lint:{v}"
  | .usint v => s!"usint:{v}" | .uint v => s!"uint:{v}" | .udint v => s!"udint:{v}" | .ulint v => s!"ulint:{v}"
  | .real v => s!"real:{v}" | .lreal v => s!"lreal:{v}"
  | .byte v => s!"byte:{v}" | .word v => s!"word:{v}" | .dword v => s!"dword:{v}" | .lword v => s!"lword:{v}"
  | .char v => s!"char:{v}" | .wchar v => s!"wchar:{v}"
  | .tick k n => s!"{tkindTok k}:{n}"
  | .enum n => s!"enum:{n}"
  | .other t => s!"other:{t}"

def parseTy? : String → Option (Option Ty)
  | "none" => some none
  | "bool" => some (some .bool) | "sint" => some (some .sint) | "usint" => some (some .usint)
  | "byte" => some (some .byte) | "char" => some (some .char) | "int" => some (some .int)
  | "uint" => some (some .uint) | "word" => some (some .word) | "wchar" => some (some .wchar)
  | "dint" => some (some .dint) | "udint" => some (some .udint) | "dword" => some (some .dword)
  | "real" => some (some .real) | "lint" => some (some .lint) | "ulint" => some (some .ulint)
  | "lword" => some (some .lword) | "lreal" => some (some .lreal) | "other" => some (some .other)
  | t => (parseTKind? t).map fun k => some (.tick k)

def tyTok : Option Ty → String
  | none => "none"
  | some .bool => "bool" | some .sint => "sint" | some .usint => "usint" | some .byte => "byte"
  | some .char => "char" | some .int => "int" | some .uint => "uint" | some .word => "word"
  | some .wchar => "wchar" | some .dint => "dint" | some .udint => "udint" | some .dword => "dword"
  | some .real => "real" | some .lint => "lint" | some .ulint => "ulint" | some .lword => "lword"
  | some .lreal => "lreal" | some .other => "other" | some (.tick k) => tkindTok k

def errTok : Err → String
  | .typeMismatch => "typeMismatch" | .overflow => "overflow" | .invalidIoAddress => "invalidIoAddress"
  | .undefinedVariable => "undefinedVariable" | .nullReference => "nullReference"
  | .divisionByZero => "divisionByZero" | .ioDriver => "ioDriver" | .resourceFaulted => "resourceFaulted"
  | .shiftPanic => "shiftPanic" | .unmodelled => "UNMODELLED"

def imagesTok (io : Io) : String :=
  s!"I={showHex io.inputs} Q={showHex io.outputs} M={showHex io.memory}"

def parsePokes? (s : String) : Option (List (Nat × Nat)) :=
  if s = "-" then some [] else
  (s.splitOn ",").mapM fun t =>
    match t.splitOn ":" with
    | [o, b] => do some ((← o.toNat?), (← b.toNat?))
    | _ => none

def parseStmt? (s : String) : Option Stmt :=
  match s.splitOn ":" with
  | ["c", d, x] => do some (.copy (← d.toNat?) (← x.toNat?))
  | ["d", d, x] => do some (.divBy (← d.toNat?) (← x.toNat?))
  | ["s", q, d] => do some (.stamp (← q.toNat?) (← d.toNat?))
  | _ => none

def parseAcc? (s : String) : Option PAccess :=
  match s.toList with
  | c :: rest =>
    match (String.ofList rest).toNat? with
    | some i =>
      match c with
      | 'X' => some (.bit i) | 'B' => some (.byte i) | 'W' => some (.word i) | 'D' => some (.dword i)
      | _ => none
    | none => none
  | [] => none

structure St where
  io : Io := {}
  nvars : Nat := 0
  store : Store := Store.empty
  bindings : List Binding := []
  debug : Bool := false
  progs : List (Nat × List Stmt) := []
  tasks : List (Nat × List Nat) := []
  bg : List Nat := []
  ndrivers : Nat := 0
  din : List (Nat × DrvIn) := []
  qio : List (Addr × Value) := []
  forced : List (Addr × Value) := []
  faulted : Bool := false

def varsTok (st : St) (s : Store) : String :=
  joinWith "," ((List.range st.nvars).map fun i => match s i with | some v => valTok v | none => "-")

def evTok : Ev → String
  | .cycleStart => "cs" | .cycleEnd => "ce" | .fault => "f"
  | .read d e => s!"r{d}:{showHex e}"
  | .write d b => s!"w{d}:{showHex b}"
  | .taskStart t => s!"ts{t}" | .taskEnd t => s!"te{t}"
  | .prog p _ => s!"p{p}"

/-- What the harness can see of the semantic trace: always the driver calls; with a debugger
attached also the runtime's own events; never the `prog` markers (their order shows in the
sequence stamps the programs write). -/
def visible (debug : Bool) (e : Ev) : Bool :=
  if e.isProg then false else if debug then true else e.isDriver

def mkProg (st : St) (p : Nat) : Prog :=
  { id := p, run := execStmts ((st.progs.lookup p).getD []) }

def resizeImg (img : List Nat) (n : Nat) : List Nat :=
  img.take n ++ List.replicate (n - img.length) 0

def step (st : St) (line : String) : St × Option String :=
  match words line with
  | [] => (st, none)
  | ["case", _] => ({}, none)
  | ["end"] => (st, none)
  | "impl" :: _ => (st, none)
  | "tag" :: _ => (st, none)
  | ["kind", _] => (st, none)
  | ["resize", i, q, m] =>
    match i.toNat?, q.toNat?, m.toNat? with
    | some i, some q, some m =>
      ({ st with io := { st.io with inputs := resizeImg st.io.inputs i, outputs := resizeImg st.io.outputs q,
                                    memory := resizeImg st.io.memory m } }, none)
    | _, _, _ => (st, some "bad-op")
  | ["setimg", a, h] =>
    match a.toList, parseHex? h with
    | [c], some bytes =>
      match parseArea? c with
      -- the harness overwrites the implementation's slice in place; a different length here means the
      -- images already diverged at an earlier compared op (every image-changing op prints the images)
      | some area => ({ st with io := st.io.setArea area bytes }, none)
      | none => (st, some "bad-op")
    | _, _ => (st, some "bad-op")
  | ["w", a, v] =>
    match parseAddr? a, parseValue? v with
    | some a, some v =>
      match write st.io a v with
      | .ok io' => ({ st with io := io' }, some s!"m ok {imagesTok io'}")
      | .error .shiftPanic => (st, some "m err:shiftPanic")
      | .error e => (st, some s!"m err:{errTok e} {imagesTok st.io}")
    | _, _ => (st, some "bad-op")
  | ["r", a] =>
    match parseAddr? a with
    | some a =>
      match read st.io a with
      | .ok v => (st, some s!"m ok {valTok v}")
      | .error e => (st, some s!"m err:{errTok e}")
    | none => (st, some "bad-op")
  | ["nvars", n] =>
    match n.toNat? with
    | some n => ({ st with nvars := n }, none)
    | none => (st, some "bad-op")
  | ["release", a] =>
    match parseAddr? a with
    | some a => ({ st with forced := releaseIo st.forced a }, none)
    | none => (st, some "bad-op")
  | ["bind", how, x, a, t] =>
    match x.toNat?, parseAddr? a, parseTy? t with
    | some x, some a, some t =>
      if how = "name" then ({ st with bindings := st.bindings ++ [{ target := .name x, addr := a, ty := t }] }, none)
      else if how = "ref" then ({ st with bindings := st.bindings ++ [{ target := .ref x, addr := a, ty := t }] }, none)
      else (st, some "bad-op")
    | _, _, _ => (st, some "bad-op")
  | ["at", first, a, sh] =>
    let shape? : Option Shape :=
      match sh.splitOn ":" with
      | ["e", t] => (parseTy? t).bind fun t => t.map .elem
      | ["a", len, t] => do
        let len ← len.toNat?
        let t ← (parseTy? t).bind id
        some (.array len t)
      | ["s", ts] => do
        let ts ← (ts.splitOn ",").mapM fun t => (parseTy? t).bind id
        some (.struct ts)
      | _ => none
    match first.toNat?, parseAddr? a, shape? with
    | some first, some a, some shape =>
      match expandAt first a shape with
      | some bs => ({ st with bindings := st.bindings ++ bs }, none)
      | none => (st, some "bad-op")
    | _, _, _ => (st, some "bad-op")
  | ["latch"] =>
    let (s', e) := latch st.io st.bindings st.store
    ({ st with store := s' },
      some s!"m {match e with | none => "ok" | some e => "err:" ++ errTok e} vars={varsTok st s'}")
  | ["publish"] =>
    let (io', e) := collect st.store st.bindings st.io
    ({ st with io := io' },
      some s!"m {match e with | none => "ok" | some e => "err:" ++ errTok e} {imagesTok io'}")
  | ["pr", v, acc] =>
    match parseValue? v, parseAcc? acc with
    | some v, some acc =>
      match readPartial v acc with
      | .ok r => (st, some s!"m ok {valTok r}")
      | .error (.indexOutOfBounds i u) => (st, some s!"m err:index:{i}:0:{u}")
      | .error .typeMismatch => (st, some "m err:typeMismatch")
    | _, _ => (st, some "bad-op")
  | ["pw", t, acc, v] =>
    match parseValue? t, parseAcc? acc, parseValue? v with
    | some t, some acc, some v =>
      match writePartial t acc v with
      | .ok r => (st, some s!"m ok {valTok r}")
      | .error (.indexOutOfBounds i u) => (st, some s!"m err:index:{i}:0:{u}")
      | .error .typeMismatch => (st, some "m err:typeMismatch")
    | _, _, _ => (st, some "bad-op")
  | ["debug", b] =>
    match parseBool? b with
    | some b => ({ st with debug := b }, none)
    | none => (st, some "bad-op")
  | "prog" :: p :: stmts =>
    match p.toNat?, stmts.mapM parseStmt? with
    | some p, some stmts => ({ st with progs := st.progs ++ [(p, stmts)] }, none)
    | _, _ => (st, some "bad-op")
  | "task" :: t :: ps =>
    match t.toNat?, parseNats? ps with
    | some t, some ps => ({ st with tasks := st.tasks ++ [(t, ps)] }, none)
    | _, _ => (st, some "bad-op")
  | "bg" :: ps =>
    match parseNats? ps with
    | some ps => ({ st with bg := ps }, none)
    | none => (st, some "bad-op")
  | ["drivers", n] =>
    match n.toNat? with
    | some n => ({ st with ndrivers := n }, none)
    | none => (st, some "bad-op")
  | ["bindings"] =>
    let items := st.bindings.map fun b => s!"{b.target.var}@{addrTok b.addr}@{tyTok b.ty}"
    (st, some ("m " ++ (if items.isEmpty then "-" else joinWith "," items)))
  | ["din", d, rf, wf, pokes] =>
    match d.toNat?, parseBool? rf, parseBool? wf, parsePokes? pokes with
    | some d, some rf, some wf, some pokes =>
      ({ st with din := st.din ++ [(d, { pokes := pokes, readFail := rf, writeFail := wf })] }, none)
    | _, _, _, _ => (st, some "bad-op")
  | ["clearfault"] => ({ st with faulted := false }, none)
  | ["cycle", mode] =>
    if mode ≠ "full" ∧ mode ≠ "idle" then (st, some "bad-op") else
    -- every driver must have been scripted for this cycle
    match (List.range st.ndrivers).mapM fun d => st.din.lookup d with
    | none => (st, some "bad-op")
    | some drv =>
      let tasks : List Task :=
        if mode = "full" then st.tasks.map fun (t, ps) => { id := t, progs := ps.map (mkProg st) } else []
      let bg := st.bg.map (mkProg st)
      let out := cycle st.bindings { io := st.io, store := st.store, faulted := st.faulted } drv
        { ioWrites := st.qio, forced := st.forced } tasks bg
      let res := match out.err with | none => "ok" | some (_, e) => "err:" ++ errTok e
      let evs := (out.log.filter (visible st.debug)).map evTok
      let log := if evs.isEmpty then "-" else joinWith ";" evs
      let qio := if drainsIoWrites out.err then [] else st.qio
      ({ st with io := out.rt.io, store := out.rt.store, faulted := out.rt.faulted, din := [], qio := qio },
        some s!"m res={res} log={log} vars={varsTok st out.rt.store} {imagesTok out.rt.io}")
  | [op, x, v] =>
    if op = "var" ∨ op = "setvar" ∨ op = "ext" then
      if v = "-" then (st, if op = "var" then none else some "bad-op") else
      match x.toNat?, parseValue? v with
      | some x, some v => ({ st with store := st.store.set x v }, none)
      | _, _ => (st, some "bad-op")
    else if op = "qio" ∨ op = "force" then
      match parseAddr? x, parseValue? v with
      | some a, some v =>
        if op = "qio" then ({ st with qio := st.qio ++ [(a, v)] }, none)
        else ({ st with forced := forceIo st.forced a v }, none)
      | _, _ => (st, some "bad-op")
    else (st, some "bad-op")
  | _ => (st, some "bad-op")

def main (lines : Array String) (_args : List String) : IO Unit := do
  let mut st : St := {}
  for line in lines do
    let (st', out) := step st line
    st := st'
    match out with
    | some o => IO.println o
    | none => pure ()

end TrustVerif.Drv.C07
