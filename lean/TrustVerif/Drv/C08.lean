import TrustVerif.Model.C08
import TrustVerif.Drv.Common

/-
Driver for C08.  Protocol (one case):
  case <n>
  task <interval_ns> <priority> <prog...>              (declaration order)
  prog <p> <stmt...>            T | S:<var>:<value> | C:<dst>:<src> | X:<activation>:<0 div|1 idx>
  initdiv <0|1 per program>     the program declares `gain : DINT := 100 / divisor` (global 9, RETAIN)
  fb <f> <owner program> <stmt...>   task-associated FB instance (unit 100+f); taskfb <task> <f...>
  bind <var> <addr> <bool|byte|word|dword|lword|sint>  (the runtime's binding list, in order)
  drv <read-fail calls|-> <write-fail calls|->         (one line per logging driver)
  retain <store-fail calls|-|none>
  expired <clock values (ns) at which the execution deadline lies in the past|->
  vars <initial values of the bound/global variables>
  init <t0> <inputs hex> <outputs hex> <memory hex>    (ends the configuration)
then operations, each followed by the implementation's `impl …` line:
  policy|wd <halt|safe|restart>, safe <n> (<addr> <value>)*, dbg <addr> <value>, adv <dt>,
  force <addr> <value>, release <addr>,
  vw <target> <value> (enqueue_global_write / enqueue_instance_write), lw <target> <value>
  (enqueue_lvalue_write), fv <target> <value> (force_global), rv <target> (release_global);
  targets: see `Conc.poke`; `restart <warm|cold> <program instances re-created 0|1>`,
  runloop <interval ns> <watchdog enabled> <cycle exceeds the timeout> <iterations completed> <post-cycle simulation
      step fails in every iteration>   (last operation: the
      runtime is handed to a ResourceRunner thread; answer `state=<Faulted|Stopped> err=.. ev=..`)
  cycle, watchdog, simfault, restart <warm|cold>, clear
<addr> = <I|Q|M>:<X|B|W|D|L>:<byte>:<bit>:<wildcard 0|1>:<path a.b.c|->
<value> = b<0|1> | B<n> | W<n> | D<n> | L<n> | i<n>
For every operation the model prints the same observation line as the harness (`m e=… ev=… …`).
-/
namespace TrustVerif.Drv.C08
open TrustVerif.C08 TrustVerif.C08.Conc TrustVerif.Drv

def parseArea? : String → Option Area
  | "I" => some .input | "Q" => some .output | "M" => some .memory | _ => none

def parseSize? : String → Option Size
  | "X" => some .bit | "B" => some .byte | "W" => some .word | "D" => some .dword | "L" => some .lword
  | _ => none

def parseCsv? (s : String) : Option (List Nat) :=
  if s = "-" then some [] else (s.splitOn ",").mapM (·.toNat?)

def parseAddr? (s : String) : Option Addr :=
  match s.splitOn ":" with
  | [ar, sz, byte, bit, wc, path] => do
    let ar ← parseArea? ar
    let sz ← parseSize? sz
    let byte ← byte.toNat?
    let bit ← bit.toNat?
    let wc ← parseBool? wc
    let path ← if path = "-" then some [] else (path.splitOn ".").mapM (·.toNat?)
    some { area := ar, size := sz, byte := byte, bit := bit, path := path, wildcard := wc }
  | _ => none

def parseValue? (s : String) : Option Value :=
  match s.toList with
  | 'b' :: rest => (parseBool? (String.ofList rest)).map Value.bool
  | 'B' :: rest => (String.ofList rest).toNat?.map Value.byte
  | 'W' :: rest => (String.ofList rest).toNat?.map Value.word
  | 'D' :: rest => (String.ofList rest).toNat?.map Value.dword
  | 'L' :: rest => (String.ofList rest).toNat?.map Value.lword
  | 'i' :: rest => (String.ofList rest).toInt?.map Value.int
  | _ => none

def parseStmt? (s : String) : Option Stmt :=
  match s.splitOn ":" with
  | ["T"] => some .tick
  | ["S", v, x] => do some (.set (← v.toNat?) (← x.toInt?))
  | ["C", d, s] => do some (.copy (← d.toNat?) (← s.toNat?))
  | ["X", c, k] => do some (.trap (← c.toNat?) (← parseBool? k))
  | _ => none

def parseTy? : String → Option BTy
  | "bool" => some .bool | "byte" => some .byte | "word" => some .word | "dword" => some .dword
  | "lword" => some .lword | "sint" => some .sint | _ => none

def parsePolicy? : String → Option FaultPolicy
  | "halt" => some .halt | "safe" => some .safeHalt | "restart" => some .restart | _ => none

def parseAction? : String → Option WatchdogAction
  | "halt" => some .halt | "safe" => some .safeHalt | "restart" => some .restart | _ => none

def parseEntries? : List String → Option (List (Addr × Value))
  | [] => some []
  | a :: v :: rest => do
    let a ← parseAddr? a
    let v ← parseValue? v
    let r ← parseEntries? rest
    some ((a, v) :: r)
  | _ => none

def showErr : Err → String
  | .resourceFaulted => "ResourceFaulted"
  | .watchdogTimeout => "WatchdogTimeout"
  | .simulationFault => "SimulationFault"
  | .divisionByZero => "DivisionByZero"
  | .indexOutOfBounds => "IndexOutOfBounds"
  | .typeMismatch => "TypeMismatch"
  | .overflow => "Overflow"
  | .invalidIoAddress => "InvalidIoAddress"
  | .ioDriverRead d => s!"IoDriver:r{d}"
  | .ioDriverWrite d => s!"IoDriver:w{d}"
  | .retainStore => "RetainStore"
  | .executionTimeout => "ExecutionTimeout"
  | .other n => s!"Other{n}"

def showValue : Value → String
  | .bool b => if b then "b1" else "b0"
  | .byte n => s!"B{n}"
  | .word n => s!"W{n}"
  | .dword n => s!"D{n}"
  | .lword n => s!"L{n}"
  | .int n => s!"i{n}"

def dash (xs : List String) : String := if xs.isEmpty then "-" else joinWith "," xs

def showEv : Ev → Option String
  | .cycleStart => some "cs"
  | .cycleEnd => some "ce"
  | .drvRead d => some s!"r{d}"
  | .drvWrite d img => some s!"w{d}:{showHex img}"
  | .fault e => some s!"F:{showErr e}"
  | .prog _ _ => none

def showProg : Ev → Option String
  | .prog _ 0 => none
  | .prog u n => some (if u ≥ 100 then s!"f{u - 100}:{n}" else s!"{u}:{n}")
  | _ => none

structure St where
  tasks : List C06.Task := []
  progs : List (List Stmt) := []
  bindings : List Binding := []
  drivers : List DrvScript := []
  retain : Option (List Nat) := none
  expired : List Int := []
  initDiv : List Bool := []
  fbs : List (List Stmt) := []
  fbOwner : List Nat := []
  taskFbs : List (Nat × List Nat) := []
  vars : List Int := []
  cfg : Option Cfg := none
  rs : Option (RState CStore CEnv) := none

def observe (cfg : Cfg) (r : PRes CStore CEnv) (isCycle : Bool) (refused : Bool) : String :=
  let _ := cfg
  let s := r.st
  let sr := s.safe.map fun (a, _) =>
    match s.io.read a with
    | .ok v => showValue v
    | .error e => "!" ++ showErr e
  let base :=
    s!"m e={match r.err with | some e => showErr e | none => "-"} ev={dash (r.evs.filterMap showEv)} " ++
    s!"f={if s.faulted then 1 else 0} lf={match s.lastFault with | some e => showErr e | none => "-"} " ++
    s!"st={s.store.steps} pr={dash (r.evs.filterMap showProg)} in={showHex s.io.inputs} " ++
    s!"out={showHex s.io.outputs} mem={showHex s.io.memory} sr={dash sr} cc={s.cycles} now={s.now} " ++
    s!"gv={showInts s.store.vars} ns={showNats s.store.ns} fn={showNats s.store.fns}"
  if isCycle then base ++ s!" ch={if refused then 0 else 1}" else base

def doOp (st : St) (op : Op) : St × Option String :=
  match st.cfg, st.rs with
  | some cfg, some rs =>
    let refused := (match op with | .cycle => true | _ => false) && rs.faulted
    let isCycle := match op with | .cycle => true | _ => false
    let r := step (Conc.sem cfg) rs op
    ({ st with rs := some r.st }, some (observe cfg r isCycle refused))
  | _, _ => (st, some "bad-op")

def stepLine (st : St) (line : String) : St × Option String :=
  match words line with
  | ["case", _] => ({}, none)
  | ["end"] => (st, none)
  | "impl" :: _ => (st, none)
  | "tag" :: _ => (st, none)
  | [] => (st, none)
  | "task" :: iv :: pr :: ps =>
    match iv.toInt?, pr.toNat?, parseNats? ps with
    | some iv, some pr, some ps =>
      ({ st with tasks := st.tasks ++ [{ interval := iv, single := none, priority := pr, programs := ps }] }, none)
    | _, _, _ => (st, some "bad-op")
  | "prog" :: p :: body =>
    match p.toNat?, (if body = ["-"] then some [] else body.mapM parseStmt?) with
    | some p, some body =>
      if p = st.progs.length then ({ st with progs := st.progs ++ [body] }, none) else (st, some "bad-op")
    | _, _ => (st, some "bad-op")
  | ["bind", v, a, ty] =>
    match v.toNat?, parseAddr? a, parseTy? ty with
    | some v, some a, some ty => ({ st with bindings := st.bindings ++ [{ var := v, addr := a, ty := ty }] }, none)
    | _, _, _ => (st, some "bad-op")
  | ["drv", r, w] =>
    match parseCsv? r, parseCsv? w with
    | some r, some w => ({ st with drivers := st.drivers ++ [{ readFail := r, writeFail := w }] }, none)
    | _, _ => (st, some "bad-op")
  | ["retain", f] =>
    if f = "none" then ({ st with retain := none }, none) else
    match parseCsv? f with
    | some f => ({ st with retain := some f }, none)
    | none => (st, some "bad-op")
  | "initdiv" :: fs =>
    match parseBools? fs with
    | some fs => ({ st with initDiv := fs }, none)
    | none => (st, some "bad-op")
  | "fb" :: f :: owner :: body =>
    match f.toNat?, owner.toNat?, (if body = ["-"] then some [] else body.mapM parseStmt?) with
    | some f, some owner, some body =>
      if f = st.fbs.length then
        ({ st with fbs := st.fbs ++ [body], fbOwner := st.fbOwner ++ [owner] }, none)
      else (st, some "bad-op")
    | _, _, _ => (st, some "bad-op")
  | "taskfb" :: t :: fs =>
    match t.toNat?, parseNats? fs with
    | some t, some fs => ({ st with taskFbs := st.taskFbs ++ [(t, fs)] }, none)
    | _, _ => (st, some "bad-op")
  | ["expired", f] =>
    match (if f = "-" then some [] else (f.splitOn ",").mapM (·.toInt?)) with
    | some f => ({ st with expired := f }, none)
    | none => (st, some "bad-op")
  | "vars" :: vs =>
    match parseInts? vs with
    | some vs => ({ st with vars := vs }, none)
    | none => (st, some "bad-op")
  | ["init", t0, i, o, m] =>
    match t0.toInt?, parseHex? i, parseHex? o, parseHex? m with
    | some t0, some i, some o, some m =>
      let cfg : Cfg := { tasks := st.tasks, progs := st.progs, bindings := st.bindings, drivers := st.drivers,
                         initVars := st.vars, retain := st.retain, expiredAt := st.expired,
                         initDiv := st.initDiv, fbs := st.fbs, fbOwner := st.fbOwner,
                         taskFbs := (List.range st.tasks.length).map fun t =>
                           match st.taskFbs.find? (fun p => p.1 == t) with
                           | some p => p.2
                           | none => [] }
      let io : Io := { inputs := i, outputs := o, memory := m, hier := [] }
      ({ st with cfg := some cfg, rs := some (Conc.initState cfg io t0) }, none)
    | _, _, _, _ => (st, some "bad-op")
  | ["policy", p] =>
    match parsePolicy? p with
    | some p => doOp st (.setPolicy p)
    | none => (st, some "bad-op")
  | ["wd", a] =>
    match parseAction? a with
    | some a => doOp st (.setWatchdog a)
    | none => (st, some "bad-op")
  | "safe" :: n :: rest =>
    match n.toNat?, parseEntries? rest with
    | some n, some es => if es.length = n then doOp st (.setSafe es) else (st, some "bad-op")
    | _, _ => (st, some "bad-op")
  | ["dbg", a, v] =>
    match parseAddr? a, parseValue? v with
    | some a, some v => doOp st (.dbgWrite a v)
    | _, _ => (st, some "bad-op")
  | ["force", a, v] =>
    match parseAddr? a, parseValue? v with
    | some a, some v => doOp st (.forceIo a v)
    | _, _ => (st, some "bad-op")
  | ["release", a] =>
    match parseAddr? a with
    | some a => doOp st (.releaseIo a)
    | none => (st, some "bad-op")
  | ["adv", dt] =>
    match dt.toInt? with
    | some dt => doOp st (.advance dt)
    | none => (st, some "bad-op")
  | ["runloop", iv, en, ov, n, po] =>
    match iv.toInt?, parseBool? en, parseBool? ov, n.toNat?, parseBool? po, st.cfg, st.rs with
    | some iv, some en, some ov, some n, some po, some cfg, some rs =>
      let r := runnerLoop (Conc.sem cfg) iv en ov (fun _ => if po then some .invalidIoAddress else none) n rs 0
      let state := match r.err with | some _ => "Faulted" | none => "Stopped"
      ({ st with rs := some r.st },
        some s!"m state={state} err={match r.err with | some e => showErr e | none => "-"} ev={dash (r.evs.filterMap showEv)}")
    | _, _, _, _, _, _, _ => (st, some "bad-op")
  | ["cycle"] => doOp st .cycle
  | ["watchdog"] => doOp st .watchdog
  | ["simfault"] => doOp st .simFault
  | "restart" :: m :: fresh =>
    -- `fresh` = per program: the restart gives it a new instance (observed by the harness; C09's subject)
    match (if m = "warm" then some RestartMode.warm else if m = "cold" then some .cold else none),
          parseBools? fresh, st.rs with
    | some m, some fresh, some rs =>
      doOp { st with rs := some { rs with store := { rs.store with idsChange := fresh } } } (.restart m)
    | _, _, _ => (st, some "bad-op")
  | ["vw", k, v] =>
    match k.toNat?, v.toInt? with
    | some k, some v => doOp st (.varWrite k v)
    | _, _ => (st, some "bad-op")
  | ["lw", k, v] =>
    match k.toNat?, v.toInt? with
    | some k, some v => doOp st (.lvalWrite k v)
    | _, _ => (st, some "bad-op")
  | ["fv", k, v] =>
    match k.toNat?, v.toInt? with
    | some k, some v => doOp st (.forceVar k v)
    | _, _ => (st, some "bad-op")
  | ["rv", k] =>
    match k.toNat? with
    | some k => doOp st (.releaseVar k)
    | none => (st, some "bad-op")
  | ["clear"] => doOp st .clearFault
  | _ => (st, some "bad-op")

def main (lines : Array String) (_args : List String) : IO Unit := do
  let mut st : St := {}
  for line in lines do
    let (st', out) := stepLine st line
    st := st'
    match out with
    | some o => IO.println o
    | none => pure ()

end TrustVerif.Drv.C08
