import TrustVerif.Model.C09
import TrustVerif.Drv.Common

/-
Driver for C09.  One case = a description of the generated sources followed by operations on
runtime slots (`@0` = the runtime under test, `@1` = a freshly built twin).

  description
    fb <fb>                                  declare an FB type
    fbm <fb> <member> <val>                  member (params first, then vars) with its initial value
    fbat <fb> <member> <area> <size> <byte> <bit> <ty>   member declared AT a direct address
    fbs <fb> <sstmt>                         body statement
    g <name> <pol> v <val> | g <name> <pol> fb <fb>      global (pol = r|n|u|p)
    gat <name> <area> <size> <byte> <bit> <ty>           global declared AT
    p <prog>                                 program instance
    pv <prog> <var> <pol> v <val> | fb <fb> | ext | x <ty> <rpn>   (initialiser expression, reverse
                                             Polish, comma separated: g:<global> l:<var> k:<int> + *)
    pat <prog> <var> <area> <size> <byte> <bit> <ty>
    ps <prog> <stmt>
    task <name> <interval> <single|-> <prio>
    pt <prog> <task>                         PROGRAM .. WITH task
    ft <prog> <fbvar> <task>                 (fbvar WITH task)
    acc <name> <target>                      VAR_ACCESS
    ci <target> <val>                        VAR_CONFIG initial value
  operations (each answered by a dump line)
    @k build | copyin <j> | cycle <dt> | io <area> <size> <byte> <bit> <raw> | restart cold|warm |
       store <0|1> | save | load | envw <0|1> (store writable or not) | fault | wacc <name> <val> |
       driver <ni> <nq> <nm> (size the images, register a field driver) | field <hex> (field input bytes) |
       sched <when>:<mode>,..  (tail through the resource thread; when = pre|idle|during; answered by
                                `res= pending= loads= V ..`)
  values   n<ty>:<int>  s<ty>:<hex>  a<lo>_<hi>;..[v,..]  r{f=v,..}  ~  &
  targets  g:<name> | l:<name> | p:<prog>:<name>   then /m=<member> /f=<field> /i=<i>,<j>
-/
namespace TrustVerif.Drv.C09
open TrustVerif.C09 TrustVerif.Drv

/-! ### names -/

structure Names where
  tab : Array String := #[]

def Names.intern (ns : Names) (s : String) : Names × Nat :=
  match ns.tab.findIdx? (· == s) with
  | some i => (ns, i)
  | none => ({ tab := ns.tab.push s }, ns.tab.size)

def Names.show (ns : Names) (n : Nat) : String := ns.tab.getD n s!"#{n}"

/-! ### value syntax -/

abbrev P := StateT (List Char) Option

def peek : P (Option Char) := do return (← get).head?
def next : P Char := do
  match (← get) with
  | c :: rest => set rest; return c
  | [] => failure
def expect (c : Char) : P Unit := do
  let d ← next
  if d = c then return () else failure

def takeWhileP (f : Char → Bool) : P String := do
  let cs ← get
  let pre := cs.takeWhile f
  set (cs.drop pre.length)
  return String.ofList pre

def natP : P Nat := do
  let s ← takeWhileP Char.isDigit
  match s.toNat? with
  | some n => return n
  | none => failure

def intP : P Int := do
  match (← peek) with
  | some '-' => let _ ← next; let n ← natP; return -(n : Int)
  | _ => let n ← natP; return (n : Int)

def nameChar (c : Char) : Bool := c.isAlphanum || c = '_'

partial def valP (intern : String → StateT Names P Nat) : StateT Names P Val := do
  let c ← (next : P Char)
  match c with
  | 'n' =>
    let ty ← (natP : P Nat); (expect ':' : P Unit); let v ← (intP : P Int)
    return .num ty v
  | 's' =>
    let ty ← (natP : P Nat); (expect ':' : P Unit)
    let h ← (takeWhileP (fun c => c.isAlphanum || c = '-') : P String)
    match parseHex? h with
    | some bs => return .str ty bs
    | none => (failure : P Val)
  | '~' => return .null
  | '&' => return .ref
  | 'a' =>
    let rec dims (acc : List (Int × Int)) : P (List (Int × Int)) := do
      let lo ← intP; expect '_'; let hi ← intP
      match (← peek) with
      | some ';' => let _ ← next; dims (acc ++ [(lo, hi)])
      | _ => return acc ++ [(lo, hi)]
    let ds ← (dims [] : P _)
    (expect '[' : P Unit)
    let rec elems (acc : List Val) : StateT Names P (List Val) := do
      match (← (peek : P _)) with
      | some ']' => let _ ← (next : P Char); return acc
      | some ',' => let _ ← (next : P Char); elems acc
      | _ => let v ← valP intern; elems (acc ++ [v])
    let xs ← elems []
    return .arr ds xs
  | 'r' =>
    (expect '{' : P Unit)
    let rec fields (acc : List (Nat × Val)) : StateT Names P (List (Nat × Val)) := do
      match (← (peek : P _)) with
      | some '}' => let _ ← (next : P Char); return acc
      | some ',' => let _ ← (next : P Char); fields acc
      | _ =>
        let nm ← (takeWhileP nameChar : P String)
        (expect '=' : P Unit)
        let n ← intern nm
        let v ← valP intern
        fields (acc ++ [(n, v)])
    let fs ← fields []
    return .struct fs
  | _ => (failure : P Val)

def internM (s : String) : StateT Names P Nat := do
  let ns ← get
  let (ns', n) := ns.intern s
  set ns'
  return n

def parseVal (ns : Names) (s : String) : Option (Val × Names) :=
  match (valP internM).run ns |>.run s.toList with
  | some ((v, ns'), []) => some (v, ns')
  | _ => none

partial def showVal (ns : Names) : Val → String
  | .num ty v => s!"n{ty}:{v}"
  | .str ty bs => s!"s{ty}:{showHex bs}"
  | .arr ds xs =>
    "a" ++ joinWith ";" (ds.map fun (lo, hi) => s!"{lo}_{hi}") ++ "[" ++ joinWith "," (xs.map (showVal ns)) ++ "]"
  | .struct fs => "r{" ++ joinWith "," (fs.map fun (n, v) => s!"{ns.show n}={showVal ns v}") ++ "}"
  | .inst id => s!"@{id}"
  | .ref => "&"
  | .null => "~"

/-! ### description -/

structure Desc where
  names : Names := {}
  src : Source := {}

def parsePolicy? : String → Option Policy
  | "r" => some .retain | "n" => some .nonRetain | "u" => some .unspecified | "p" => some .persistent
  | _ => none

def parseArea? : String → Option Area
  | "I" => some .input | "Q" => some .output | "M" => some .memory | _ => none

def parseSize? : String → Option Size
  | "X" => some .bit | "B" => some .byte | "W" => some .word | "D" => some .dword | "L" => some .lword
  | _ => none

def parseAddr? (a s b bit : String) : Option IoAddr := do
  let area ← parseArea? a
  let size ← parseSize? s
  let byte ← b.toNat?
  let bit ← bit.toNat?
  return { area := area, size := size, byte := byte, bit := bit }

def parseInts (s : String) : Option (List Int) := (s.splitOn ",").mapM (·.toInt?)

/-- `g:<name>` / `l:<name>` / `p:<prog>:<name>` then `/m=` `/f=` `/i=` segments. -/
def parseTarget (ns : Names) (s : String) : Option (Target × Names) := do
  let parts := s.splitOn "/"
  let base ← parts.head?
  let (scope, name, ns) ←
    match base.splitOn ":" with
    | ["g", n] => let (ns, i) := ns.intern n; some (Scope.g, i, ns)
    | ["l", n] => let (ns, i) := ns.intern n; some (Scope.l, i, ns)
    | ["p", p, n] =>
      let (ns, pi) := ns.intern p
      let (ns, i) := ns.intern n
      some (Scope.p pi, i, ns)
    | _ => none
  let mut ns := ns
  let mut member : Option Nat := none
  let mut path : List Seg := []
  for seg in parts.drop 1 do
    if seg.startsWith "m=" then
      let (ns', i) := ns.intern (seg.drop 2).toString
      ns := ns'
      if path.isEmpty && member.isNone then member := some i else failure
    else if seg.startsWith "f=" then
      let (ns', i) := ns.intern (seg.drop 2).toString
      ns := ns'
      path := path ++ [.field i]
    else if seg.startsWith "i=" then
      let is ← parseInts (seg.drop 2).toString
      path := path ++ [.index is]
    else failure
  return ({ scope := scope, name := name, member := member, path := path }, ns)

def parseSStmt (ns : Names) : List String → Option (SStmt × Names)
  | ["inc", t, k] => do
    let (t, ns) ← parseTarget ns t
    let k ← k.toInt?
    return (.inc t k, ns)
  | ["incu", t, k] => do
    let (t, ns) ← parseTarget ns t
    let k ← k.toInt?
    return (.incu t k, ns)
  | ["tog", t] => do
    let (t, ns) ← parseTarget ns t
    return (.tog t, ns)
  | ["set", t, v] => do
    let (t, ns) ← parseTarget ns t
    let (v, ns) ← parseVal ns v
    return (.set t v, ns)
  | ["cpy", d, s] => do
    let (d, ns) ← parseTarget ns d
    let (s, ns) ← parseTarget ns s
    return (.cpy d s, ns)
  | _ => none

def parseArgs (ns : Names) (s : String) : Option (List (Nat × Val) × Names) :=
  if s = "-" then some ([], ns) else do
    let mut ns := ns
    let mut out : List (Nat × Val) := []
    for kv in s.splitOn "," do
      match kv.splitOn "=" with
      | [k, v] =>
        let (ns1, i) := ns.intern k
        let (v, ns2) ← parseVal ns1 v
        ns := ns2
        out := out ++ [(i, v)]
      | _ => failure
    return (out, ns)

def parseStmt (ns : Names) : List String → Option (Stmt × Names)
  | ["call", t, args] => do
    let (t, ns) ← parseTarget ns t
    let (args, ns) ← parseArgs ns args
    return (.call t.scope t.name args, ns)
  | ws => do
    let (s, ns) ← parseSStmt ns ws
    return (.simple s, ns)

/-- Reverse Polish initialiser expression. -/
def parseIExpr (ns : Names) (s : String) : Option (IExpr × Names) := do
  let mut ns := ns
  let mut stack : List IExpr := []
  for tok in s.splitOn "," do
    if tok = "+" || tok = "*" then
      match stack with
      | b :: a :: rest => stack := (if tok = "+" then IExpr.add a b else IExpr.mul a b) :: rest
      | _ => failure
    else
      match tok.splitOn ":" with
      | ["k", k] => let k ← k.toInt?; stack := .lit k :: stack
      | ["g", n] => let (ns', i) := ns.intern n; ns := ns'; stack := .glob i :: stack
      | ["l", n] => let (ns', i) := ns.intern n; ns := ns'; stack := .loc i :: stack
      | _ => failure
  match stack with
  | [e] => return (e, ns)
  | _ => failure

def updFb (fbs : List FbDecl) (n : Nat) (f : FbDecl → FbDecl) : Option (List FbDecl) :=
  if fbs.any (·.fb.name == n) then some (fbs.map fun d => if d.fb.name == n then f d else d) else none

def updProg (ps : List ProgDecl) (n : Nat) (f : ProgDecl → ProgDecl) : Option (List ProgDecl) :=
  if ps.any (·.name == n) then some (ps.map fun d => if d.name == n then f d else d) else none

/-- One description line; `none` = not a description line / malformed. -/
def descLine (d : Desc) (ws : List String) : Option Desc :=
  let ns := d.names
  let src := d.src
  match ws with
  | ["fb", f] =>
    let (ns, f) := ns.intern f
    some { names := ns, src := { src with fbs := src.fbs ++ [{ fb := { name := f, members := [], body := [] } }] } }
  | ["fbm", f, m, v] => do
    let (ns, f) := ns.intern f
    let (ns, m) := ns.intern m
    let (v, ns) ← parseVal ns v
    let fbs ← updFb src.fbs f fun d => { d with fb := { d.fb with members := d.fb.members ++ [(m, v)] } }
    return { names := ns, src := { src with fbs := fbs } }
  | ["fbat", f, m, a, s, b, bit, ty] => do
    let (ns, f) := ns.intern f
    let (ns, m) := ns.intern m
    let addr ← parseAddr? a s b bit
    let ty ← ty.toNat?
    let fbs ← updFb src.fbs f fun d => { d with ats := d.ats ++ [(m, addr, ty)] }
    return { names := ns, src := { src with fbs := fbs } }
  | "fbs" :: f :: rest => do
    let (ns, f) := ns.intern f
    let (st, ns) ← parseSStmt ns rest
    let fbs ← updFb src.fbs f fun d => { d with fb := { d.fb with body := d.fb.body ++ [st] } }
    return { names := ns, src := { src with fbs := fbs } }
  | ["g", n, pol, "v", v] => do
    let (ns, n) := ns.intern n
    let pol ← parsePolicy? pol
    let (v, ns) ← parseVal ns v
    return { names := ns, src := { src with globals := src.globals ++ [{ name := n, retain := pol, init := .value v }] } }
  | ["g", n, pol, "fb", f] => do
    let (ns, n) := ns.intern n
    let pol ← parsePolicy? pol
    let (ns, f) := ns.intern f
    return { names := ns, src := { src with globals := src.globals ++ [{ name := n, retain := pol, init := .fb f }] } }
  | ["gat", n, a, s, b, bit, ty] => do
    let (ns, n) := ns.intern n
    let addr ← parseAddr? a s b bit
    let ty ← ty.toNat?
    if !src.globals.any (·.name == n) then none else
    return { names := ns, src := { src with globals := src.globals.map fun g =>
      if g.name == n then { g with addr := some (addr, ty) } else g } }
  | ["p", p] =>
    let (ns, p) := ns.intern p
    some { names := ns, src := { src with programs := src.programs ++ [{ name := p, vars := [], body := [] }] } }
  | "pv" :: p :: v :: pol :: rest => do
    let (ns, p) := ns.intern p
    let (ns, v) := ns.intern v
    let pol ← parsePolicy? pol
    let (init, ns) ←
      match rest with
      | ["v", x] => do
        let (x, ns) ← parseVal ns x
        pure (VInit.plain x, ns)
      | ["fb", f] =>
        let (ns, f) := ns.intern f
        pure (VInit.fb f, ns)
      | ["ext"] => pure (VInit.ext, ns)
      | ["x", ty, e] => do
        let ty ← ty.toNat?
        let (e, ns) ← parseIExpr ns e
        pure (VInit.expr ty e, ns)
      | _ => none
    let ps ← updProg src.programs p fun d =>
      { d with vars := d.vars ++ [{ var := { name := v, retain := pol, init := init } }] }
    return { names := ns, src := { src with programs := ps } }
  | ["pat", p, v, a, s, b, bit, ty] => do
    let (ns, p) := ns.intern p
    let (ns, v) := ns.intern v
    let addr ← parseAddr? a s b bit
    let ty ← ty.toNat?
    let ps ← updProg src.programs p fun d =>
      { d with vars := d.vars.map fun x => if x.var.name == v then { x with addr := some (addr, ty) } else x }
    return { names := ns, src := { src with programs := ps } }
  | "ps" :: p :: rest => do
    let (ns, p) := ns.intern p
    let (st, ns) ← parseStmt ns rest
    let ps ← updProg src.programs p fun d => { d with body := d.body ++ [st] }
    return { names := ns, src := { src with programs := ps } }
  | ["task", n, iv, sg, pr] => do
    let (ns, n) := ns.intern n
    let iv ← iv.toInt?
    let pr ← pr.toNat?
    let (single, ns) :=
      if sg = "-" then ((none : Option Nat), ns) else
      let (ns, i) := ns.intern sg
      (some i, ns)
    return { names := ns, src := { src with tasks := src.tasks ++ [{ name := n, interval := iv, single := single, priority := pr }] } }
  | ["pt", p, t] => do
    let (ns, p) := ns.intern p
    let (ns, t) := ns.intern t
    let ps ← updProg src.programs p fun d => { d with task := some t }
    return { names := ns, src := { src with programs := ps } }
  | ["ft", p, v, t] => do
    let (ns, p) := ns.intern p
    let (ns, v) := ns.intern v
    let (ns, t) := ns.intern t
    let ps ← updProg src.programs p fun d => { d with fbTasks := d.fbTasks ++ [(v, t)] }
    return { names := ns, src := { src with programs := ps } }
  | ["acc", n, t] => do
    let (ns, n) := ns.intern n
    let (t, ns) ← parseTarget ns t
    return { names := ns, src := { src with access := src.access ++ [(n, t)] } }
  | ["ci", t, v] => do
    let (t, ns) ← parseTarget ns t
    let (v, ns) ← parseVal ns v
    return { names := ns, src := { src with configInits := src.configInits ++ [(t, v)] } }
  | _ => none

/-! ### dump -/

def trimZeros (b : List Nat) : List Nat := (b.reverse.dropWhile (· == 0)).reverse

def showErr : Err → String
  | .resourceFaulted => "ResourceFaulted"
  | .nullReference => "NullReference"
  | .typeMismatch => "TypeMismatch"
  | .undefinedFb => "UndefinedFunctionBlock"
  | .undefinedProgram => "UndefinedProgram"
  | .undefinedVariable => "UndefinedVariable"
  | .invalidTaskSingle => "InvalidTaskSingle"
  | .simulationFault => "SimulationFault"
  | .overflow => "Overflow"
  | .retainStore => "RetainStore"

def showInstance (ns : Names) (s : Storage) (id : Nat) : String :=
  match s.getInstance id with
  | none => "<?>"
  | some d => "<" ++ joinWith "," (d.vars.map fun (n, v) => s!"{ns.show n}={showVal ns v}") ++ ">"

/-- Value of a variable; FB instances are expanded (depth 1). -/
def showVar (ns : Names) (s : Storage) : Val → String
  | .inst id => showInstance ns s id
  | v => showVal ns v

/-- The `V` part of a dump. -/
def dumpVars (ns : Names) (rt : Runtime) : String :=
  let s := rt.storage
  let globals := rt.globalsMeta.map fun m =>
    s!"{ns.show m.name}=" ++ (match s.getGlobal m.name with | some v => showVar ns s v | none => "?")
  let progs := rt.programs.map fun p =>
    s!"| {ns.show p.name} " ++
      (match s.getGlobal p.name with
       | some (.inst id) =>
         match s.getInstance id with
         | some d => joinWith " " (d.vars.map fun (n, v) => s!"{ns.show n}={showVar ns s v}")
         | none => "?"
       | _ => "?")
  s!"V {joinWith " " globals} {joinWith " " progs}"

def dump (ns : Names) (rt : Runtime) (res : Option Err) (disk : Disk := {}) (showDrv : Bool := false) : String :=
  let s := rt.storage
  let acc := rt.access.map fun a =>
    s!"{ns.show a.name}=" ++ (match rt.storage.readByRef a.ref with | some v => showVar ns s v | none => "?")
  let ov := rt.taskState.map (fun t => toString t.overruns)
  s!"res={match res with | none => "ok" | some e => "e:" ++ showErr e} t={rt.time} cc={rt.cycleCounter} " ++
  s!"f={if rt.fault.isSome then 1 else 0} lf={match rt.fault with | none => "-" | some e => showErr e} " ++
  s!"fr={rt.storage.frames} ov={if ov.isEmpty then "-" else joinWith "," ov} " ++
  s!"I={showHex (trimZeros rt.io.inputs)} Q={showHex (trimZeros rt.io.outputs)} M={showHex (trimZeros rt.io.memory)} " ++
  s!"LI={rt.io.inputs.length} LQ={rt.io.outputs.length} LM={rt.io.memory.length} " ++
  (let showLen (o : Option Nat) : String := match o with | some n => toString n | none => "-"
   match (if showDrv then rt.driver else none) with
   | some d => s!"DI={showLen d.seenIn} DQ={showLen d.seenOut} "
   | none => "DI=- DQ=- ") ++
  s!"dead={rt.deadBindings} acc={if acc.isEmpty then "-" else joinWith "," acc} " ++
  s!"S={match disk.file with
        | some (e :: es) => joinWith "," ((e :: es).map fun (n, v) => s!"{ns.show n}={showVal ns v}")
        | _ => "-"} " ++
  dumpVars ns rt

/-! ### operations -/

structure St where
  desc : Desc := {}
  slots : Array (Option Runtime) := #[none, none]
  disk : Disk := {}

def St.slot (st : St) (k : Nat) : Option Runtime := (st.slots.getD k none)

def St.setSlot (st : St) (k : Nat) (rt : Runtime) : St :=
  if k < st.slots.size then { st with slots := st.slots.set! k (some rt) }
  else { st with slots := (st.slots ++ Array.replicate (k + 1 - st.slots.size) none).set! k (some rt) }

def parseMode? : String → Option Mode
  | "cold" => some .cold | "warm" => some .warm | _ => none

def parseWhen? : String → Option When
  | "pre" => some .pre | "idle" => some .idle | "during" => some .during | _ => none

def parseScript (s : String) : Option (List (When × Mode)) :=
  (s.splitOn ",").mapM fun item =>
    match item.splitOn ":" with
    | [w, m] => do return (← parseWhen? w, ← parseMode? m)
    | _ => none

/-- The resource loop's restart step for every request the thread carries out: `restart(mode)`
then `load_retain_store()`; an error ends the thread (`Faulted`). -/
def runRestarts (disk : Disk) : Runtime → List Mode → Nat → Runtime × Nat × Option Err
  | rt, [], n => (rt, n, none)
  | rt, m :: rest, n =>
    match restart m rt with
    | .ok rt' => runRestarts disk (loadRetainStore rt' disk) rest (n + 1)
    | .error e => (rt, n, some e)

/-- Execute one operation on slot `k`. Returns the new state and the dump (or `bad-op`). -/
def opLine (st : St) (k : Nat) (ws : List String) : St × String :=
  let ns := st.desc.names
  let bad := (st, "bad-op")
  match ws with
  | ["build"] =>
    match build st.desc.src with
    | some rt => (st.setSlot k rt, "m " ++ dump ns rt none st.disk)
    | none => (st, "m res=e:build")
  | ["copyin", j] =>
    match j.toNat?.bind st.slot, st.slot k with
    | some src, some rt =>
      let rt := { rt with io := { rt.io with inputs := src.io.inputs } }
      (st.setSlot k rt, "m " ++ dump ns rt none st.disk)
    | _, _ => bad
  | ["cycle", dt] =>
    match dt.toInt?, st.slot k with
    | some dt, some rt =>
      let (rt, disk, res) := cycle (advanceTime rt dt) st.disk
      ({ st.setSlot k rt with disk := disk }, "m " ++ dump ns rt res disk true)
    | _, _ => bad
  | ["driver", ni, nq, nm] =>
    match ni.toNat?, nq.toNat?, nm.toNat?, st.slot k with
    | some ni, some nq, some nm, some rt =>
      let rt := addDriver (resizeIo rt ni nq nm)
      (st.setSlot k rt, "m " ++ dump ns rt none st.disk)
    | _, _, _, _ => bad
  | ["field", h] =>
    match parseHex? h, st.slot k with
    | some bs, some rt =>
      let rt := setField rt bs
      (st.setSlot k rt, "m " ++ dump ns rt none st.disk)
    | _, _ => bad
  | ["io", a, s, b, bit, raw] =>
    match parseAddr? a s b bit, raw.toNat?, st.slot k with
    | some addr, some raw, some rt =>
      let rt := setDirect rt addr raw
      (st.setSlot k rt, "m " ++ dump ns rt none st.disk)
    | _, _, _ => bad
  | ["restart", m] =>
    match parseMode? m, st.slot k with
    | some m, some rt =>
      match restart m rt with
      | .ok rt => (st.setSlot k rt, "m " ++ dump ns rt none st.disk)
      | .error e => (st, "m " ++ dump ns rt (some e) st.disk)
    | _, _ => bad
  | ["store", a] =>
    match parseBool? a, st.slot k with
    | some a, some rt =>
      let rt := setRetainStore rt a
      (st.setSlot k rt, "m " ++ dump ns rt none st.disk)
    | _, _ => bad
  | ["save"] =>
    match st.slot k with
    | some rt =>
      let (rt, disk, res) := saveRetainStore rt st.disk
      ({ st.setSlot k rt with disk := disk }, "m " ++ dump ns rt res disk)
    | none => bad
  | ["envw", w] =>
    match parseBool? w, st.slot k with
    | some w, some rt =>
      let disk := { st.disk with writable := w }
      ({ st with disk := disk }, "m " ++ dump ns rt none disk)
    | _, _ => bad
  | ["load"] =>
    match st.slot k with
    | some rt =>
      let rt := loadRetainStore rt st.disk
      (st.setSlot k rt, "m " ++ dump ns rt none st.disk)
    | none => bad
  | ["sched", script] =>
    match parseScript script, st.slot k with
    | some script, some rt =>
      -- the tail installs its own (gated) store on the same medium, no autosave
      let rt := setRetainStore rt false
      let (rt, loads, res) := runRestarts st.disk rt (schedExecuted script) 0
      (st.setSlot k rt,
       s!"m res={match res with | none => "ok" | some e => "e:" ++ showErr e} pending=- loads={loads} " ++ dumpVars ns rt)
    | _, _ => bad
  | ["fault"] =>
    match st.slot k with
    | some rt =>
      let rt := simulationFault rt
      (st.setSlot k rt, "m " ++ dump ns rt none st.disk)
    | none => bad
  | ["wacc", n, v] =>
    match st.slot k with
    | some rt =>
      let (ns', n) := ns.intern n
      match parseVal ns' v with
      | some (v, _) =>
        match writeAccess rt n v with
        | .ok rt => (st.setSlot k rt, "m " ++ dump ns rt none st.disk)
        | .error e => (st, "m " ++ dump ns rt (some e) st.disk)
      | none => bad
    | none => bad
  | _ => bad

def step (st : St) (line : String) : St × Option String :=
  if line.startsWith "#" then (st, none) else
  match words line with
  | [] => (st, none)
  | ["case", _] => ({}, none)
  | ["end"] => (st, none)
  | "impl" :: _ => (st, none)
  | "tag" :: _ => (st, none)
  | w :: rest =>
    if w.startsWith "@" then
      match (w.drop 1).toString.toNat? with
      | some k =>
        let (st, out) := opLine st k rest
        (st, some out)
      | none => (st, some "bad-op")
    else
      match descLine st.desc (w :: rest) with
      | some d => ({ st with desc := d }, none)
      | none => (st, some "bad-op")

def main (lines : Array String) (_args : List String) : IO Unit := do
  let mut st : St := {}
  for line in lines do
    let (st', out) := step st line
    st := st'
    match out with
    | some o => IO.println o
    | none => pure ()

end TrustVerif.Drv.C09
