import TrustVerif.Model.C10
import TrustVerif.Drv.Common

/-
Driver for C10.  Protocol (one case = any number of operations):
  rt <snapshot>                                   encode, then decode the encoded bytes
  dec <hex>                                       decode arbitrary bytes
  mgr <k> <snapshot>*k                            k calls of RetainManager::save_snapshot, then load
  crash <k,..|-> <stale-hex|none> <none|some <snapshot>> <snapshot>
                                                  save `new` over `old` (temp file possibly left
                                                  behind by an earlier crash): the operation list,
                                                  the class of `load` at every crash point and for
                                                  a temp file holding the first k bytes
Snapshot text: `<n> (<name-hex> <value>)*`; value = `<kind> <payload>`; scalars are the unsigned
decimal value of their bit pattern; `array <ndims> (<lo> <hi>)* <n> <value>*`;
`struct <type-hex> <n> (<name-hex> <value>)*`; `enum <type-hex> <variant-hex> <num>`.
-/
namespace TrustVerif.Drv.C10
open TrustVerif.C10 TrustVerif.Drv

abbrev Toks := List String

def hexBytes? (s : String) : Option Bytes := (parseHex? s).map (·.map UInt8.ofNat)
def showBytes (b : Bytes) : String := showHex (b.map (·.toNat))

def scalar? (kind : String) (n : Nat) : Option RValue :=
  match kind with
  | "sint" => some (.sint (.ofNat n)) | "int" => some (.int (.ofNat n))
  | "dint" => some (.dint (.ofNat n)) | "lint" => some (.lint (.ofNat n))
  | "usint" => some (.usint (.ofNat n)) | "uint" => some (.uint (.ofNat n))
  | "udint" => some (.udint (.ofNat n)) | "ulint" => some (.ulint (.ofNat n))
  | "real" => some (.real (.ofNat n)) | "lreal" => some (.lreal (.ofNat n))
  | "byte" => some (.byte (.ofNat n)) | "word" => some (.word (.ofNat n))
  | "dword" => some (.dword (.ofNat n)) | "lword" => some (.lword (.ofNat n))
  | "time" => some (.time (.ofNat n)) | "ltime" => some (.ltime (.ofNat n))
  | "date" => some (.date (.ofNat n)) | "ldate" => some (.ldate (.ofNat n))
  | "tod" => some (.tod (.ofNat n)) | "ltod" => some (.ltod (.ofNat n))
  | "dt" => some (.dt (.ofNat n)) | "ldt" => some (.ldt (.ofNat n))
  | "char" => some (.char (.ofNat n)) | "wchar" => some (.wchar (.ofNat n))
  | _ => none

mutual
partial def parseValue : Toks → Option (RValue × Toks)
  | "null" :: r => some (.null, r)
  | "reference" :: r => some (.reference, r)
  | "instance" :: r => some (.instance, r)
  | "bool" :: b :: r => (parseBool? b).map fun b => (.bool b, r)
  | "string" :: h :: r => (hexBytes? h).map fun s => (.string s, r)
  | "wstring" :: h :: r => (hexBytes? h).map fun s => (.wstring s, r)
  | "enum" :: t :: v :: n :: r => do
    let t ← hexBytes? t; let v ← hexBytes? v; let n ← n.toNat?
    some (.enum t v (.ofNat n), r)
  | "array" :: nd :: r => do
    let nd ← nd.toNat?
    let (dims, r) ← parseDims nd r
    match r with
    | n :: r => do
      let n ← n.toNat?
      let (es, r) ← parseValues n r
      some (.array dims es, r)
    | [] => none
  | "struct" :: t :: n :: r => do
    let t ← hexBytes? t; let n ← n.toNat?
    let (fs, r) ← parseFields n r
    some (.struct t fs, r)
  | kind :: n :: r => do
    let n ← n.toNat?
    let v ← scalar? kind n
    some (v, r)
  | _ => none
partial def parseDims : Nat → Toks → Option (List (UInt64 × UInt64) × Toks)
  | 0, r => some ([], r)
  | n + 1, lo :: hi :: r => do
    let lo ← lo.toNat?; let hi ← hi.toNat?
    let (t, r) ← parseDims n r
    some ((.ofNat lo, .ofNat hi) :: t, r)
  | _, _ => none
partial def parseValues : Nat → Toks → Option (RValues × Toks)
  | 0, r => some (.nil, r)
  | n + 1, r => do
    let (v, r) ← parseValue r
    let (t, r) ← parseValues n r
    some (.cons v t, r)
partial def parseFields : Nat → Toks → Option (RFields × Toks)
  | 0, r => some (.nil, r)
  | n + 1, name :: r => do
    let name ← hexBytes? name
    let (v, r) ← parseValue r
    let (t, r) ← parseFields n r
    some (.cons name v t, r)
  | _, _ => none
end

def parseSnapshot : Toks → Option (Snapshot × Toks)
  | n :: r => do let n ← n.toNat?; parseFields n r
  | [] => none

mutual
partial def showValue : RValue → List String
  | .bool b => ["bool", if b then "1" else "0"]
  | .sint v => ["sint", toString v.toNat] | .int v => ["int", toString v.toNat]
  | .dint v => ["dint", toString v.toNat] | .lint v => ["lint", toString v.toNat]
  | .usint v => ["usint", toString v.toNat] | .uint v => ["uint", toString v.toNat]
  | .udint v => ["udint", toString v.toNat] | .ulint v => ["ulint", toString v.toNat]
  | .real v => ["real", toString v.toNat] | .lreal v => ["lreal", toString v.toNat]
  | .byte v => ["byte", toString v.toNat] | .word v => ["word", toString v.toNat]
  | .dword v => ["dword", toString v.toNat] | .lword v => ["lword", toString v.toNat]
  | .time v => ["time", toString v.toNat] | .ltime v => ["ltime", toString v.toNat]
  | .date v => ["date", toString v.toNat] | .ldate v => ["ldate", toString v.toNat]
  | .tod v => ["tod", toString v.toNat] | .ltod v => ["ltod", toString v.toNat]
  | .dt v => ["dt", toString v.toNat] | .ldt v => ["ldt", toString v.toNat]
  | .string s => ["string", showBytes s] | .wstring s => ["wstring", showBytes s]
  | .char v => ["char", toString v.toNat] | .wchar v => ["wchar", toString v.toNat]
  | .array dims es =>
    ["array", toString dims.length] ++ dims.flatMap (fun d => [toString d.1.toNat, toString d.2.toNat])
      ++ [toString es.length] ++ showValues es
  | .struct t fs => ["struct", showBytes t, toString fs.length] ++ showFields fs
  | .enum t v n => ["enum", showBytes t, showBytes v, toString n.toNat]
  | .null => ["null"]
  | .reference => ["reference"]
  | .instance => ["instance"]
partial def showValues : RValues → List String
  | .nil => []
  | .cons v t => showValue v ++ showValues t
partial def showFields : RFields → List String
  | .nil => []
  | .cons n v t => showBytes n :: (showValue v ++ showFields t)
end

def showSnapshot (s : Snapshot) : String :=
  joinWith " " (toString s.length :: showFields s)

def showErr : Err → String
  | .truncated => "truncated" | .magic => "magic" | .version => "version" | .utf8 => "utf8"
  | .tag => "tag" | .depth => "depth" | .unretainable => "unretainable" | .fuel => "model-fuel"

def showLoad : Except Err Snapshot → String
  | .ok s => "ok " ++ showSnapshot s
  | .error e => "err " ++ showErr e

def showOp : FsOp → String
  | .createTrunc p => s!"create:{showPath p}"
  | .write p d => s!"write:{showPath p}:{d.length}"
  | .fsync p => s!"fsync:{showPath p}"
  | .close p => s!"close:{showPath p}"
  | .rename a b => s!"rename:{showPath a}:{showPath b}"
where showPath : Path → String
  | .main => "main" | .tmp => "tmp"

def listOrDash (xs : List String) : String := if xs.isEmpty then "-" else joinWith "," xs

/-- Class of a `load` result relative to the snapshot being saved and the load before the save. -/
def classify (new : Snapshot) (before : Except Err Snapshot) (r : Except Err Snapshot) : String :=
  if r = .ok new then "new"
  else if r = before then "old"
  else match r with
    | .error e => "err:" ++ showErr e
    | .ok _ => "other"

def doRt (toks : Toks) : String :=
  match parseSnapshot toks with
  | some (s, []) =>
    match encodeSnapshot s with
    | .error e => s!"m enc=err:{showErr e} load=-"
    | .ok bytes => s!"m enc={showBytes bytes} load={showLoad (decodeSnapshot bytes)}"
  | _ => "bad-op"

def doDec (h : String) : String :=
  match hexBytes? h with
  | some b => "m " ++ showLoad (decodeSnapshot b)
  | none => "bad-op"

def doCrash (ks stale : String) (toks : Toks) : String :=
  let ks? : Option (List Nat) := if ks = "-" then some [] else (ks.splitOn ",").mapM (·.toNat?)
  let stale? : Option (Option Bytes) := if stale = "none" then some none else (hexBytes? stale).map some
  let old? : Option (Option Snapshot × Toks) :=
    match toks with
    | "none" :: r => some (none, r)
    | "some" :: r => (parseSnapshot r).map fun (s, r) => (some s, r)
    | _ => none
  match ks?, stale?, old? with
  | some ks, some stale, some (old, r) =>
    match parseSnapshot r with
    | some (new, []) =>
      let main? : Option (Option Bytes) :=
        match old with
        | none => some none
        | some o => match encodeSnapshot o with | .ok b => some (some b) | .error _ => none
      match main? with
      | none => "bad-op"
      | some main =>
        let d0 : Disk := { main := main, tmp := stale }
        let before := load d0
        let ops := storeOps new
        let kills := (List.range (ops.length + 1)).map fun i => classify new before (load (runOps d0 ops i))
        let partials :=
          match encodeSnapshot new with
          | .error _ => []
          | .ok bytes => ks.map fun k =>
              classify new before (load (applyOp (applyOp d0 (.createTrunc .tmp)) (.write .tmp (bytes.take k))))
        s!"m ops={listOrDash (ops.map showOp)} kills={listOrDash kills} partial={listOrDash partials} mid=-"
    | _ => "bad-op"
  | _, _, _ => "bad-op"

partial def mgrGo : Nat → Toks → Mgr → List String → Option (Mgr × List String)
  | 0, toks, m, res => if toks.isEmpty then some (m, res.reverse) else none
  | i + 1, toks, m, res =>
    match parseSnapshot toks with
    | some (s, r) =>
      let (m', e) := m.save s
      let t := match e with
        | .ok _ => "ok"
        | .error e => "err:" ++ showErr e
      mgrGo i r m' (t :: res)
    | none => none

/-- `mgr <k> <snapshot>*k`: k calls of `save_snapshot` on a fresh manager and an empty directory,
then `load` by the next process. -/
def doMgr (k : String) (toks : Toks) : String :=
  match k.toNat? with
  | some k =>
    match mgrGo k toks ⟨none, ⟨none, none⟩⟩ [] with
    | some (m, res) => s!"m res={listOrDash res} load={showLoad (load m.disk)}"
    | none => "bad-op"
  | none => "bad-op"

def step (line : String) : Option String :=
  if line.startsWith "#" then none else
  match words line with
  | ["case", _] => none
  | ["end"] => none
  | "impl" :: _ => none
  | "tag" :: _ => none
  | "rt" :: toks => some (doRt toks)
  | ["dec", h] => some (doDec h)
  | "crash" :: ks :: stale :: toks => some (doCrash ks stale toks)
  | "mgr" :: k :: toks => some (doMgr k toks)
  | [] => none
  | _ => some "bad-op"

def main (lines : Array String) (_args : List String) : IO Unit := do
  for line in lines do
    match step line with
    | some o => IO.println o
    | none => pure ()

end TrustVerif.Drv.C10
