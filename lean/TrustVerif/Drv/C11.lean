import TrustVerif.Model.C11
import TrustVerif.Drv.Common

/-
Driver for C11.  Protocol (one case):
  case <n>
  cv <k> A <lo>:<hi>/...|- <tag>[*<run>]/...|-          composite value `k` of the runtime: an array
  cv <k> S <hexname>=<tag>/...|-                         ... or a struct (children are defined first)
  rt <programs> <globals> <instances> <io0> <tasks0>     runtime the container is applied to
       programs : `,`-separated hex names | `-`
       globals  : `,`-separated tags `O` (scalar) / `I<id>` (instance) / `C<k>` (composite k) | `-`
       instances: `;`-separated `<id>:<fbKnown 0|1>:<tags|->` | `-`
       io0      : `<inputs>,<outputs>,<memory>` sizes before the apply
       tasks0   : `,`-separated hex task names registered before the apply | `-`
  bytes <hex>                     the container under test
  decode | validate | metadata | apply <hex resource name|none> | mem | emitted | built | emitfail <hex source>
  impl <...>                      (ignored here)
  end
For every op with an `impl` line the model prints `m <answer>` (formats in `harness/src/c11.rs`).
-/
namespace TrustVerif.Drv.C11
open TrustVerif.C11 TrustVerif.Drv

/-! CRC-32 (IEEE, reflected, as crc32fast::hash) -/
def crcTable : Array UInt32 := Id.run do
  let mut t : Array UInt32 := Array.mkEmpty 256
  for i in [0:256] do
    let mut c : UInt32 := UInt32.ofNat i
    for _ in [0:8] do
      c := if c &&& 1 ≠ 0 then (c >>> 1) ^^^ 0xEDB88320 else c >>> 1
    t := t.push c
  return t

def crc32 (bs : Bytes) : UInt32 :=
  (bs.foldl (fun (c : UInt32) (b : UInt8) =>
      crcTable[((c ^^^ b.toUInt32) &&& (0xFF : UInt32)).toNat]! ^^^ (c >>> 8)) (0xFFFFFFFF : UInt32))
    ^^^ (0xFFFFFFFF : UInt32)

def fnv64 (bs : Bytes) : UInt64 :=
  bs.foldl (fun (h : UInt64) (b : UInt8) => (h ^^^ b.toUInt64) * (0x100000001b3 : UInt64))
    (0xcbf29ce484222325 : UInt64)

def hexByte (b : UInt8) : String := String.ofList [hexDigit (b.toNat / 16), hexDigit (b.toNat % 16)]
def hexOf (bs : Bytes) : String :=
  if bs.isEmpty then "-" else String.join (bs.map hexByte)
def hex64 (x : UInt64) : String :=
  String.ofList ((List.range 16).map fun i => hexDigit ((x.toNat >>> (4 * (15 - i))) % 16))

def parseBytes? (s : String) : Option Bytes := (parseHex? s).map (·.map UInt8.ofNat)

def msgName : Msg → String
  | .headerSizeTooSmall => "header-size-too-small"
  | .sectionTableBeforeHeader => "section-table-before-header"
  | .sectionTableOverflow => "section-table-overflow"
  | .sectionTableOutOfBounds => "section-table-out-of-bounds"
  | .sectionCountOverflow => "section-count-overflow"
  | .invalidRefLocation => "invalid-ref-location"
  | .invalidRefSegment => "invalid-ref-segment"
  | .invalidPouKind => "invalid-pou-kind"
  | .invalidUtf8 => "invalid-utf-8"
  | .typeOffsetOutOfBounds => "type-table-offset-out-of-bounds"
  | .typeOffsetsNotSorted => "type-table-offsets-not-sorted"
  | .typeEntryLengthMismatch => "type-entry-length-mismatch"
  | .invalidTypeKind => "invalid-type-kind"
  | .invalidArrayBounds => "invalid-array-bounds"
  | .constPayloadLength => "const-payload-length"
  | .constTypeTooDeep => "const-type-nested-too-deeply"
  | .unknownPrimitive => "unknown-primitive"
  | .structCountMismatch => "struct/union-constant-count-mismatch"
  | .unsupportedConstType => "unsupported-const-type"
  | .interfaceExpectsInterface => "interface-mapping-expects-interface-type"
  | .interfaceSlotMismatch => "interface-mapping-slot-mismatch"
  | .pouCodeOutOfBounds => "POU-code-out-of-bounds"
  | .callVirtualExpectsInterface => "CALL_VIRTUAL-expects-interface-type"
  | .callVirtualSlotOutOfRange => "CALL_VIRTUAL-slot-out-of-range"
  | .taskUnknownProgram => "task-references-unknown-program"
  | .invalidRetainPolicy => "invalid-retain-policy"
  | .pouCodeRangeOverflow => "POU-code-range-overflow"
  | .debugOffsetOutOfBounds => "debug-map-code-offset-out-of-bounds"
  | .invalidIoArea => "invalid-IO-area"
  | .processImageTooLarge => "process-image-too-large"

def secName : SecName → String
  | .stringTable => "STRING_TABLE" | .typeTable => "TYPE_TABLE" | .constPool => "CONST_POOL"
  | .refTable => "REF_TABLE" | .pouIndex => "POU_INDEX" | .pouBodies => "POU_BODIES"
  | .resourceMeta => "RESOURCE_META" | .ioMap => "IO_MAP" | .debugStringTable => "DEBUG_STRING_TABLE"

def idxKind : IdxKind → String
  | .string => "string" | .type => "type" | .const => "const" | .ref => "ref"

def showErr : Err → String
  | .invalidMagic => "InvalidMagic"
  | .unsupportedVersion a b => s!"UnsupportedVersion:{a.toNat}.{b.toNat}"
  | .invalidHeader m => s!"InvalidHeader:{msgName m}"
  | .invalidChecksum e a => s!"InvalidChecksum:{e.toNat}:{a.toNat}"
  | .invalidSectionTable m => s!"InvalidSectionTable:{msgName m}"
  | .sectionOutOfBounds => "SectionOutOfBounds"
  | .sectionOverlap => "SectionOverlap"
  | .sectionAlignment => "SectionAlignment"
  | .unexpectedEof => "UnexpectedEof"
  | .invalidSection m => s!"InvalidSection:{msgName m}"
  | .missingSection s => s!"MissingSection:{secName s}"
  | .invalidOpcode op => s!"InvalidOpcode:{op.toNat}"
  | .invalidJumpTarget t => s!"InvalidJumpTarget:{t}"
  | .invalidPouId id => s!"InvalidPouId:{id.toNat}"
  | .invalidIndex k i => s!"InvalidIndex:{idxKind k}:{i.toNat}"

def showLoc : MemLoc → String
  | .global => "G" | .local f => s!"L{f.toNat}" | .instance i => s!"N{i.toNat}" | .retain => "R"
  | .ioInput => "II" | .ioOutput => "IQ" | .ioMemory => "IM"

def showSeg : PathSeg → String
  | .index is => "[" ++ joinWith "." (is.map fun i => toString (toI64 i)) ++ "]"
  | .field n => "." ++ hexOf n

def showRef (r : ValueRef) : String :=
  s!"{showLoc r.location}@{r.offset}" ++ String.join (r.path.map showSeg)

def showOpt (o : Option Bytes) : String := match o with
  | some b => hexOf b
  | none => "none"

def showTask (t : TaskConfig) : String :=
  s!"{hexOf t.name},{toI64 t.intervalNanos},{showOpt t.single},{t.priority.toNat},"
    ++ joinWith "+" (t.programs.map hexOf) ++ "," ++ joinWith "+" (t.fbInstances.map showRef)

def showResource (r : ResourceMetadata) : String :=
  s!"{hexOf r.name}:{r.inputs}:{r.outputs}:{r.memory}:[" ++ joinWith ";" (r.tasks.map showTask) ++ "]"

def showMetadata (md : Metadata) : String :=
  s!"v{md.major.toNat}.{md.minor.toNat} " ++ joinWith "|" (md.resources.map showResource)

def showApplyErr : ApplyErr → String
  | .invalidBytecode _ => "InvalidBytecode"
  | .unsupportedVersion => "UnsupportedBytecodeVersion"
  | .invalidMetadata => "InvalidBytecodeMetadata"
  | .undefinedProgram n => s!"UndefinedProgram:{hexOf n}"
  | .typeMismatch => "TypeMismatch"
  | .nullReference => "NullReference"
  | .undefinedFunctionBlock => "UndefinedFunctionBlock"
  | .panic => "PANIC"

structure St where
  rt : RtView := { programs := [], globals := [], instances := [] }
  io0 : Nat × Nat × Nat := (0, 0, 0)
  tasks0 : List Bytes := []
  bytes : Bytes := []
  decoded : Option (Except Err Module) := none
  cvs : Array RVal := #[]

def splitList (sep : String) (s : String) : List String :=
  if s = "-" then [] else s.splitOn sep

def parseTag? (cvs : Array RVal) (s : String) : Option RVal :=
  if s = "O" then some .other
  else if s.startsWith "I" then (s.drop 1).toNat?.map fun n => .inst (UInt32.ofNat n)
  else if s.startsWith "C" then (s.drop 1).toNat?.bind fun k => cvs[k]?
  else none

def parseInt? (s : String) : Option Int :=
  if s.startsWith "-" then (s.drop 1).toNat?.map fun n => -(n : Int) else s.toNat?.map fun n => (n : Int)

/-- `<tag>` or `<tag>*<run>` -/
def parseRun? (cvs : Array RVal) (s : String) : Option (List RVal) :=
  match s.splitOn "*" with
  | [t] => (parseTag? cvs t).map fun v => [v]
  | [t, n] => do
    let v ← parseTag? cvs t
    let n ← n.toNat?
    pure (List.replicate n v)
  | _ => none

def parseDim? (s : String) : Option (Int × Int) :=
  match s.splitOn ":" with
  | [lo, hi] => do
    let lo ← parseInt? lo
    let hi ← parseInt? hi
    pure (lo, hi)
  | _ => none

def parseField? (cvs : Array RVal) (s : String) : Option (Bytes × RVal) :=
  match s.splitOn "=" with
  | [n, t] => do
    let n ← parseBytes? n
    let v ← parseTag? cvs t
    pure (n, v)
  | _ => none

/-- a `cv` line: the definition of the next composite value -/
def parseComposite? (cvs : Array RVal) (ws : List String) : Option RVal :=
  match ws with
  | [k, "A", dims, elems] => do
    let k ← k.toNat?
    if k ≠ cvs.size then none
    let dims ← (splitList "/" dims).mapM parseDim?
    let runs ← (splitList "/" elems).mapM (parseRun? cvs)
    pure (.arr dims runs.flatten)
  | [k, "S", fields] => do
    let k ← k.toNat?
    if k ≠ cvs.size then none
    let fields ← (splitList "/" fields).mapM (parseField? cvs)
    pure (.struct fields)
  | _ => none

def parseInstance? (cvs : Array RVal) (s : String) : Option RInstance :=
  match s.splitOn ":" with
  | [id, known, tags] => do
    let id ← id.toNat?
    let known ← parseBool? known
    let vars ← (splitList "," tags).mapM (parseTag? cvs)
    pure { id := UInt32.ofNat id, fbKnown := known, vars }
  | _ => none

def parseRt? (cvs : Array RVal) (ws : List String) : Option St :=
  match ws with
  | [progs, globals, instances, io0, tasks0] => do
    let programs ← (splitList "," progs).mapM parseBytes?
    let globals ← (splitList "," globals).mapM (parseTag? cvs)
    let instances ← (splitList ";" instances).mapM (parseInstance? cvs)
    let io ← (io0.splitOn ",").mapM (·.toNat?)
    let tasks0 ← (splitList "," tasks0).mapM parseBytes?
    match io with
    | [a, b, c] => pure { rt := { programs, globals, instances }, io0 := (a, b, c), tasks0 }
    | _ => none
  | _ => none

def getDecoded (st : St) : St × Except Err Module :=
  match st.decoded with
  | some d => (st, d)
  | none =>
    let d := decode crc32 st.bytes
    ({ st with decoded := some d }, d)

def boolStr (b : Bool) : String := if b then "1" else "0"

/-- re-encode observables of a decoded module: hash, length, byte identity, decode∘encode identity -/
def roundTrip (bytes : Bytes) (m : Module) : String :=
  match encode crc32 m with
  | .error e => s!"reenc=err:{showErr e}"
  | .ok out =>
    let back := match decode crc32 out with
      | .ok m' => decide (m' = m)
      | .error _ => false
    s!"reenc={hex64 (fnv64 out)}:{out.length} same={boolStr (decide (out = bytes))} rt={boolStr back}"

def step (st : St) (line : String) : St × Option String :=
  match words line with
  | ["case", _] => ({}, none)
  | ["end"] => (st, none)
  | "impl" :: _ => (st, none)
  | "tag" :: _ => (st, none)
  | "#" :: _ => (st, none)
  | "cv" :: ws =>
    match parseComposite? st.cvs ws with
    | some v => ({ st with cvs := st.cvs.push v }, none)
    | none => (st, some "bad-op")
  | "rt" :: ws =>
    match parseRt? st.cvs ws with
    | some st' => ({ st' with bytes := st.bytes, cvs := st.cvs }, none)
    | none => (st, some "bad-op")
  | ["bytes", h] =>
    match parseBytes? h with
    | some b => ({ st with bytes := b, decoded := none }, none)
    | none => (st, some "bad-op")
  | ["decode"] =>
    let (st, d) := getDecoded st
    match d with
    | .error e => (st, some s!"m err {showErr e}")
    | .ok m =>
      let ids := joinWith "," (m.sections.map fun s => toString s.id.toNat)
      (st, some s!"m ok v{m.major.toNat}.{m.minor.toNat} flags={m.flags.toNat} ids={ids} {roundTrip st.bytes m}")
  | ["validate"] =>
    let (st, d) := getDecoded st
    match d with
    | .error _ => (st, some "m skipped")
    | .ok m =>
      match validate m with
      | .ok _ => (st, some "m ok")
      | .error e => (st, some s!"m err {showErr e}")
  | ["metadata"] =>
    let (st, d) := getDecoded st
    match d with
    | .error _ => (st, some "m skipped")
    | .ok m =>
      match metadata m with
      | .ok md => (st, some s!"m ok {showMetadata md}")
      | .error e => (st, some s!"m err {showErr e}")
  | ["apply", res] =>
    let resName : Option (Option Bytes) := if res = "none" then some none else (parseBytes? res).map some
    match resName with
    | none => (st, some "bad-op")
    | some resName =>
      let (err, eff) := applyBytes crc32 st.rt st.bytes resName
      let io := match eff.resize with
        | some r => r
        | none => st.io0
      -- `tasks.clear()` happens together with the resize
      let tasks := match eff.resize with
        | some _ => eff.tasks.map (fun (t : TaskConfig) => t.name)
        | none => st.tasks0
      let head := match err with
        | none => "ok"
        | some e => s!"err {showApplyErr e}"
      -- an overflow inside `read_by_ref` is a panic of the real call (dev profile): no answer at all
      if err = some .panic then (st, some "m panic") else
      (st, some s!"m {head} io={io.1},{io.2.1},{io.2.2} tasks={if tasks.isEmpty then "-" else joinWith "," (tasks.map hexOf)}")
  | ["mem"] => (st, some "m ok")
  -- the encoder returned an error for a program the compiler front end accepted: the model of the
  -- property has no such outcome ("every container the compiler emits validates")
  | ["emitfail", _] => (st, some "m never")
  -- the container was encoded from a module that is well-formed by construction (hand-built); the
  -- model checks that claim on what it decodes and answers with theorem c11_decode_encode
  | ["built"] =>
    let (st, d) := getDecoded st
    match d with
    | .error e => (st, some s!"m decode-err {showErr e}")
    | .ok m => (st, some (if m.wf then "m rt=1 same=1" else "m not-wf"))
  | ["emitted"] =>
    let (st, d) := getDecoded st
    match d with
    | .error e => (st, some s!"m decode-err {showErr e}")
    | .ok m =>
      let v := match validate m with
        | .ok _ => "1"
        | .error _ => "0"
      (st, some s!"m validates={v} {roundTrip st.bytes m} dbg={boolStr (debugMapOk m)}")
  | [] => (st, none)
  | _ => (st, some "bad-op")

def main (lines : Array String) (_args : List String) : IO Unit := do
  let mut st : St := {}
  for line in lines do
    let (st', out) := step st line
    st := st'
    match out with
    | some o => IO.println o
    | none => pure ()

end TrustVerif.Drv.C11
