import TrustVerif.Model.C12
import TrustVerif.Drv.Common

/-
Driver for C12.  Protocol (one case):
  case <n>
  lang <int> <dot> <dotdot> <eof> <n> (<TokenKind code> <SyntaxKind code> <is_trivia>)*   kinds of this case
  src <hex>                       the text
  raw (<kind> <lo> <hi>)* | raw - the raw logos stream
  lex                             -> m n=<tokens> h=<fnv64 of the post-pass result> tiles=<b> rawtiles=<b>
  toks (<kind> <lo> <hi>)* | toks - | toks =   the real token list (`=`: identical to the raw stream)
  ev <event>*                     the real parser events: S<k> | S<k>+<fp> | T<k> | T<k>*<n> | F | P
  sink                            -> m ok nodes=<n> toks=<n> h=<fnv64 of the tree dump> text=<b> prem=<6 bits>
                                     | m panic | m diverge
  errs (<lo> <hi>)* | errs -      -> m n=<n> inb=<b> attok=<b>
  pops <op>* | pops -             parser operations reconstructed from the real events and errors:
                                  s | c<pos>:<kind> | p<pos> | b | e | n<kind> | f
  parse <root kind>               -> m ok n=<events> ev=<fnv64 of the model parser's events> errs=<fnv64 of
                                     its error ranges> disc=<b> atend=<b> | m panic | m diverge
  impl … / tag … / # …            ignored
  end
-/
namespace TrustVerif.Drv.C12
open TrustVerif.C12 TrustVerif.Drv

structure St where
  lang : Option Lang := none
  src : List Nat := []
  raw : List Tok := []
  toks : List Tok := []
  events : List Event := []
  errs : List (Nat × Nat) := []
  pops : List POp := []

def lookup (tbl : List (Nat × Nat)) (k : Nat) : Option Nat :=
  match tbl with
  | [] => none
  | (a, b) :: r => if a = k then some b else lookup r k

/-- `(TokenKind code, SyntaxKind code, is_trivia)` triples of the `lang` line. -/
def kindTable : List Nat → Option (List (Nat × Nat × Bool))
  | [] => some []
  | a :: b :: 0 :: r => (kindTable r).map ((a, b, false) :: ·)
  | a :: b :: 1 :: r => (kindTable r).map ((a, b, true) :: ·)
  | _ => none

def lookup3 (tbl : List (Nat × Nat × Bool)) (k : Nat) : Option (Nat × Bool) :=
  match tbl with
  | [] => none
  | (a, b, v) :: r => if a = k then some (b, v) else lookup3 r k

def pairs : List Nat → Option (List (Nat × Nat))
  | [] => some []
  | a :: b :: r => (pairs r).map ((a, b) :: ·)
  | _ => none

def triples : List Nat → Option (List Tok)
  | [] => some []
  | k :: a :: b :: r => (triples r).map (⟨k, a, b⟩ :: ·)
  | _ => none

def parseToks (ws : List String) : Option (List Tok) :=
  if ws = ["-"] then some [] else (parseNats? ws).bind triples

def parseEvent (w : String) : Option Event :=
  match w.toList with
  | ['F'] => some .finish
  | ['P'] => some .placeholder
  | 'S' :: r =>
    match (String.ofList r).splitOn "+" with
    | [k] => k.toNat?.map fun k => .start k none
    | [k, d] => do some (.start (← k.toNat?) (some (← d.toNat?)))
    | _ => none
  | 'T' :: r =>
    match (String.ofList r).splitOn "*" with
    | [k] => k.toNat?.map fun k => .token k 1
    | [k, n] => do some (.token (← k.toNat?) (← n.toNat?))
    | _ => none
  | _ => none

def parsePOp (w : String) : Option POp :=
  match w.toList with
  | ['s'] => some .start
  | ['b'] => some .bump
  | ['e'] => some .error
  | 'p' :: r => (String.ofList r).toNat?.map .precede
  | 'c' :: r =>
    match (String.ofList r).splitOn ":" with
    | [p, k] => do some (.complete (← p.toNat?) (← k.toNat?))
    | _ => none
  | 'n' :: r => (String.ofList r).toNat?.map .startNode
  | ['f'] => some .finishNode
  | _ => none

/-! FNV-1a, 64 bit (same function as `Fnv` in harness/src/c12.rs). -/
def fnvInit : UInt64 := 0xcbf29ce484222325
def fnvByte (h : UInt64) (b : Nat) : UInt64 := (h ^^^ b.toUInt64) * 0x00000100000001b3
def fnvU16 (h : UInt64) (v : Nat) : UInt64 := fnvByte (fnvByte h (v / 256 % 256)) (v % 256)
def fnvU32 (h : UInt64) (v : Nat) : UInt64 :=
  fnvByte (fnvByte (fnvByte (fnvByte h (v / 16777216 % 256)) (v / 65536 % 256)) (v / 256 % 256)) (v % 256)

def hex16 (h : UInt64) : String :=
  let n := h.toNat
  String.ofList ((List.range 16).map fun i => hexDigit (n / 16 ^ (15 - i) % 16))

def hashToks (ts : List Tok) : UInt64 :=
  ts.foldl (fun h t => fnvU32 (fnvU32 (fnvU16 h t.kind) t.lo) t.hi) fnvInit

def hashEvents (es : List Event) : UInt64 :=
  es.foldl (fun h e =>
    match e with
    | .start k none => fnvU16 (fnvByte h 1) k
    | .start k (some d) => fnvU32 (fnvU16 (fnvByte h 2) k) d
    | .token k n => fnvU32 (fnvU16 (fnvByte h 3) k) n
    | .finish => fnvByte h 4
    | .placeholder => fnvByte h 5) fnvInit

def hashRanges (rs : List (Nat × Nat)) : UInt64 :=
  rs.foldl (fun h r => fnvU32 (fnvU32 h r.1) r.2) fnvInit

structure Dump where
  h : UInt64 := fnvInit
  nodes : Nat := 0
  toks : Nat := 0

/-- Pre-order dump: node open = 1 kind(2); token = 2 kind(2) len(4) bytes; node close = 3. -/
partial def dumpTree (d : Dump) : Tree → Dump
  | .token k s =>
    { d with h := s.foldl fnvByte (fnvU32 (fnvU16 (fnvByte d.h 2) k) s.length), toks := d.toks + 1 }
  | .node k cs =>
    let d1 := { d with h := fnvU16 (fnvByte d.h 1) k, nodes := d.nodes + 1 }
    let d2 := cs.foldl dumpTree d1
    { d2 with h := fnvByte d2.h 3 }

def bit (b : Bool) : String := if b then "1" else "0"

def step (st : St) (line : String) : St × Option String :=
  match words line with
  | ["case", _] => ({}, none)
  | ["end"] => (st, none)
  | "impl" :: _ => (st, none)
  | "tag" :: _ => (st, none)
  | "#" :: _ => (st, none)
  | "lang" :: ws =>
    match parseNats? ws with
    | some (i :: d :: dd :: e :: n :: rest) =>
      match kindTable rest with
      | some tbl =>
        if tbl.length ≠ n then (st, some "bad-op") else
        let L : Lang := { int := i, dot := d, dotDot := dd, eof := e,
                          isTrivia := fun k => match lookup3 tbl k with | some (_, v) => v | none => false,
                          -- a kind that the harness did not list maps to an impossible code
                          toSyntax := fun k => match lookup3 tbl k with | some (s, _) => s | none => 65535 }
        ({ st with lang := some L }, none)
      | none => (st, some "bad-op")
    | _ => (st, some "bad-op")
  | ["src", h] =>
    match parseHex? h with
    | some bs => ({ st with src := bs }, none)
    | none => (st, some "bad-op")
  | "raw" :: ws =>
    match parseToks ws with
    | some ts => ({ st with raw := ts }, none)
    | none => (st, some "bad-op")
  | ["toks", "="] => ({ st with toks := st.raw }, none)
  | "toks" :: ws =>
    match parseToks ws with
    | some ts => ({ st with toks := ts }, none)
    | none => (st, some "bad-op")
  | "ev" :: ws =>
    match ws.mapM parseEvent with
    | some es => ({ st with events := es }, none)
    | none => (st, some "bad-op")
  | "errs" :: ws =>
    match (if ws = ["-"] then some [] else (parseNats? ws).bind pairs) with
    | some es =>
      let inb := es.all fun (a, b) => a ≤ b && b ≤ st.src.length
      let attok := es.all fun (a, b) =>
        (a == 0 && b == 0) ||
          st.toks.any fun t => t.lo == a && t.hi == b &&
            (match st.lang with | some L => !L.isTrivia t.kind | none => false)
      (st, some s!"m n={es.length} inb={bit inb} attok={bit attok}")
    | none => (st, some "bad-op")
  | "pops" :: ws =>
    match (if ws = ["-"] then some [] else ws.mapM parsePOp) with
    | some ops => ({ st with pops := ops }, none)
    | none => (st, some "bad-op")
  | ["parse", root] =>
    match st.lang, root.toNat? with
    | some L, some root =>
      match run L (PState.init st.toks) (parseOps root st.pops) with
      | .ok s =>
        (st, some s!"m ok n={s.events.length} ev={hex16 (hashEvents s.events)} errs={hex16 (hashRanges s.errors)} disc={bit (decide (Disciplined st.pops))} atend={bit (atEnd L s)}")
      | .panic => (st, some "m panic")
      | .diverge => (st, some "m diverge")
    | _, _ => (st, some "bad-op")
  | ["lex"] =>
    match st.lang with
    | none => (st, some "bad-op")
    | some L =>
      let out := lexAll L st.src st.raw
      (st, some s!"m n={out.length} h={hex16 (hashToks out)} tiles={bit (tiles out 0 st.src.length)} rawtiles={bit (tiles st.raw 0 st.src.length)}")
  | ["sink"] =>
    match st.lang with
    | none => (st, some "bad-op")
    | some L =>
      let prem := bit (eventsBalanced st.events) ++ bit (fpOk st.events) ++
        bit (consumesAll L st.toks st.events) ++ bit (noEof L st.toks) ++
        bit (onBoundaries st.src st.toks && tiles st.toks 0 st.src.length) ++
        bit (kindsAgree L st.toks st.events)
      match sink L st.src st.toks st.events with
      | .ok t =>
        let d := dumpTree {} t
        (st, some s!"m ok nodes={d.nodes} toks={d.toks} h={hex16 d.h} text={bit (t.text == st.src)} prem={prem}")
      | .panic => (st, some "m panic")
      | .diverge => (st, some "m diverge")
  | [] => (st, none)
  | w :: _ => if w.startsWith "#" then (st, none) else (st, some "bad-op")

def main (lines : Array String) (_args : List String) : IO Unit := do
  let mut st : St := {}
  for line in lines do
    let (st', out) := step st line
    st := st'
    match out with
    | some o => IO.println o
    | none => pure ()

end TrustVerif.Drv.C12
