import TrustVerif.Model.C13
import TrustVerif.Drv.Common

/-
Driver for C13.  Protocol (one case; texts are referred to by their index in the case's table,
equal index ⇔ equal text, so the model runs with `Text := Nat`):
  case <n>
  stream db|proj
  text <k> <hex>                 (ignored here: only identity of texts matters to the model)
  set <fid> <k> | rm <fid> | q <kind> <fid> <arg>           Database layer
  pset <key> <k> | prm <key> | pren <old> <new> | pq <kind> <key> <arg>   Project layer
  impl … / #… / tag …            (ignored)
  end
For every operation the model prints `m [ids=…] src=… salsa=… proj=… dirty=…[ reads=…]`, the three
file-set views after the operation in the format of the harness (`render_view`), and for queries what
the query read (`P` project-keyed, `F:<k>` the file's text, `D` default).
-/
namespace TrustVerif.Drv.C13
open TrustVerif.C13 TrustVerif.Drv

structure St where
  db : Db Nat := Db.new
  pr : Proj Nat := Proj.new

def showList (v : List (Nat × Nat)) : String :=
  if v.isEmpty then "-" else joinWith "," (v.map fun p => s!"{p.1}:{p.2}")

def showView (s : Db Nat) : String :=
  let salsa := match viewSalsa s with
    | some v => showList v
    | none => "!dangling"
  let proj := match viewProject s with
    | some none => "none"
    | some (some v) => showList v
    | none => "!dangling"
  let dirty := if s.synced ≠ s.rev then "1" else "0"
  s!"src={showList (viewSources s)} salsa={salsa} proj={proj} dirty={dirty}"

def showReads : Outcome (Reads Nat) → String
  | .panic => "panic"
  | .ok (.proj _ _ _) => "P"
  | .ok (.file _ t) => s!"F:{t}"
  | .ok (.dflt _) => "D"

def parseKind? (k : String) (arg : Nat) : Option QKind :=
  if k = "analyze" then some .analyze
  else if k = "diagnostics" then some .diagnostics
  else if k = "typeof" then some (.typeOf arg)
  else if k = "fsyms" then some .fileSymbols
  else if k = "exprat" then some (.exprIdAt arg)
  else none

def showIds (p : Proj Nat) : String := showList (sortById p.ids)

def step (st : St) (line : String) : St × Option String :=
  if line.startsWith "#" then (st, none) else
  match words line with
  | ["case", _] => ({}, none)
  | ["end"] => (st, none)
  | "impl" :: _ => (st, none)
  | "tag" :: _ => (st, none)
  | ["stream", _] => (st, none)
  | ["text", _, _] => (st, none)
  | ["set", f, t] =>
    match f.toNat?, t.toNat? with
    | some f, some t =>
      let db := setSourceText st.db f t
      ({ st with db := db }, some ("m " ++ showView db))
    | _, _ => (st, some "bad-op")
  | ["rm", f] =>
    match f.toNat? with
    | some f =>
      let db := removeSourceText st.db f
      ({ st with db := db }, some ("m " ++ showView db))
    | none => (st, some "bad-op")
  | ["q", k, f, a] =>
    match f.toNat?, a.toNat? with
    | some f, some a =>
      match parseKind? k a with
      | some k =>
        let r := query st.db k f
        match r.2 with
        | .panic => ({ st with db := r.1 }, some "m panic")
        | o => ({ st with db := r.1 }, some s!"m {showView r.1} reads={showReads o}")
      | none => (st, some "bad-op")
    | _, _ => (st, some "bad-op")
  | ["pset", key, t] =>
    match key.toNat?, t.toNat? with
    | some key, some t =>
      let pr := projSet st.pr key t
      ({ st with pr := pr }, some s!"m ids={showIds pr} {showView pr.db}")
    | _, _ => (st, some "bad-op")
  | ["prm", key] =>
    match key.toNat? with
    | some key =>
      let pr := projRemove st.pr key
      ({ st with pr := pr }, some s!"m ids={showIds pr} {showView pr.db}")
    | none => (st, some "bad-op")
  | ["pren", o, n] =>
    match o.toNat?, n.toNat? with
    | some o, some n =>
      let pr := projRename st.pr o n
      ({ st with pr := pr }, some s!"m ids={showIds pr} {showView pr.db}")
    | _, _ => (st, some "bad-op")
  | ["pq", k, key, a] =>
    match key.toNat?, a.toNat? with
    | some key, some a =>
      match parseKind? k a with
      | some k =>
        let r := projQuery st.pr k key
        match r.2 with
        | none => ({ st with pr := r.1 }, some s!"m nokey ids={showIds r.1} {showView r.1.db}")
        | some .panic => ({ st with pr := r.1 }, some "m panic")
        | some o => ({ st with pr := r.1 }, some s!"m ids={showIds r.1} {showView r.1.db} reads={showReads o}")
      | none => (st, some "bad-op")
    | _, _ => (st, some "bad-op")
  | [] => (st, none)
  | _ => (st, some "bad-op")

def main (lines : Array String) (_args : List String) : IO Unit := do
  let mut st : St := {}
  for line in lines do
    let (st', out) := step st line
    st := st'
    match out with
    | some o => IO.println o
    | none => pure ()

end TrustVerif.Drv.C13
