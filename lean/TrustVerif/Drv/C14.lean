import TrustVerif.Model.C14
import TrustVerif.Drv.Common

/-
Driver for C14.  Protocol (one case = one document of one LSP session):
  case <n>
  open <version> <hex utf8 text>
  chg <version> <k> (R <sl> <sc> <el> <ec> <hex> | F <hex>){k}     one didChange notification
  chgq ...               the same, but the state after it is not observed (no answer line)
  close
  save                   textDocument/didSave
  wchg <hex utf8 text|!> workspace/didChangeWatchedFiles CREATED/CHANGED for the document's file (or an
                         indexing pass over it); the argument is the file's content, `!` = unreadable
  wdel                   workspace/didChangeWatchedFiles DELETED for the document's file
  ren <id> <hex|!>       workspace/didRenameFiles: the document's file is renamed to URI number <id>
                         (0 = the URI the case starts with); the argument is the content of the file
                         at the new path; the document is followed to its new URI
  at <id> <op>           wchg / wdel / peek (no event) for another URI; answers that URI's state
  tokf <cur>             a semanticTokens/full request the server answered with the token array <cur> (it
                         caches the result under the next result id); no answer line
  tokd <k> <cur>         a semanticTokens/full/delta request naming the result id of token request number
                         <k> of this case (0-based, full and delta requests counted) while the document's
                         tokens are <cur>: `m full`, `m none` (no edits) or `m <start> <deleteCount> <data|->`
                         (model of the cache: Impl.tokFull / Impl.tokDelta; the entry goes when the server
                         forgets the document and when its file is renamed)
  delta <prev> <cur>     semantic_tokens_delta_edits on two token arrays (comma separated u32s, `-` =
                         empty): `m none` or `m <start> <deleteCount> <data|->` (wire units)
  tok <a> <b>            a semantic token with byte range [a, b) of the current text
  eof                    position of the end of the text (offset_to_position(content, len))
  impl <...>             (ignored here)
  end
Answers:
  open/chg/close/save/wchg/wdel : `m v=<version> text=<hex> ed=<same|differ|na>` or `m null ed=..`  (model of the server's copy;
                    `ed` compares it with the editor-side specification run on UTF-16 units:
                    `na` = the specification rejects the event as one no editor produces)
  tok            : `m <line> <col> <len>`     eof : `m <line> <col>`
-/
namespace TrustVerif.Drv.C14
open TrustVerif.C14 TrustVerif.Drv

/-- The stores are kept as tables (URI numbers < 8) and turned into the model's function stores
for one step at a time: a chain of function updates would re-run every earlier event on each
look-up. -/
structure St where
  server : List (Option Impl.Doc) := List.replicate 8 none
  /-- editor-side documents; `none` once the editor-side specification has rejected an event of
  this case (everything after that is `na`). -/
  editor : Option (List (Option Spec.Doc)) := some (List.replicate 8 none)
  /-- URI number of the document the case follows -/
  cur : Nat := 0
  /-- the semantic-token cache of the followed document's URI; result ids are the numbers of the
  token requests of the case (the harness asks for tokens of no other URI, and whatever entry a
  URI has is removed before the document is followed to it) -/
  tok : Impl.TokSrv (List Nat) := { nextId := 0, cache := none }

def implStore (tbl : List (Option Impl.Doc)) : Impl.Store := fun v => (tbl.getD v none)
def specStore (tbl : List (Option Spec.Doc)) : Spec.Store := fun v => (tbl.getD v none)

/-- URIs an event can change. -/
def touched : Impl.WEvent → List Nat
  | .doc u _ => [u]
  | .renamed o n _ => [o, n]

def textOfHex? (h : String) : Option (List Char) := do
  let bs ← parseHex? h
  let ba : ByteArray := ⟨(bs.map (fun b => UInt8.ofNat b)).toArray⟩
  let s ← String.fromUTF8? ba
  pure s.toList

def hexOfText (t : List Char) : String :=
  showHex ((String.ofList t).toUTF8.toList.map (·.toNat))

def parseChanges : Nat → List String → Option (List Impl.Change)
  | 0, [] => some []
  | 0, _ => none
  | k + 1, "R" :: sl :: sc :: el :: ec :: h :: rest => do
    let sl ← sl.toNat?
    let sc ← sc.toNat?
    let el ← el.toNat?
    let ec ← ec.toNat?
    let t ← textOfHex? h
    let more ← parseChanges k rest
    pure (.range sl sc el ec t :: more)
  | k + 1, "F" :: h :: rest => do
    let t ← textOfHex? h
    let more ← parseChanges k rest
    pure (.full t :: more)
  | _, _ => none

/-- State of URI `u`: the model of the server's entry and how it compares with the editor's. -/
def showDoc (st : St) (u : Nat) : String :=
  let srv := st.server.getD u none
  let ed :=
    match st.editor with
    | none => "na"
    | some es =>
      match es.getD u none, srv with
      | none, none => "same"
      | none, some d => if d.isOpen then "differ" else "same"
      | some _, none => "differ"
      | some e, some d =>
        if d.isOpen && encode16 d.text == e.units && d.version == e.version then "same" else "differ"
  match srv with
  | none => s!"m null ed={ed}"
  | some d => s!"m v={d.version} text={hexOfText d.text} ed={ed}"

def wevent (st : St) (e : Impl.WEvent) : St :=
  let us := touched e
  let srv' := Impl.wstep (implStore st.server) e
  let server := us.foldl (fun tbl u => tbl.set u (srv' u)) st.server
  let editor := match st.editor with
    | none => none
    | some es =>
      match Spec.wstep (specStore es) (encodeWEvent e) with
      | none => none
      | some ed' => some (us.foldl (fun tbl u => tbl.set u (ed' u)) es)
  { st with server := server, editor := editor }

/-- `remove_document` drops the URI's token cache together with the document. -/
def forgetIfGone (st : St) : St :=
  match st.server.getD st.cur none with
  | none => { st with tok := Impl.tokForget st.tok }
  | some _ => st

def event (st : St) (e : Impl.Event) : St × Option String :=
  let st' := forgetIfGone (wevent st (.doc st.cur e))
  (st', some (showDoc st' st.cur))

def parseU32s? (s : String) : Option (List Nat) :=
  if s = "-" then some [] else (s.splitOn ",").mapM (·.toNat?)

def chunk5 : List Nat → Option (List (List Nat))
  | [] => some []
  | a :: b :: c :: d :: e :: rest => (chunk5 rest).map ([a, b, c, d, e] :: ·)
  | _ => none

def showEdit (e : Impl.TokEdit (List Nat)) : String :=
  let flat := e.data.flatten
  s!"{e.start * 5} {e.deleteCount * 5} {if flat.isEmpty then "-" else showNats flat}"

def diskArg? (h : String) : Option (Option (List Char)) :=
  if h = "!" then some none else (textOfHex? h).map some

def step (st : St) (line : String) : St × Option String :=
  match words line with
  | ["case", _] => ({}, none)
  | ["end"] => (st, none)
  | "impl" :: _ => (st, none)
  | "tag" :: _ => (st, none)
  | "#" :: _ => (st, none)
  | ["open", v, h] =>
    match v.toInt?, textOfHex? h with
    | some v, some t => event st (.didOpen v t)
    | _, _ => (st, some "bad-op")
  | "chg" :: v :: k :: rest =>
    match v.toInt?, k.toNat? with
    | some v, some k =>
      match parseChanges k rest with
      | some cs => event st (.didChange v cs)
      | none => (st, some "bad-op")
    | _, _ => (st, some "bad-op")
  | "chgq" :: v :: k :: rest =>
    -- a notification whose effect is not observed separately (burst of notifications)
    match v.toInt?, k.toNat? with
    | some v, some k =>
      match parseChanges k rest with
      | some cs => ((event st (.didChange v cs)).1, none)
      | none => (st, some "bad-op")
    | _, _ => (st, some "bad-op")
  | ["close"] => event st .didClose
  | ["save"] => event st .didSave
  | ["wdel"] => event st .watchedDeleted
  | ["wchg", h] =>
    match diskArg? h with
    | some d => event st (.watchedChanged d)
    | none => (st, some "bad-op")
  | ["ren", id, h] =>
    match (id.toNat?).filter (· < 8), diskArg? h with
    | some id, some d =>
      let st' := { wevent st (.renamed st.cur id d) with cur := id, tok := Impl.tokForget st.tok }
      (st', some (showDoc st' id))
    | _, _ => (st, some "bad-op")
  | ["at", id, "peek"] =>
    match (id.toNat?).filter (· < 8) with
    | some id => (st, some (showDoc st id))
    | none => (st, some "bad-op")
  | ["at", id, "wdel"] =>
    match (id.toNat?).filter (· < 8) with
    | some id => let st' := wevent st (.doc id .watchedDeleted); (st', some (showDoc st' id))
    | none => (st, some "bad-op")
  | ["at", id, "wchg", h] =>
    match (id.toNat?).filter (· < 8), diskArg? h with
    | some id, some d =>
      let st' := wevent st (.doc id (.watchedChanged d)); (st', some (showDoc st' id))
    | _, _ => (st, some "bad-op")
  | ["tokf", a] =>
    match (parseU32s? a).bind chunk5 with
    | some cur => ({ st with tok := (Impl.tokFull st.tok cur).1 }, none)
    | none => (st, some "bad-op")
  | ["tokd", k, a] =>
    match k.toNat?, (parseU32s? a).bind chunk5 with
    | some k, some cur =>
      let r := Impl.tokDelta st.tok k cur
      let out := match r.2 with
        | .full _ _ => "m full"
        | .delta _ [] => "m none"
        | .delta _ es => "m " ++ joinWith " ; " (es.map showEdit)
      ({ st with tok := r.1 }, some out)
    | _, _ => (st, some "bad-op")
  | ["delta", a, b] =>
    match (parseU32s? a).bind chunk5, (parseU32s? b).bind chunk5 with
    | some prev, some cur =>
      match Impl.deltaEdits prev cur with
      | [] => (st, some "m none")
      | es => (st, some ("m " ++ joinWith " ; " (es.map showEdit)))
    | _, _ => (st, some "bad-op")
  | ["tok", a, b] =>
    match a.toNat?, b.toNat?, st.server.getD st.cur none with
    | some a, some b, some d =>
      let (l, c, n) := Impl.tokenPos d.text a b
      (st, some s!"m {l} {c} {n}")
    | some _, some _, none => (st, some "m no-document")
    | _, _, _ => (st, some "bad-op")
  | ["eof"] =>
    match st.server.getD st.cur none with
    | some d =>
      let (l, c) := Impl.offsetToLineCol d.text (len8 d.text)
      (st, some s!"m {l} {c}")
    | none => (st, some "m no-document")
  | [] => (st, none)
  | _ => (st, some "bad-op")

def main (lines : Array String) (_args : List String) : IO Unit := do
  let mut st : St := {}
  for line in lines do
    let (st', out) := step st line
    st := st'
    match out with
    | some o => IO.println o
    | none => pure ()

end TrustVerif.Drv.C14
