import TrustVerif.Model.C14
import TrustVerif.Drv.Common

/-
Driver for C14.  Protocol (one case = one document of one LSP session):
  case <n>
  open <version> <hex utf8 text>
  chg <version> <k> (R <sl> <sc> <el> <ec> <hex> | F <hex>){k}     one didChange notification
  chgq ...               the same, but the state after it is not observed (no answer line)
  close
  save                   textDocument/didSave
  wchg <hex utf8 text|!> workspace/didChangeWatchedFiles CREATED/CHANGED for the document's file (or an
                         indexing pass over it); the argument is the file's content, `!` = unreadable
  wdel                   workspace/didChangeWatchedFiles DELETED for the document's file
  tok <a> <b>            a semantic token with byte range [a, b) of the current text
  eof                    position of the end of the text (offset_to_position(content, len))
  impl <...>             (ignored here)
  end
Answers:
  open/chg/close/save/wchg/wdel : `m v=<version> text=<hex> ed=<same|differ|na>` or `m null ed=..`  (model of the server's copy;
                    `ed` compares it with the editor-side specification run on UTF-16 units:
                    `na` = the specification rejects the event as one no editor produces)
  tok            : `m <line> <col> <len>`     eof : `m <line> <col>`
-/
namespace TrustVerif.Drv.C14
open TrustVerif.C14 TrustVerif.Drv

structure St where
  server : Option Impl.Doc := none
  /-- editor-side document (units); `none` once the editor-side specification has rejected an
  event of this case (everything after that is `na`). -/
  editor : Option (Option Spec.Doc) := some none

def textOfHex? (h : String) : Option (List Char) := do
  let bs ← parseHex? h
  let ba : ByteArray := ⟨(bs.map (fun b => UInt8.ofNat b)).toArray⟩
  let s ← String.fromUTF8? ba
  pure s.toList

def hexOfText (t : List Char) : String :=
  showHex ((String.ofList t).toUTF8.toList.map (·.toNat))

def parseChanges : Nat → List String → Option (List Impl.Change)
  | 0, [] => some []
  | 0, _ => none
  | k + 1, "R" :: sl :: sc :: el :: ec :: h :: rest => do
    let sl ← sl.toNat?
    let sc ← sc.toNat?
    let el ← el.toNat?
    let ec ← ec.toNat?
    let t ← textOfHex? h
    let more ← parseChanges k rest
    pure (.range sl sc el ec t :: more)
  | k + 1, "F" :: h :: rest => do
    let t ← textOfHex? h
    let more ← parseChanges k rest
    pure (.full t :: more)
  | _, _ => none

def showDoc (st : St) : String :=
  let ed :=
    match st.editor, st.server with
    | none, _ => "na"
    | some none, none => "same"
    | some none, some d => if d.isOpen then "differ" else "same"
    | some (some _), none => "differ"
    | some (some e), some d =>
      if d.isOpen && encode16 d.text == e.units && d.version == e.version then "same" else "differ"
  match st.server with
  | none => s!"m null ed={ed}"
  | some d => s!"m v={d.version} text={hexOfText d.text} ed={ed}"

def event (st : St) (e : Impl.Event) : St × Option String :=
  let server := Impl.step st.server e
  let editor := match st.editor with
    | none => none
    | some d => Spec.step d (encodeEvent e)
  let st' := { st with server := server, editor := editor }
  (st', some (showDoc st'))

def step (st : St) (line : String) : St × Option String :=
  match words line with
  | ["case", _] => ({}, none)
  | ["end"] => (st, none)
  | "impl" :: _ => (st, none)
  | "tag" :: _ => (st, none)
  | "#" :: _ => (st, none)
  | ["open", v, h] =>
    match v.toInt?, textOfHex? h with
    | some v, some t => event st (.didOpen v t)
    | _, _ => (st, some "bad-op")
  | "chg" :: v :: k :: rest =>
    match v.toInt?, k.toNat? with
    | some v, some k =>
      match parseChanges k rest with
      | some cs => event st (.didChange v cs)
      | none => (st, some "bad-op")
    | _, _ => (st, some "bad-op")
  | "chgq" :: v :: k :: rest =>
    -- a notification whose effect is not observed separately (burst of notifications)
    match v.toInt?, k.toNat? with
    | some v, some k =>
      match parseChanges k rest with
      | some cs => ((event st (.didChange v cs)).1, none)
      | none => (st, some "bad-op")
    | _, _ => (st, some "bad-op")
  | ["close"] => event st .didClose
  | ["save"] => event st .didSave
  | ["wdel"] => event st .watchedDeleted
  | ["wchg", h] =>
    if h = "!" then event st (.watchedChanged none)
    else match textOfHex? h with
      | some t => event st (.watchedChanged (some t))
      | none => (st, some "bad-op")
  | ["tok", a, b] =>
    match a.toNat?, b.toNat?, st.server with
    | some a, some b, some d =>
      let (l, c, n) := Impl.tokenPos d.text a b
      (st, some s!"m {l} {c} {n}")
    | some _, some _, none => (st, some "m no-document")
    | _, _, _ => (st, some "bad-op")
  | ["eof"] =>
    match st.server with
    | some d =>
      let (l, c) := Impl.offsetToLineCol d.text (len8 d.text)
      (st, some s!"m {l} {c}")
    | none => (st, some "m no-document")
  | [] => (st, none)
  | _ => (st, some "bad-op")

def main (lines : Array String) (_args : List String) : IO Unit := do
  let mut st : St := {}
  for line in lines do
    let (st', out) := step st line
    st := st'
    match out with
    | some o => IO.println o
    | none => pure ()

end TrustVerif.Drv.C14
