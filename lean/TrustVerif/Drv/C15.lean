import TrustVerif.Model.C15
import TrustVerif.Drv.Common

/-
Driver for C15.  Protocol (one case; `-` = absent / empty):
  case <n>
  cfg <tabSize> <insertSpaces> <profile-hex|-> <indentWidth|-> <insertSpaces|-> <keywordCase-hex|->
      <alignVarDecls|-> <alignAssignments|-> <maxLineLength|-> <spacingStyle-hex|-> <endKeywordStyle-hex|->
  src <hex of the UTF-8 source>
  toks <Name>:<start>:<end> …         every token of `trust_syntax::lex` except Whitespace, in order
  full                                 -> m <reply>      reply = panic | null | edits [sl:sc:el:ec:<hex>]…
  range <sl> <sc> <el> <ec>            -> m <reply>
  ontype <line> <character>            -> m <reply>
  web                                  -> m <hex of the web formatter's output>
  pair <A> <B> <chain>…                -> m ok | m unsound:<chain>    lexer validation (case 0); a chain is
                                          the `+`-joined class names of a continuation after which the real
                                          lexer did NOT split `ta tb …` as `[ta, tb, …]`; `END` = no continuation
  spacecheck <ok|FAIL:…>               -> m ok      (a space always separates two tokens)
  lexcheck                             -> m ok | m unwitnessed:<A+B,…>   every glued-unsafe class pair was
                                          witnessed on the real lexer as the only unsafe pair of a failing chain
`src` / `toks` may be repeated inside a case (the second formatting of the idempotence test).
Second mode `driver c15 guards`: prints `g <case> <docIndex> <guard,…|->` for every `toks` line.
-/
namespace TrustVerif.Drv.C15
open TrustVerif.C15 TrustVerif.C15.Gen TrustVerif.Drv

structure St where
  caseNo : String := "?"
  cfg : Option Config := none
  src : Option ByteArray := none
  built : Option Built := none
  docIndex : Nat := 0
  witnessed : List (String × String) := []
  pairsSeen : Nat := 0

def bytesOfHex? (s : String) : Option ByteArray :=
  (parseHex? s).map fun bs => ByteArray.mk (bs.map (·.toUInt8)).toArray

def strOfHex? (s : String) : Option String := do
  let b ← bytesOfHex? s
  String.fromUTF8? b

def hexOfText (t : Text) : String :=
  showHex ((String.ofList t).toUTF8.toList.map (·.toNat))

def optField (f : String → Option α) (s : String) : Option (Option α) :=
  if s = "-" then some none else (f s).map some

def parseCfg (ws : List String) : Option Config :=
  match ws with
  | [tab, ins, prof, iw, is2, kc, av, aa, ml, sp, ek] => do
    let tab ← tab.toNat?
    let ins ← parseBool? ins
    let prof ← optField strOfHex? prof
    let s : Settings := {
      indentWidth := ← optField String.toNat? iw
      insertSpaces := ← optField parseBool? is2
      keywordCase := ← optField strOfHex? kc
      alignVarDecls := ← optField parseBool? av
      alignAssignments := ← optField parseBool? aa
      maxLineLength := ← optField String.toNat? ml
      spacingStyle := ← optField strOfHex? sp
      endKeywordStyle := ← optField strOfHex? ek }
    return formatConfig tab ins prof s
  | _ => none

def parseTok (w : String) : Option RawTok :=
  match w.splitOn ":" with
  | [name, s, e] => do
    let s ← s.toNat?
    let e ← e.toNat?
    return { name := name, start := s, stop := e }
  | _ => none

def showEdit (e : Edit) : String :=
  s!"{e.sl}:{e.sc}:{e.el}:{e.ec}:{hexOfText e.newText}"

def showReply : Reply → String
  | .panic => "panic"
  | .null => "null"
  | .edits es => joinWith " " ("edits" :: es.map showEdit)

def clsOfName (s : String) : Option Cls :=
  if s = "TypedLiteralPrefixT" then some .temporal
  else if s = "Kw" then some (.k .Kw)
  else (K.ofName s).map .k

/-- Adjacent pairs of a chain of classes. -/
def adjPairs : List Cls → List (Cls × Cls)
  | a :: b :: rest => (a, b) :: adjPairs (b :: rest)
  | _ => []

def parseChain (a b : Cls) (w : String) : Option (List Cls) :=
  if w = "END" then some [a, b]
  else (w.splitOn "+").mapM clsOfName |>.map fun cs => a :: b :: cs

def withDoc (st : St) (f : Config → Built → String) : St × Option String :=
  match st.cfg, st.built with
  | some cfg, some bd => (st, some ("m " ++ f cfg bd))
  | _, _ => (st, some "bad-op")

def step (guards : Bool) (st : St) (line : String) : St × Option String :=
  match words line with
  | ["case", n] => ({ witnessed := st.witnessed, pairsSeen := st.pairsSeen, caseNo := n }, none)
  | ["end"] => (st, none)
  | "impl" :: _ => (st, none)
  | "tag" :: _ => (st, none)
  | "#" :: _ => (st, none)
  | "cfg" :: ws =>
    match parseCfg ws with
    | some c => ({ st with cfg := some c }, none)
    | none => (st, some "bad-op")
  | ["src", h] =>
    match bytesOfHex? h with
    | some b => ({ st with src := some b, built := none }, none)
    | none => (st, some "bad-op")
  | "toks" :: ws =>
    let ws := if ws = ["-"] then [] else ws
    match st.src, ws.mapM parseTok with
    | some b, some toks =>
      match buildDoc b toks with
      | some bd =>
        let st' := { st with built := some bd, docIndex := st.docIndex + 1 }
        if guards then
          match st.cfg with
          | some cfg =>
            let gs := docGuards cfg bd ++ webGuards bd
            (st', some s!"g {st.caseNo} {st.docIndex} {if gs.isEmpty then "-" else joinWith "," gs}")
          | none => (st', some "bad-op")
        else (st', none)
      | none => (st, some "bad-op")
    | _, _ => (st, some "bad-op")
  | ["full"] =>
    if guards then (st, none) else
    withDoc st fun cfg bd => showReply (fullFormat cfg bd.src bd.doc)
  | ["range", sl, sc, el, ec] =>
    if guards then (st, none) else
    match sl.toNat?, sc.toNat?, el.toNat?, ec.toNat? with
    | some sl, some sc, some el, some ec =>
      withDoc st fun cfg bd => showReply (rangeFormat cfg bd.src bd.doc bd.spanToks sl sc el ec)
    | _, _, _, _ => (st, some "bad-op")
  | ["ontype", l, _c] =>
    if guards then (st, none) else
    match l.toNat? with
    | some l => withDoc st fun cfg bd => showReply (onTypeFormat cfg bd.src bd.doc l)
    | none => (st, some "bad-op")
  | ["web"] =>
    if guards then (st, none) else
    match st.built with
    | some bd => (st, some ("m " ++ hexOfText (webFormat bd.src)))
    | none => (st, some "bad-op")
  | "pair" :: a :: b :: chains =>
    if guards then (st, none) else
    match clsOfName a, clsOfName b with
    | some ca, some cb =>
      let chains := if chains = ["-"] then [] else chains
      match chains.mapM (fun w => (parseChain ca cb w).map fun c => (w, c)) with
      | none => (st, some "bad-op")
      | some cs =>
        let unsound := cs.filter fun (_, c) => (adjPairs c).all fun (x, y) => classSafe x y
        -- a failing chain with exactly one unsafe adjacent pair is a witness for that pair
        let credited := cs.filterMap fun (_, c) =>
          match (adjPairs c).filter fun (x, y) => !classSafe x y with
          | [(x, y)] => some (x.name, y.name)
          | _ => none
        let st' := { st with pairsSeen := st.pairsSeen + 1,
                             witnessed := (credited.filter fun p => !st.witnessed.contains p).eraseDups ++ st.witnessed }
        if unsound.isEmpty then (st', some "m ok")
        else (st', some ("m unsound:" ++ joinWith "," (unsound.map (·.1))))
    | _, _ => (st, some "bad-op")
  | ["spacecheck", r] =>
    if guards then (st, none) else
    (st, some (if r = "ok" then "m ok" else "m space-does-not-separate"))
  | ["lexcheck"] =>
    if guards then (st, none) else
    let need := (computedHazards.map fun (a, b, _) => (a.name, b.name)).eraseDups
    let missing := need.filter fun p => !st.witnessed.contains p
    if st.pairsSeen < Cls.all.length then (st, some "m lexcheck-without-pairs")
    else if missing.isEmpty then (st, some "m ok")
    else (st, some ("m unwitnessed:" ++ joinWith "," (missing.map fun (a, b) => a ++ "+" ++ b)))
  | [] => (st, none)
  | _ => (st, some "bad-op")

def main (lines : Array String) (args : List String) : IO Unit := do
  let guards := args.contains "guards"
  let mut st : St := {}
  for line in lines do
    let (st', out) := step guards st line
    st := st'
    match out with
    | some o => IO.println o
    | none => pure ()

end TrustVerif.Drv.C15
