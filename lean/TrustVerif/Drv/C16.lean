import TrustVerif.Model.C16
import TrustVerif.Drv.Common

/-
Driver for C16.  Protocol (one case = one project + rename requests):
  case <n>
  files <k> <len_0> … <len_{k-1}>
  scope <sid> <file> <parent> <owner decl>                         (sid = 1, 2, …)
  decl <did> <file> <scope> <kind> <start> <name hex> <tyocc|->    (did = 0, 1, …)
  occ <oid> <file> <start> <name hex> <scope> <kind> <link|->     (oid = 0, 1, …; file-major, ascending start)
  ren <file> <offset> <new name hex>
  impl refused | impl edits f:s:e,…                                 (ignored here)
  end
`driver c16`          prints `m refused` / `m edits f:s:e,…` per `ren`.
`driver c16 predict`  prints `p refused` / `p ok|broken … ` per `ren` (the model's classification of what the
                      accepted rename does to the bindings; used by checks/c16.py, not diffed).
-/
namespace TrustVerif.Drv.C16
open TrustVerif.C16 TrustVerif.Drv

structure St where
  lens : List Nat := []
  scopes : Array Scope := #[]
  decls : Array Decl := #[]
  occs : Array Occ := #[]
  /-- end offset of the last occurrence per file -/
  ends : List (Nat × Nat) := []
  bad : Bool := false
  proj : Option Project := none

def parseDKind : String → Option DKind
  | "var" => some .var | "param" => some .param | "func" => some .func | "fb" => some .fb
  | "prog" => some .prog | "method" => some .method | "stype" => some .stype | "field" => some .field
  | "cfg" => some .cfg | "task" => some .task | "inst" => some .inst | "enumval" => some .enumval | _ => none

def parseOKind : String → Option OKind
  | "decl" => some .decl | "ref" => some .ref | "typ" => some .typ | "mem" => some .mem
  | "arg" => some .arg | "ctask" => some .ctask | "cprog" => some .cprog | "misc" => some .misc | _ => none

def parseOptNat (s : String) : Option (Option Nat) :=
  if s = "-" then some none else s.toNat?.map some

def endOf (ends : List (Nat × Nat)) (f : Nat) : Nat :=
  match ends.find? (·.1 == f) with | some p => p.2 | none => 0

def setEnd (ends : List (Nat × Nat)) (f e : Nat) : List (Nat × Nat) :=
  (f, e) :: ends.filter (·.1 != f)

def finish (st : St) : Option Project :=
  if st.bad then none else
  let tails := (List.range st.lens.length).map fun f => st.lens.getD f 0 - endOf st.ends f
  -- a file shorter than its last identifier is malformed
  if (List.range st.lens.length).any (fun f => st.lens.getD f 0 < endOf st.ends f) then none
  else
    let P : Project := { tails := tails, scopes := st.scopes.toList, decls := st.decls.toList, occs := st.occs.toList }
    -- the theorems are stated for well-formed project descriptions without duplicate declarations
    if wf P && noDupScope P then some P else none

def showEdits (es : List Edit) : String :=
  joinWith "," (es.map fun e => s!"{e.file}:{e.start}:{e.stop}")

def answer (P : Project) (predict : Bool) (f off : Nat) (n : Name) : String :=
  if !predict then
    match rename P f off n with
    | none => "m refused"
    | some es => "m edits " ++ showEdits es
  else
    match occAt P f off with
    | none => "p refused"
    | some o =>
      match renameTarget P o n with
      | none => "p refused"
      | some d =>
        let dmg := damage P d n
        let head := if dmg.isEmpty then "ok" else "broken " ++ joinWith "," dmg
        let wrong := (target P o).map (·.id) != bindingId P o
        let b (x : Bool) : String := if x then "1" else "0"
        let ts := typeShadowed P != typeShadowed (applyRename P d n)
        s!"p {head} poudup={b (pouDup P d n)} instclash={b (instClash P d n)} xfiledup={b (xfileDup P d n)} skippedconflict={b (skippedConflict P o.file d n)} tshadow={b ts} fnshadow={b (fnShadow P || fnShadow (applyRename P d n))} dynscope={b (dynScope P || dynScope (applyRename P d n))} rangealias={b (rangeAlias P || rangeAlias (applyRename P d n))} valias={b (varAlias P != varAlias (applyRename P d n))} fieldx={b (fieldX P d n)} blindrefs={blindRefs P d} wrongtarget={b wrong} uniform={b (uniform P d)} same={b (eqv d.name n)} exact={b (d.name == n)} noclash={b (noClash P d n)} noblind={b (noBlind P d)} kind={reprStr d.kind}"

def step (predict : Bool) (st : St) (line : String) : St × Option String :=
  match words line with
  | ["case", _] => ({}, none)
  | ["end"] => (st, none)
  | "impl" :: _ => (st, none)
  | "tag" :: _ => (st, none)
  | "#" :: _ => (st, none)
  | "files" :: _ :: lens =>
    match parseNats? lens with
    | some ls => ({ st with lens := ls }, none)
    | none => (st, some "bad-op")
  | ["scope", sid, _file, parent, owner] =>
    match sid.toNat?, parent.toNat?, owner.toNat? with
    | some sid, some parent, some owner =>
      if sid != st.scopes.size + 1 then (st, some "bad-op")
      else ({ st with scopes := st.scopes.push { parent := parent, owner := owner } }, none)
    | _, _, _ => (st, some "bad-op")
  | ["decl", did, file, scope, kind, _start, name, ty] =>
    match did.toNat?, file.toNat?, scope.toNat?, parseDKind kind, parseHex? name, parseOptNat ty with
    | some did, some file, some scope, some kind, some name, some ty =>
      if did != st.decls.size then (st, some "bad-op")
      else ({ st with decls := st.decls.push { id := did, file := file, scope := scope, kind := kind, name := name, tyocc := ty } }, none)
    | _, _, _, _, _, _ => (st, some "bad-op")
  | ["occ", oid, file, start, name, scope, kind, link] =>
    match oid.toNat?, file.toNat?, start.toNat?, parseHex? name, scope.toNat?, parseOKind kind, parseOptNat link with
    | some oid, some file, some start, some name, some scope, some kind, some link =>
      let e := endOf st.ends file
      if oid != st.occs.size || start < e || name.isEmpty then ({ st with bad := true }, some "bad-op")
      else
        ({ st with occs := st.occs.push { file := file, pre := start - e, name := name, scope := scope, kind := kind, link := link },
                   ends := setEnd st.ends file (start + name.length) }, none)
    | _, _, _, _, _, _, _ => (st, some "bad-op")
  | ["ren", file, off, name] =>
    match file.toNat?, off.toNat?, parseHex? name with
    | some file, some off, some name =>
      let st := if st.proj.isNone then { st with proj := finish st } else st
      match st.proj with
      | none => (st, some "bad-op")
      | some P => (st, some (answer P predict file off name))
    | _, _, _ => (st, some "bad-op")
  | [] => (st, none)
  | _ => (st, some "bad-op")

def main (lines : Array String) (args : List String) : IO Unit := do
  let predict := args.contains "predict"
  let mut st : St := {}
  for line in lines do
    let (st', out) := step predict st line
    st := st'
    match out with
    | some o => IO.println o
    | none => pure ()

end TrustVerif.Drv.C16
