import TrustVerif.Model.C17
import TrustVerif.Drv.Common

/-
Driver for C17.  Two kinds of case.

kind mon  (layer 1: a real `DebugControl` driven hook call by hook call)
  thread <t|->                       cycle thread: set_current_thread
  hook <f> <s> <e> <depth> | hook - <depth>     cycle thread: on_statement (no eval context)
  act <pause|cont|in|over|out> <t|->            controller: apply_action
  entry                              controller: pause_entry
  bp <file> {<f>:<s>:<e>:<hc>:<cond>:<log>}*    set_breakpoints_for_file   hc: - =k >=k >k  cond: - t f
  clearbp
  burst <cmd> <t> ... | <obs>        several controller calls while the cycle thread sleeps; the
                                     observed outcome must be one of the model's (any wake-up schedule)
  fh <f> <s> <e> <depth>             declares one hook of a free run (no answer)
  free <j>                           free run of the declared hooks; a Pause from the second thread
                                     landed before hook j (j = count: after all); then Continue
  finish                             clear_breakpoints, Continue, cycle thread must come back
  every op except `fh` is answered with the observation line described in `obs`.

kind rt   (layer 2: a real Runtime; the statement trace is an input)
  t <thread|->  |  s <f> <s> <e> <depth>  |  b         trace items (no answer)
  bp / clearbp / act / entry          as above (no answer; applied to the model)
  go                                  cycle thread runs until it stops or the trace ends
  goto <i>                            cycle thread runs (without stopping) to trace index i
  answers: `stop <reason> <loc> <thread> <depth> @<index>` | `end <index>`
-/
namespace TrustVerif.Drv.C17
open TrustVerif.C17 TrustVerif.Drv

abbrev S := Sys Unit Unit

def progOf (it : Item) : Prog Unit Unit := { item := fun _ => it, exec := fun _ m => m, applyW := fun _ m => m }

def dummy : Prog Unit Unit := progOf .boundary

/-- Controller commands. -/
inductive Cmd
  | act (a : Action)
  | entry
  | setBps (file : Nat) (bps : List Bp)
  | clearBps

def optNat? (s : String) : Option (Option Nat) :=
  if s = "-" then some none else s.toNat?.map some

def showOptNat : Option Nat → String
  | some n => toString n
  | none => "-"

def showLoc : Option Loc → String
  | some l => s!"{l.file}:{l.start}:{l.stop}"
  | none => "-"

def showReason : Reason → String
  | .breakpoint => "B" | .step => "S" | .pause => "P" | .entry => "E"

def showStop (st : Stop) : String :=
  s!"{showReason st.reason}/{showLoc st.loc}/{showOptNat st.thread}/{showOptNat st.gen}"

def showList (xs : List String) : String := if xs.isEmpty then "-" else joinWith "," xs

def showOutcome : Outcome → String
  | .applied => "A" | .ignored => "I"

/-- The observation after an operation (everything through public getters of `DebugControl`). -/
def obs (s : S) (seen : Nat) (out : String) : String :=
  let d := s.d
  let r := match s.rt with | .idle => "i" | .waiting _ => "w"
  let stops := showList ((d.stops.drop seen).map showStop)
  let mode := match d.mode with | .running => "R" | .paused => "P"
  let gens := joinWith "," ((List.range 3).map fun f => showOptNat (alookup d.bpGeneration f))
  let bps := showList (d.breakpoints.map fun bp => s!"{showLoc (some bp.loc)}:{bp.hits}:{bp.gen}")
  s!"r={r} out={out} stops={stops} mode={mode} cur={showOptNat d.currentThread} tgt={showOptNat d.targetThread} depth={d.lastCallDepth} loc={showLoc d.lastLocation} gens={gens} bps={bps} logs={d.logs}"

def parseAction? (k t : String) : Option Cmd := do
  let t ← optNat? t
  match k with
  | "pause" => some (.act (.pause t))
  | "cont" => if t.isNone then some (.act .continue_) else none
  | "in" => some (.act (.stepIn t))
  | "over" => some (.act (.stepOver t))
  | "out" => some (.act (.stepOut t))
  | "entry" => if t.isNone then some .entry else none
  | _ => none

def parseCmds? : List String → Option (List Cmd)
  | [] => some []
  | [_] => none
  | k :: t :: rest => do
    let c ← parseAction? k t
    let cs ← parseCmds? rest
    some (c :: cs)

def parseHitCond? (s : String) : Option (Option HitCond) :=
  if s = "-" then some none
  else if s.startsWith ">=" then (s.drop 2).toNat?.map fun n => some (.ge n)
  else if s.startsWith ">" then (s.drop 1).toNat?.map fun n => some (.gt n)
  else if s.startsWith "=" then (s.drop 1).toNat?.map fun n => some (.eq n)
  else none

def parseBp? (s : String) : Option Bp :=
  match s.splitOn ":" with
  | [f, st, en, hc, c, lg] => do
    let f ← f.toNat?
    let st ← st.toNat?
    let en ← en.toNat?
    let hc ← parseHitCond? hc
    let c ← (if c = "-" then some none else if c = "t" then some (some true)
             else if c = "f" then some (some false) else none)
    let lg ← parseBool? lg
    some { loc := ⟨f, st, en⟩, cond := c, hitCond := hc, isLog := lg, hits := 0, gen := 0 }
  | _ => none

def parseHook? : List String → Option (Option Loc × Nat)
  | ["-", d] => d.toNat?.map fun d => (none, d)
  | [f, s, e, d] => do
    let f ← f.toNat?
    let s ← s.toNat?
    let e ← e.toNat?
    let d ← d.toNat?
    some (some ⟨f, s, e⟩, d)
  | _ => none

/-- Apply one controller command; returns the state and the outcome letter. -/
def applyCmd (s : S) : Cmd → S × String
  | .act a => (step dummy s (.act a), showOutcome (applyAction s.d a).2.1)
  | .entry => (step dummy s .pauseEntry, "-")
  | .setBps f bps => (step dummy s (.setBps f bps), "-")
  | .clearBps => (step dummy s .clearBps, "-")

def wake (s : S) : S := step dummy s .wake

/-- All results of a burst of controller calls against a sleeping cycle thread: between two calls
the thread may or may not get to run; after the last one it eventually does. -/
def burstOutcomes (s : S) : List Cmd → List (S × String)
  | [] => [(wake s, "")]
  | c :: rest =>
    let (s1, o) := applyCmd s c
    let nexts := if rest.isEmpty then [s1] else [s1, wake s1]
    nexts.flatMap fun s2 => (burstOutcomes s2 rest).map fun (sf, os) => (sf, o ++ os)

def runItem (s : S) (it : Item) : S := step (progOf it) s .run

structure MonSt where
  cands : List S := [Sys.init ()]
  seen : Nat := 0
  fh : List (Option Loc × Nat) := []

def dedup (xs : List S) : List S :=
  xs.foldl (fun acc x => if acc.any (fun y => decide (y.d = x.d) && decide (y.rt = x.rt) && y.pc == x.pc) then acc else acc ++ [x]) []

/-- Deterministic operation: apply `f` to every candidate; answer with the first one's observation. -/
def detOp (st : MonSt) (f : S → S × String) : MonSt × Option String :=
  let rs := st.cands.map f
  match rs with
  | [] => (st, some "m no-candidate")
  | (s0, o0) :: _ =>
    let line := obs s0 st.seen o0
    let all := rs.map fun (s, o) => obs s st.seen o
    if all.all (· == line) then
      ({ st with cands := dedup (rs.map (·.1)), seen := s0.d.stops.length }, some ("m " ++ line))
    else (st, some "m ambiguous")

/-- Free run: hooks `0..j-1` (each must come back), then Pause from the second thread, then the
remaining hooks; when the thread parks, Continue and the rest. -/
def freeRun (s : S) (hooks : List (Option Loc × Nat)) (j : Nat) : S × String :=
  let rec go (s : S) (hs : List (Option Loc × Nat)) (i : Nat) (out : String) (fuel : Nat) : S × String :=
    match fuel with
    | 0 => (s, out)
    | fuel + 1 =>
      let (s, out) := if i == j then
          let r := applyCmd s (.act (.pause none)); (r.1, r.2) else (s, out)
      match hs with
      | [] => (s, out)
      | (loc, depth) :: rest =>
        let s1 := runItem s (.stmt loc depth false)
        match s1.rt with
        | .idle => go s1 rest (i + 1) out fuel
        | .waiting _ =>
          -- the controller saw the stop: Continue, the thread comes back
          let s2 := wake (applyCmd s1 (.act .continue_)).1
          go s2 rest (i + 1) out fuel
  go s hooks 0 "-" (hooks.length + 2)

def stepMon (st : MonSt) (ws : List String) (line : String) : MonSt × Option String :=
  match ws with
  | ["thread", t] =>
    match optNat? t with
    | some t => detOp st fun s => (runItem s (.thread t), "-")
    | none => (st, some "bad-op")
  | "hook" :: args =>
    match parseHook? args with
    | some (loc, depth) => detOp st fun s => (runItem s (.stmt loc depth false), "-")
    | none => (st, some "bad-op")
  | ["act", k, t] =>
    match parseAction? k t with
    | some c => detOp st fun s =>
        let (s1, o) := applyCmd s c
        -- the sleeping thread (if any) eventually runs its loop
        (wake s1, o)
    | none => (st, some "bad-op")
  | ["entry"] => detOp st fun s => let (s1, o) := applyCmd s .entry; (wake s1, o)
  | "bp" :: f :: bps =>
    match f.toNat?, bps.mapM parseBp? with
    | some f, some bps => detOp st fun s => let (s1, o) := applyCmd s (.setBps f bps); (wake s1, o)
    | _, _ => (st, some "bad-op")
  | ["clearbp"] => detOp st fun s => let (s1, o) := applyCmd s .clearBps; (wake s1, o)
  | "fh" :: args =>
    match parseHook? args with
    | some h => ({ st with fh := st.fh ++ [h] }, none)
    | none => (st, some "bad-op")
  | ["free", j] =>
    match j.toNat? with
    | some j =>
      let hooks := st.fh
      let st := { st with fh := [] }
      if j > hooks.length then (st, some "bad-op") else
      detOp st fun s => match s.rt with
        | .idle => freeRun s hooks j
        | .waiting _ => (s, "not-idle")
    | none => (st, some "bad-op")
  | ["finish"] =>
    detOp st fun s =>
      let s1 := (applyCmd s .clearBps).1
      let (s2, o) := applyCmd s1 (.act .continue_)
      (wake s2, o)
  | "chan-vs-drain" :: _ => (st, some "m same")
  | "burst" :: _ =>
    match line.splitOn " | " with
    | [lhs, observed] =>
      match parseCmds? ((words lhs).drop 1) with
      | some cmds =>
        if cmds.isEmpty then (st, some "bad-op") else
        let outs := st.cands.flatMap fun s => match s.rt with
          | .idle => []
          | .waiting _ => burstOutcomes s cmds
        let rendered := outs.map fun (s, o) => (s, obs s st.seen o)
        let ok := rendered.filter fun (_, r) => r == observed
        match ok with
        | [] =>
          let preds := (rendered.map (·.2)).eraseDups
          (st, some ("m none-of " ++ joinWith " || " preds))
        | (s0, _) :: _ =>
          ({ st with cands := dedup (ok.map (·.1)), seen := s0.d.stops.length }, some ("m " ++ observed))
      | none => (st, some "bad-op")
    | _ => (st, some "bad-op")
  | _ => (st, some "bad-op")

/-! ### layer 2 -/

structure RtSt where
  trace : Array Item := #[]
  /-- position in `trace` of the i-th statement item -/
  stmtPos : Array Nat := #[]
  s : S := Sys.init ()

def rtProg (tr : Array Item) : Prog Unit Unit :=
  { item := fun i => tr.getD i .boundary, exec := fun _ m => m, applyW := fun _ m => m }

/-- Number of statement items before trace position `pc`. -/
def stmtIndex (st : RtSt) (pc : Nat) : Nat :=
  (st.stmtPos.toList.filter (· < pc)).length

/-- Run the cycle thread until it parks or reaches trace position `limit`. -/
def runUntil (tr : Array Item) (s : S) (limit : Nat) : S :=
  let p := rtProg tr
  let rec go (s : S) (fuel : Nat) : S :=
    match fuel with
    | 0 => s
    | fuel + 1 =>
      match s.rt with
      | .waiting _ => s
      | .idle => if s.pc ≥ limit then s else go (step p s .run) fuel
  go s (limit + 1 - s.pc)

def modeLetter (s : S) : String := match s.d.mode with | .running => "R" | .paused => "P"

def rtAnswer (st : RtSt) (s : S) (goto : Bool) : String :=
  match s.rt with
  | .waiting _ =>
    match s.d.lastStop with
    | some stp => s!"m stop {showStop stp} d={(st.trace.getD s.pc .boundary).depth} @{stmtIndex st s.pc} n={s.d.stops.length} lg={s.d.logs}"
    | none => s!"m parked-without-stop @{stmtIndex st s.pc}"
  | .idle =>
    if goto then s!"m at @{stmtIndex st s.pc}"
    else s!"m end @{stmtIndex st s.pc} n={s.d.stops.length} mode={modeLetter s} lg={s.d.logs}"

def stepRt (st : RtSt) (ws : List String) : RtSt × Option String :=
  let p := rtProg st.trace
  match ws with
  | ["script", _] => ({}, none)
  | ["trace-check"] => (st, some "m ok")
  | ["final"] => (st, some "m same")
  | ["t", t] =>
    match optNat? t with
    | some t => ({ st with trace := st.trace.push (.thread t) }, none)
    | none => (st, some "bad-op")
  | ["b"] => ({ st with trace := st.trace.push .boundary }, none)
  | "s" :: args =>
    match parseHook? args with
    | some (loc, depth) =>
      ({ st with stmtPos := st.stmtPos.push st.trace.size, trace := st.trace.push (.stmt loc depth true) }, none)
    | none => (st, some "bad-op")
  | ["act", k, t] =>
    match parseAction? k t with
    | some c => let (s1, o) := applyCmd st.s c; ({ st with s := s1 }, some s!"m out={o}")
    | none => (st, some "bad-op")
  | ["entry"] => ({ st with s := (applyCmd st.s .entry).1 }, none)
  | "bp" :: f :: bps =>
    match f.toNat?, bps.mapM parseBp? with
    | some f, some bps => ({ st with s := (applyCmd st.s (.setBps f bps)).1 }, none)
    | _, _ => (st, some "bad-op")
  | ["clearbp"] => ({ st with s := (applyCmd st.s .clearBps).1 }, none)
  | ["go"] =>
    let s1 := step p st.s .wake
    let s2 := runUntil st.trace s1 st.trace.size
    ({ st with s := s2 }, some (rtAnswer st s2 false))
  | ["goto", i] =>
    match i.toNat? with
    | some i =>
      let limit := if h : i < st.stmtPos.size then st.stmtPos[i] else st.trace.size
      let s1 := step p st.s .wake
      let s2 := runUntil st.trace s1 limit
      ({ st with s := s2 }, some (rtAnswer st s2 true))
    | none => (st, some "bad-op")
  | _ => (st, some "bad-op")

/-! ### expression guard (kind ex) -/

/-- Prefix form: `L` | `N <k> e1..ek` | `C <name> <k> e1..ek` | `U <k> e1..ek` (call with an
unresolvable target). -/
partial def parseDExpr : List String → Option (DExpr × List String)
  | "L" :: rest => some (.leaf, rest)
  | "N" :: k :: rest => do
    let k ← k.toNat?
    let (cs, rest) ← parseMany k rest
    some (.node cs, rest)
  | "C" :: name :: k :: rest => do
    let k ← k.toNat?
    let (cs, rest) ← parseMany k rest
    some (.call (some name) cs, rest)
  | "U" :: k :: rest => do
    let k ← k.toNat?
    let (cs, rest) ← parseMany k rest
    some (.call none cs, rest)
  | _ => none
where
  parseMany : Nat → List String → Option (List DExpr × List String)
    | 0, rest => some ([], rest)
    | n + 1, rest => do
      let (e, rest) ← parseDExpr rest
      let (es, rest) ← parseMany n rest
      some (e :: es, rest)

def stepEx (ws : List String) : Option String :=
  match ws with
  | "expr" :: toks | "lval" :: toks =>
    match parseDExpr toks with
    | some (e, []) => some (if hasSideEffects isAllowedWatchCall e then "m rej-se" else "m acc")
    | _ => some "bad-op"
  | ["state"] => some "m same"
  | _ => some "bad-op"

/-! ### adapter sessions (kind ad)

One case = one round of a real DAP session against the real `trust-debug` binary, linearised from the
adapter's own transcript (`ST_DEBUG_DAP_LOG`): request handlers of the request thread, stops produced
by the runtime and decisions of the stop coordinator.  The runtime's side is an INPUT here (`ahit`:
the stop the real runtime produced, as the coordinator received it); the handlers and the
coordinator's decision are the model's (`astep`: `reqPause` / `reqContinue` / `reqStep` / `reqSetBps` /
`coord`, i.e. `shouldEmitStop` + `stillParkedOn`).

  ainit <P|R> <pe 0|1> <f:g,..|-> <stop|->    state at the start of the round (quiescent)
  areq pause | cont | in | over | out | setbps <file>
  ahit <stop>                                   stop = <B|S|P|E>/<f:s:e|->/<thread|->/<gen|->
  acoord                                        the coordinator examines the oldest queued stop
  aend
every op is answered (`m ...`). -/

def parseReason? : String → Option Reason
  | "B" => some .breakpoint | "S" => some .step | "P" => some .pause | "E" => some .entry | _ => none

def parseLoc? (s : String) : Option (Option Loc) :=
  if s = "-" then some none else
  match s.splitOn ":" with
  | [f, a, b] => do
    let f ← f.toNat?
    let a ← a.toNat?
    let b ← b.toNat?
    some (some ⟨f, a, b⟩)
  | _ => none

def parseStop? (s : String) : Option Stop :=
  match s.splitOn "/" with
  | [r, l, t, g] => do
    let r ← parseReason? r
    let l ← parseLoc? l
    let t ← optNat? t
    let g ← optNat? g
    some { reason := r, loc := l, thread := t, gen := g }
  | _ => none

def parseGens? (s : String) : Option (List (Nat × Nat)) :=
  if s = "-" then some [] else
  (s.splitOn ",").mapM fun kv =>
    match kv.splitOn ":" with
    | [k, v] => do
      let k ← k.toNat?
      let v ← v.toNat?
      some (k, v)
    | _ => none

def showBit (b : Bool) : String := if b then "1" else "0"

def stepAd (s : ASys) (ws : List String) : ASys × Option String :=
  match ws with
  | ["ainit", mode, pe, gens, last] =>
    let mode? : Option Mode := if mode = "P" then some .paused else if mode = "R" then some .running else none
    let last? : Option (Option Stop) := if last = "-" then some none else (parseStop? last).map some
    match mode?, parseBool? pe, parseGens? gens, last? with
    | some m, some pe, some gens, some last =>
      let parked := m == .paused
      ({ ASys.init with d := { DState.init with mode := m, bpGeneration := gens, lastStop := last },
                        parked := parked, parkLoc := last.bind (·.loc), pauseExpected := pe,
                        clientStopped := parked }, some "m ok")
    | _, _, _, _ => (s, some "bad-op")
  | ["areq", "pause"] =>
    let ignored := s.d.mode == .paused
    (astep s .reqPause, some (if ignored then "m ignored" else "m requested"))
  | ["areq", "cont"] => ({ astep s .reqContinue with parked := false }, some "m -")
  | ["areq", "in"] => ({ astep s (.reqStep (.stepIn (some 1))) with parked := false }, some "m -")
  | ["areq", "over"] => ({ astep s (.reqStep (.stepOver (some 1))) with parked := false }, some "m -")
  | ["areq", "out"] => ({ astep s (.reqStep (.stepOut (some 1))) with parked := false }, some "m -")
  | ["areq", "setbps", f] =>
    match f.toNat? with
    | some f => (astep s (.reqSetBps f []), some "m -")
    | none => (s, some "bad-op")
  | ["ahit", st] =>
    match parseStop? st with
    | some st =>
      -- a parked cycle thread cannot produce a stop: such a linearisation is not a run
      if s.parked then (s, some "m invalid") else
      ({ s with d := { s.d with mode := .paused, lastStop := some st, pendingStop := none, steps := [] },
                parked := true, parkLoc := st.loc, chan := s.chan ++ [st] }, some "m ok")
    | none => (s, some "bad-op")
  | ["acoord"] =>
    match s.chan with
    | [] => (s, some "m empty")
    | st :: _ =>
      let s1 := astep s .coord
      let emitted := decide (s1.emitted.length > s.emitted.length)
      (s1, some s!"m {if emitted then "emit" else "drop"} {showStop st}")
  | ["aend"] =>
    (s, some s!"m parked={showBit s.parked} queued={s.chan.length} told={showBit (!s.parked || s.clientStopped)} pe={showBit s.pauseExpected}")
  | _ => (s, some "bad-op")

inductive Kind | none | mon | rt | ex | ad

structure St where
  kind : Kind := .none
  mon : MonSt := {}
  rt : RtSt := {}
  ad : ASys := ASys.init

def stepLine (st : St) (line : String) : St × Option String :=
  let ws := words line
  match ws with
  | [] => (st, none)
  | ["case", _] => ({}, none)
  | ["end"] => (st, none)
  | "impl" :: _ => (st, none)
  | "tag" :: _ => (st, none)
  | ["kind", "mon"] => ({ st with kind := .mon }, none)
  | ["kind", "rt"] => ({ st with kind := .rt }, none)
  | ["kind", "ex"] => ({ st with kind := .ex }, none)
  | ["kind", "ad"] => ({ st with kind := .ad }, none)
  | _ =>
    if line.startsWith "#" then (st, none) else
    match st.kind with
    | .none => (st, some "bad-op")
    | .mon => let (m, o) := stepMon st.mon ws line; ({ st with mon := m }, o)
    | .rt => let (r, o) := stepRt st.rt ws; ({ st with rt := r }, o)
    | .ex => (st, stepEx ws)
    | .ad => let (a, o) := stepAd st.ad ws; ({ st with ad := a }, o)

def main (lines : Array String) (_args : List String) : IO Unit := do
  let mut st : St := {}
  for line in lines do
    let (st', out) := stepLine st line
    st := st'
    match out with
    | some o => IO.println o
    | none => pure ()

end TrustVerif.Drv.C17
