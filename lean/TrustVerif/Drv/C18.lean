import TrustVerif.Model.C18
import TrustVerif.Drv.Common

/-
Driver for C18.  Protocol (one case):
  case <n>
  world token=<none|s<hex>> reqauth=<0|1> debug=<0|1> mode=<prod|debug> pairing=<0|1> now=<secs>
  ptoken <id hex> <token hex> <role> <enabled 0|1> <expires_at>     pairing tokens after load
  pending <code hex> <expires_at>                                    pending pairing code
  tick <secs>                                                        the pairing clock advances
  reload                                                             runtime restart: the pairing store is re-opened from its file
  revoke <id hex>                                                    direct PairingStore::revoke(id)
  req id=<n> type=<hex> auth=<none|s<hex>> eff=<0|1> nonce=<-|hex> params=<missing|nonobj|obj>
      [k=<key hex>:<n|t|f|o|s<hex>>:<good 0|1>]... raw=<hex>         a line that parses as a request
  line <notjson|notreq> [lossy=1] raw=<hex>                          any other line (classified on the
                                                                     lossily decoded text, as the transport does)
  claimcheck <code hex>                                              direct PairingStore::claim(code, None)
  impl ... / obs ...                                                 (ignored here)
  end
For every req/line the model prints `m <reply class> fx=<changed probes|->`, for claimcheck / revoke `m ok|fail`.
Fields of `req` the model does not read (`cred=`, `valid=`, `lossy=`) feed the oracle in checks/c18.py.
-/
namespace TrustVerif.Drv.C18
open TrustVerif.C18 TrustVerif.C18.Gen TrustVerif.Drv

def hexString? (s : String) : Option String := do
  let bs ← parseHex? s
  if bs.any (· > 255) then none
  String.fromUTF8? (ByteArray.mk (bs.map (·.toUInt8)).toArray)

/-- `key=value` -/
def kv? (w : String) : Option (String × String) :=
  match w.splitOn "=" with
  | k :: v :: rest => some (k, "=".intercalate (v :: rest))
  | _ => none

def field? (ws : List String) (k : String) : Option String :=
  (ws.filterMap kv?).find? (·.1 = k) |>.map (·.2)

def optStr? (s : String) : Option (Option String) :=
  if s = "none" then some none
  else if s.startsWith "s" then (hexString? (s.drop 1).toString).map some
  else none

def roleOfName? (s : String) : Option Role := Role.all.find? (fun r => r.name = s)

def cval? (s : String) : Option CVal :=
  if s = "n" then some .null
  else if s = "t" then some (.bool true)
  else if s = "f" then some (.bool false)
  else if s = "o" then some .other
  else if s.startsWith "s" then (hexString? (s.drop 1).toString).map .str
  else none

def entry? (v : String) : Option Entry :=
  match v.splitOn ":" with
  | [k, val, g] => do
    let k ← hexString? k
    let val ← cval? val
    let g ← parseBool? g
    some { key := k, val := val, good := g }
  | _ => none

def probeName : Probe → String
  | .alarms => "alarms" | .commands => "commands" | .dbgen => "dbgen" | .debug => "debug"
  | .files => "files" | .hmidesc => "hmidesc" | .mode => "mode" | .pairing => "pairing"
  | .resource => "resource" | .restart => "restart" | .settings => "settings" | .token => "token"

def insertSorted (x : String) : List String → List String
  | [] => [x]
  | y :: ys => if x < y then x :: y :: ys else if x = y then y :: ys else y :: insertSorted x ys

def showFx (fx : List Probe) : String :=
  let names := (fx.map probeName).foldl (fun acc x => insertSorted x acc) []
  if names.isEmpty then "-" else joinWith "," names

def showReply : Reply → String
  | .invalid => "id=0 invalid"
  | .unauthorized id => s!"id={id} unauthorized"
  | .forbidden id r => s!"id={id} forbidden:{r.name}"
  | .debugDisabled id => s!"id={id} debug-disabled"
  | .unsupported id => s!"id={id} unsupported"
  | .handled id _ _ => s!"id={id} handled"

structure St where
  ep : Option Endpoint := none

def parseRequest? (ws : List String) : Option (Request × Bool) := do
  let id ← (← field? ws "id").toNat?
  let ty ← hexString? (← field? ws "type")
  let auth ← optStr? (← field? ws "auth")
  -- eff: 0 = ineffective, 1 = effective, 2 = boundary values (effect not asserted: `fx=*` if dispatched)
  let effN ← (← field? ws "eff").toNat?
  if effN > 2 then none
  let eff := effN == 1
  let nonceRaw ← field? ws "nonce"
  let nonce ← if nonceRaw = "-" then some "" else hexString? nonceRaw
  let pkind ← field? ws "params"
  let entries ← ((ws.filterMap kv?).filter (·.1 = "k")).mapM (fun p => entry? p.2)
  let params ←
    if pkind = "missing" then some Params.missing
    else if pkind = "nonobj" then some Params.nonObject
    else if pkind = "obj" then some (Params.object entries)
    else none
  some ({ id := id, type := ty, auth := auth, params := params, effective := eff, nonce := nonce }, effN == 2)

def answer (ep : Endpoint) (l : Line) : Endpoint × String :=
  let (ep', o) := step ep l
  (ep', s!"m {showReply o.reply} fx={showFx o.fx}")

def stepLine (st : St) (line : String) : St × Option String :=
  let ws := words line
  match ws with
  | ["case", _] => ({}, none)
  | ["end"] => (st, none)
  | "impl" :: _ => (st, none)
  | "tag" :: _ => (st, none)
  | "obs" :: _ => (st, none)
  | "world" :: rest =>
    match (do
      let tok ← optStr? (← field? rest "token")
      let ra ← parseBool? (← field? rest "reqauth")
      let dbg ← parseBool? (← field? rest "debug")
      let mode ← field? rest "mode"
      let dm ← if mode = "debug" then some true else if mode = "prod" then some false else none
      let pairing ← parseBool? (← field? rest "pairing")
      let now ← (← field? rest "now").toNat?
      some ({ authToken := tok, requiresAuth := ra, debugEnabled := dbg, debugMode := dm,
              pairing := if pairing then some ⟨[], none⟩ else none, now := now } : Endpoint)) with
    | some ep => ({ st with ep := some ep }, none)
    | none => (st, some "bad-op")
  | ["ptoken", id, tok, role, en, exp] =>
    match st.ep, hexString? id, hexString? tok, roleOfName? role, parseBool? en, exp.toNat? with
    | some ep, some id, some tok, some role, some en, some exp =>
      match ep.pairing with
      | some p =>
        let p' := { p with tokens := p.tokens ++ [⟨id, tok, role, en, exp⟩] }
        ({ st with ep := some { ep with pairing := some p' } }, none)
      | none => (st, some "bad-op")
    | _, _, _, _, _, _ => (st, some "bad-op")
  | ["pending", code, exp] =>
    match st.ep, hexString? code, exp.toNat? with
    | some ep, some code, some exp =>
      match ep.pairing with
      | some p => ({ st with ep := some { ep with pairing := some { p with pending := some (code, exp) } } }, none)
      | none => (st, some "bad-op")
    | _, _, _ => (st, some "bad-op")
  | ["reload"] =>
    match st.ep with
    | some ep => ({ st with ep := some (stepEvent ep .reload).1 }, none)
    | none => (st, some "bad-op")
  | ["revoke", id] =>
    match st.ep, hexString? id with
    | some ep, some id =>
      match ep.pairing with
      | some p =>
        let (p', ok) := p.revoke ep.now id
        ({ st with ep := some { ep with pairing := some p' } }, some (if ok then "m ok" else "m fail"))
      | none => (st, some "bad-op")
    | _, _ => (st, some "bad-op")
  | ["tick", dt] =>
    match st.ep, dt.toNat? with
    | some ep, some dt => ({ st with ep := some (stepEvent ep (.tick dt)).1 }, none)
    | _, _ => (st, some "bad-op")
  | "req" :: rest =>
    match st.ep, parseRequest? rest with
    | some ep, some (r, boundary) =>
      let (ep', o) := step ep (.request r)
      let fx := if boundary && o.reply.carriesData then "*" else showFx o.fx
      ({ st with ep := some ep' }, some s!"m {showReply o.reply} fx={fx}")
    | _, _ => (st, some "bad-op")
  | "line" :: kind :: _ =>
    match st.ep with
    | some ep =>
      let l? : Option Line :=
        if kind = "notjson" then some .notJson
        else if kind = "notreq" then some .notRequest
        else none
      match l? with
      | some l =>
        let (ep', out) := answer ep l
        ({ st with ep := some ep' }, some out)
      | none => (st, some "bad-op")
    | none => (st, some "bad-op")
  | ["claimcheck", code] =>
    match st.ep, hexString? code with
    | some ep, some code =>
      match ep.pairing with
      | some p =>
        let (p', ok) := p.claim ep.now code none "claimcheck"
        ({ st with ep := some { ep with pairing := some p' } }, some (if ok then "m ok" else "m fail"))
      | none => (st, some "bad-op")
    | _, _ => (st, some "bad-op")
  | [] => (st, none)
  | _ => (st, some "bad-op")

/-- `driver c18 classes`: the model's classification of every dispatched request name, one per line:
`<name hex> mutating=<0|1> debugclass=<0|1> floor=<least required role>`. -/
def printClasses : IO Unit := do
  for t in dispatched do
    let b (x : Bool) : String := if x then "1" else "0"
    let eff := ((staticEffect true t).getD [] ++ (staticEffect false t).getD []).map probeName
    let effs := if eff.isEmpty then "-" else joinWith "," eff
    IO.println s!"class {showHex (t.toUTF8.toList.map (·.toNat))} mutating={b (mutating t)} debugclass={b (debugClass.contains t)} floor={(requiredRole t .missing).name} effects={effs}"

def main (lines : Array String) (args : List String) : IO Unit := do
  if args = ["classes"] then
    printClasses
    return
  let mut st : St := {}
  for line in lines do
    let (st', out) := stepLine st line
    st := st'
    match out with
    | some o => IO.println o
    | none => pure ()

end TrustVerif.Drv.C18
