import TrustVerif.Model.C19
import TrustVerif.Drv.Common

/-
Driver for C19.  Protocol (one case):
  case <n>
  root <path>                      project root (logical path below the sentinel base)
  d <path> | f <path> <content> | l <path> <target>      initial tree (physical paths)
  clock <secs>
  session <0|1>                    create_session(viewer|editor)
  open <tok> <str> | apply <tok> <str> <expected> <content> <we> | create <tok> <str> <isdir> <content|none> <we>
  rename <tok> <str> <str> <we> | delete <tok> <str> <we> | list <tok> | tree <tok>
  search <tok> <str> <limit> | format <tok> <str> <content|none> | health <tok>
  xwrite <path> <content> | xremove <path>     the harness changes the disk itself (no answer)
  snap                             full dump of the tree
  impl …                           (ignored here)
  end
<path>    = `.` (the base) or hex components joined by `/`
<str>     = hex of UTF-8 (`-` = empty)
<content> = `-` | hex | r<count>x<hexbyte>
Every API op is answered by `m <result> | <fs diff>`.
-/
namespace TrustVerif.Drv.C19
open TrustVerif.C19 TrustVerif.Drv

def bytesToChars? (bs : List Nat) : Option (List Char) :=
  (String.fromUTF8? (ByteArray.mk (bs.map (·.toUInt8)).toArray)).map (·.toList)

def charsToHex (cs : List Char) : String :=
  showHex ((String.ofList cs).toUTF8.toList.map (·.toNat))

def parseStr? (s : String) : Option (List Char) := do
  let bs ← parseHex? s
  bytesToChars? bs

def parseContent? (s : String) : Option (List Char) :=
  if s = "-" then some []
  else if s.startsWith "r" then
    match (s.drop 1).toString.splitOn "x" with
    | [n, b] => do
      let n ← n.toNat?
      let bs ← parseHex? b
      match bs with
      | [b] => if b < 128 then some (List.replicate n (Char.ofNat b)) else none
      | _ => none
    | _ => none
  else parseStr? s

def parseOptContent? (s : String) : Option (Option (List Char)) :=
  if s = "none" then some none else (parseContent? s).map some

def parsePath? (s : String) : Option Path :=
  if s = "." then some [] else (s.splitOn "/").mapM parseStr?

def encContent (cs : List Char) : String :=
  match cs with
  | [] => "-"
  | c :: rest =>
    if cs.length > 64 ∧ c.toNat < 128 ∧ rest.all (· == c) then
      s!"r{cs.length}x{showHex [c.toNat]}"
    else charsToHex cs

def renderPath (p : Path) : String :=
  if p.isEmpty then "." else joinWith "/" (p.map charsToHex)

def renderNode (p : Path) : Node → String
  | .dir => s!"d:{renderPath p}"
  | .file c => s!"f:{renderPath p}:{encContent c}"
  | .link t => s!"l:{renderPath p}:{renderPath t}"

def strLe (a b : String × String) : Bool := charsLe a.1.toList b.1.toList

def diffFs (a b : FS) : String :=
  let removed := a.filterMap fun (k, _) =>
    if (b.get k).isNone then some (renderPath k, s!"-:{renderPath k}") else none
  let changed := b.filterMap fun (k, n) =>
    if a.get k = some n then none else some (renderPath k, "+" ++ renderNode k n)
  let all := (removed ++ changed).mergeSort strLe
  if all.isEmpty then "-" else joinWith "," (all.map (·.2))

def dumpFs (a : FS) : String :=
  let all := (a.map fun (k, n) => (renderPath k, renderNode k n)).mergeSort strLe
  if all.isEmpty then "-" else joinWith "," (all.map (·.2))

def errName : Err → String
  | .unauthorized => "unauthorized" | .forbidden => "forbidden" | .notFound => "notfound"
  | .conflict => "conflict" | .invalidInput => "invalid" | .tooLarge => "toolarge"
  | .limitExceeded => "limit" | .internal => "internal"

def b01 (b : Bool) : String := if b then "1" else "0"

def showRes : Res → String
  | .err e none => s!"err {errName e}"
  | .err e (some v) => s!"err {errName e} {v}"
  | .session t => s!"ok {t}"
  | .opened p c v ro => s!"ok {charsToHex (joinSlash p)} {v} {b01 ro} {encContent c}"
  | .written p v => s!"ok {charsToHex (joinSlash p)} {v}"
  | .fsres p d v => s!"ok {charsToHex (joinSlash p)} {if d then "d" else "f"} {match v with | some v => toString v | none => "-"}"
  | .listing ps => "ok " ++ (if ps.isEmpty then "-" else joinWith "," (ps.map charsToHex))
  | .tree ns => "ok " ++ (if ns.isEmpty then "-" else joinWith "," (ns.map fun (d, p) => (if d then "d:" else "f:") ++ charsToHex p))
  | .hits hs => "ok " ++ (if hs.isEmpty then "-" else joinWith "," (hs.map fun (p, l, c) => s!"{charsToHex p}:{l}:{c}"))
  | .formatted p => s!"ok {charsToHex (joinSlash p)}"
  | .health a e d m => s!"ok {a} {e} {d} {m}"

structure St where
  w : World := { fs := [], root := [] }

def answer (st : St) (o : Out) : St × Option String :=
  ({ w := o.world }, some s!"m {showRes o.res} | {diffFs st.w.fs o.world.fs}")

def bad (st : St) : St × Option String := (st, some "bad-op")

def step (st : St) (line : String) : St × Option String :=
  match words line with
  | ["case", _] => ({}, none)
  | ["end"] => (st, none)
  | "impl" :: _ => (st, none)
  | "tag" :: _ => (st, none)
  | "#" :: _ => (st, none)
  | [] => (st, none)
  | ["root", p] =>
    match parsePath? p with
    | some p => ({ w := { st.w with root := p } }, none)
    | none => bad st
  | ["d", p] =>
    match parsePath? p with
    | some p => ({ w := { st.w with fs := st.w.fs.set p .dir } }, none)
    | none => bad st
  | ["f", p, c] =>
    match parsePath? p, parseContent? c with
    | some p, some c => ({ w := { st.w with fs := st.w.fs.set p (.file c) } }, none)
    | _, _ => bad st
  | ["l", p, t] =>
    match parsePath? p, parsePath? t with
    | some p, some t => ({ w := { st.w with fs := st.w.fs.set p (.link t) } }, none)
    | _, _ => bad st
  | ["xwrite", p, c] =>
    match parsePath? p, parseContent? c with
    | some p, some c => ({ w := { st.w with fs := st.w.fs.set p (.file c) } }, none)
    | _, _ => bad st
  | ["xremove", p] =>
    match parsePath? p with
    | some p => ({ w := { st.w with fs := st.w.fs.erase p } }, none)
    | none => bad st
  | ["clock", t] =>
    match t.toNat? with
    | some t => ({ w := { st.w with now := t } }, none)
    | none => bad st
  | ["snap"] => (st, some s!"m {dumpFs st.w.fs}")
  | ["session", e] =>
    match parseBool? e with
    | some e => answer st (TrustVerif.C19.step st.w (.createSession e))
    | none => bad st
  | ["list", t] =>
    match t.toNat? with
    | some t => answer st (TrustVerif.C19.step st.w (.listSources t))
    | none => bad st
  | ["tree", t] =>
    match t.toNat? with
    | some t => answer st (TrustVerif.C19.step st.w (.listTree t))
    | none => bad st
  | ["health", t] =>
    match t.toNat? with
    | some t => answer st (TrustVerif.C19.step st.w (.health t))
    | none => bad st
  | ["search", t, q, l] =>
    match t.toNat?, parseStr? q, l.toNat? with
    | some t, some q, some l => answer st (TrustVerif.C19.step st.w (.search t q l))
    | _, _, _ => bad st
  | ["open", t, p] =>
    match t.toNat?, parseStr? p with
    | some t, some p => answer st (TrustVerif.C19.step st.w (.open t p))
    | _, _ => bad st
  | ["apply", t, p, e, c, we] =>
    match t.toNat?, parseStr? p, e.toNat?, parseContent? c, parseBool? we with
    | some t, some p, some e, some c, some we => answer st (TrustVerif.C19.step st.w (.apply t p e c we))
    | _, _, _, _, _ => bad st
  | ["create", t, p, d, c, we] =>
    match t.toNat?, parseStr? p, parseBool? d, parseOptContent? c, parseBool? we with
    | some t, some p, some d, some c, some we => answer st (TrustVerif.C19.step st.w (.create t p d c we))
    | _, _, _, _, _ => bad st
  | ["rename", t, p, n, we] =>
    match t.toNat?, parseStr? p, parseStr? n, parseBool? we with
    | some t, some p, some n, some we => answer st (TrustVerif.C19.step st.w (.rename t p n we))
    | _, _, _, _ => bad st
  | ["delete", t, p, we] =>
    match t.toNat?, parseStr? p, parseBool? we with
    | some t, some p, some we => answer st (TrustVerif.C19.step st.w (.delete t p we))
    | _, _, _ => bad st
  | ["format", t, p, c] =>
    match t.toNat?, parseStr? p, parseOptContent? c with
    | some t, some p, some c => answer st (TrustVerif.C19.step st.w (.format t p c))
    | _, _, _ => bad st
  | _ => bad st

def main (lines : Array String) (_args : List String) : IO Unit := do
  let mut st : St := {}
  for line in lines do
    let (st', out) := step st line
    st := st'
    match out with
    | some o => IO.println o
    | none => pure ()

end TrustVerif.Drv.C19
