import TrustVerif.Model.C20
import TrustVerif.Drv.Common

/-
Driver for C20.  A case is a scripted schedule; the harness parks every real thread at well defined
points (the clock read of each loop iteration `N`, inside `read_inputs` while holding the mutex
`H`), so after every controller operation the whole system is quiescent and its observable status
is a deterministic function of the script.  The driver replays the script on the model
(`TrustVerif.C20.rstep` / `estep`): after every operation it lets every thread run until it is
blocked (model) or parked (script) and prints the same status line.

Protocol (one case):
  case <n>
  sys <nres> <c0> <p0>
  res <r> <inc> <interval> <scale> <gated> <clk> <restart> <debugger 0..3, ignored by the model>
  spawn | go r | adv c dt | pause r | resume r | sendp r | sendr r | stop r | open | hold r |
  release r | setin r v | mapply r n=v,.. | msnap r n,n,.. | join        (each followed by `impl`)
  fromrt n,n,.. | scyc r inp | spaused r | sresume r | sjoin r | sfinal    (api and stress cases)
  stress-* …                                                          (second kind of case, see below)
  end
Status: `<ret> | r0=<pos>,<state>,e<execs>,w<oks>,v<saves>[=<rc>],<err> … | sh=<cnt>,<pa>,<pb> | cyc=… | snap=…`
-/
namespace TrustVerif.Drv.C20
open TrustVerif.C20 TrustVerif.Drv

structure D where
  n : Nat := 0
  c0 : Int := 0
  p0 : Int := 0
  names : List Nat := [0, 1, 2]
  incs : Array Int := #[]
  cfgs : Array Cfg := #[]
  inp : Array Int := #[]
  tokens : Array Nat := #[]
  hold : Array Bool := #[]
  snapSeen : Array Nat := #[]
  free : Bool := false
  spawned : Bool := false
  s : State := { res := fun _ => {}, shared := Store.empty }
  -- stress mode (serial replay of an observed lock order)
  stressShared : Store := Store.empty
  stressStores : Array Store := #[]
  stressPaused : Array Bool := #[]
  stressEnded : Array Bool := #[]
  stressExecs : Array Nat := #[]
  stressErr : Array (Option Err) := #[]

/-- The counter programs with the case's set of shared names (`SharedGlobals::from_runtime` of
the first runtime). -/
def sysWith (d : D) (input : Nat → Nat → Int) : Sys :=
  { counterSys d.n (fun r => d.incs.getD r 0) input (fun r => d.cfgs.getD r {}) d.c0 d.p0 with
    names := d.names
    initShared := (fromRuntime d.names (counterInit d.c0 d.p0)).getD Store.empty }

def D.sys (d : D) : Sys := sysWith d (fun r _ => d.inp.getD r 0)

/-- Re-tabulate the function-valued fields so that lookups stay O(1). -/
def D.normalise (d : D) : D :=
  let arr : Array Res := Array.ofFn (n := d.n) fun i => d.s.res i.val
  let clk : Array Clock := Array.ofFn (n := d.n + 1) fun i => d.s.clocks i.val
  { d with s := { d.s with res := fun i => arr.getD i {}, clocks := fun i => clk.getD i {} } }

def showState : RState → String
  | .boot => "boot" | .ready => "ready" | .running => "running" | .paused => "paused"
  | .faulted => "faulted" | .stopped => "stopped"

def showErr : Option Err → String
  | none => "-" | some .cycle => "cycle" | some .undefined => "undefined" | some .restart => "restart"

def showOpt (v : Option Int) : String :=
  match v with | some v => toString v | none => "?"

/-- May thread `r` take its next action, as far as the script is concerned? -/
def allowed (d : D) (r : Nat) : Bool :=
  match (d.s.res r).pc with
  | .pauseChk => d.free || d.tokens.getD r 0 > 0
  | .locked1 => !(d.hold.getD r false)
  | _ => true

def posOf (d : D) (r : Nat) : String :=
  let R := d.s.res r
  match R.pc with
  | .gate => "G"
  | .pauseChk => "N"
  | .sleep dl => s!"S@{dl}"
  | .lockWait => "L"
  | .locked1 => "H"
  | .done _ => "D"
  | _ => "?"

/-- Let every thread run until it is blocked or parked. Returns the cycles completed meanwhile. -/
def settle (fuel : Nat) (d : D) (cyc : Array String) : D × Array String :=
  match fuel with
  | 0 => (d, cyc.push "fuel-exhausted")
  | fuel + 1 =>
    let d := if fuel % 64 == 0 then d.normalise else d
    let S := d.sys
    let pick := (List.range d.n).find? fun r => allowed d r && (rstep S r d.s).isSome
    match pick with
    | none => (d, cyc)
    | some r =>
      match rstep S r d.s with
      | none => (d, cyc)
      | some s' =>
        let R := d.s.res r
        let R' := s'.res r
        let d1 := { d with s := s' }
        let d2 :=
          if R.pc == .pauseChk && !d.free then
            { d1 with tokens := d1.tokens.setIfInBounds r (d1.tokens.getD r 0 - 1) }
          else d1
        let cyc' :=
          if R.pc == .locked1 && R'.oks > R.oks then
            cyc.push s!"{r}:{showOpt (R.store 0)}/{showOpt (R.store 1)}/{showOpt (R.store 2)}/{showOpt (R'.store 0)}/{showOpt (R'.store 3)}"
          else cyc
        settle fuel d2 cyc'

def showSnap (xs : List (Nat × Int)) : String :=
  joinWith "," (xs.map fun p => s!"{p.1}={p.2}")

/-- Status line after an operation. -/
def status (d : D) (ret : String) (cyc : Array String) : D × String :=
  let perRes := (List.range d.n).map fun r =>
    let R := d.s.res r
    let sv := match R.saved with
      | some st => s!"v{R.saves}={showOpt (st 4)}"
      | none => s!"v{R.saves}"
    s!"r{r}={posOf d r},{showState R.state},e{R.execs},w{R.oks},{sv},{showErr R.lastErr}"
  let sh :=
    if d.s.lock.isSome then "-"
    else s!"{showOpt (d.s.shared 0)},{showOpt (d.s.shared 1)},{showOpt (d.s.shared 2)}"
  let cycS := if d.free then "*" else if cyc.isEmpty then "-" else joinWith ";" cyc.toList
  let snaps := (List.range d.n).flatMap fun r =>
    let ob := (d.s.res r).outbox
    (ob.drop (d.snapSeen.getD r 0)).map fun xs => s!"{r}:{showSnap xs}"
  let snapSeen := Array.ofFn (n := d.n) fun i => ((d.s.res i.val).outbox).length
  let snapS := if snaps.isEmpty then "-" else joinWith ";" snaps
  ({ d with snapSeen := snapSeen },
   s!"m {ret} | {joinWith " " perRes} | sh={sh} | cyc={cycS} | snap={snapS}")

def finishOp (d : D) (ret : String) : D × Option String :=
  let (d1, cyc) := settle 20000 d #[]
  let (d2, line) := status d1.normalise ret cyc
  (d2, some line)

def envs (d : D) (es : List Env) : D := { d with s := es.foldl (fun s e => estep e s) d.s }

def isDone (d : D) (r : Nat) : Bool := (d.s.res r).pc.isDone

def parsePairs? (s : String) : Option (List (Nat × Int)) :=
  if s = "-" then some [] else
  (s.splitOn ",").mapM fun kv =>
    match kv.splitOn "=" with
    | [k, v] => do let k ← k.toNat?; let v ← v.toInt?; pure (k, v)
    | _ => none

def parseNatList? (s : String) : Option (List Nat) :=
  if s = "-" then some [] else (s.splitOn ",").mapM (·.toNat?)

/-- A command sent through `ResourceControl`: `closed` once the thread has ended. -/
def sendCmd (d : D) (r : Nat) (c : Cmd) (wake : Bool) : D × Option String :=
  if r ≥ d.n then (d, some "bad-op") else
  if isDone d r then finishOp d "closed"
  else
    let es := [Env.send r c] ++ (if wake then [Env.interrupt (d.cfgs.getD r {}).clk] else [])
    finishOp (envs d es) "ok"

/-! ### stress cases: the harness lets the threads run freely and records, through the I/O driver
(which runs inside the locked closure), the order in which the cycles took the mutex and what each
cycle saw and wrote.  The driver replays that order serially (`crit`, one whole closure per
recorded cycle) and answers what the cycle must have seen and written; it also refuses a cycle
of a resource between `spaused r` (the controller read `Paused`) and `sresume r`. -/

def stressCycle (d : D) (r : Nat) (inp : Int) : D × String :=
  if d.stressPaused.getD r false then (d, "m forbidden-while-paused") else
  -- `tick_with_shared` on a faulted runtime: `execute_cycle` returns `ResourceFaulted` at once and
  -- the two syncs copy the shared values in and out again; a thread that ended runs nothing
  if d.stressEnded.getD r false then (d, "m fault") else
  let S : Sys := sysWith d (fun _ _ => inp)
  let R : Res := { store := d.stressStores.getD r Store.empty }
  let pre := (syncInto S.names d.stressShared R.store).1
  let out := crit S r R d.stressShared
  let st' := out.1.store
  let d' := { d with stressShared := out.2, stressStores := d.stressStores.setIfInBounds r st',
                     stressExecs := d.stressExecs.setIfInBounds r (d.stressExecs.getD r 0 + 1),
                     stressEnded := d.stressEnded.setIfInBounds r out.1.pc.isDone,
                     stressErr := d.stressErr.setIfInBounds r out.1.lastErr }
  if out.1.oks > 0 then
    (d', s!"m ok {showOpt (pre 0)}/{showOpt (pre 1)}/{showOpt (pre 2)}/{showOpt (st' 0)}/{showOpt (st' 3)}")
  else (d', "m fault")

def step (d : D) (line : String) : D × Option String :=
  match words line with
  | ["case", _] => ({}, none)
  | ["end"] => (d, none)
  | "impl" :: _ => (d, none)
  | "tag" :: _ => (d, none)
  | "#" :: _ => (d, none)
  | [] => (d, none)
  | ["sys", n, c0, p0, ns] =>
    match n.toNat?, c0.toInt?, p0.toInt?, parseNatList? ns with
    | some n, some c0, some p0, some ns =>
      ({ d with n := n, c0 := c0, p0 := p0, names := ns, incs := Array.replicate n 0, cfgs := Array.replicate n {},
                inp := Array.replicate n 0, tokens := Array.replicate n 0, hold := Array.replicate n false,
                snapSeen := Array.replicate n 0,
                stressStores := Array.replicate n (counterInit c0 p0),
                stressPaused := Array.replicate n false,
                stressEnded := Array.replicate n false,
                stressExecs := Array.replicate n 0,
                stressErr := Array.replicate n none,
                stressShared := (fromRuntime ns (counterInit c0 p0)).getD Store.empty }, none)
    | _, _, _, _ => (d, some "bad-op")
  | "res" :: r :: inc :: iv :: sc :: g :: c :: rs :: _dbg =>
    -- the last field (debugger attached / breakpoint armed / hit) is deliberately ignored: in the
    -- model the locked closure is one critical section whatever the debugger does
    match r.toNat?, inc.toInt?, iv.toInt?, sc.toNat?, parseBool? g, c.toNat?, parseBool? rs with
    | some r, some inc, some iv, some sc, some g, some c, some rs =>
      if r ≥ d.n then (d, some "bad-op") else
      ({ d with incs := d.incs.setIfInBounds r inc,
                cfgs := d.cfgs.setIfInBounds r { interval := iv, scale := sc, gated := g, clk := c, restartOnFault := rs } },
       none)
    | _, _, _, _, _, _, _ => (d, some "bad-op")
  | ["spawn"] =>
    let d1 := { d with s := init d.sys, spawned := true }
    finishOp d1 "-"
  | ["go", r] =>
    match r.toNat? with
    | some r =>
      if r ≥ d.n then (d, some "bad-op") else
      finishOp { d with tokens := d.tokens.setIfInBounds r (d.tokens.getD r 0 + 1) } "-"
    | none => (d, some "bad-op")
  | ["adv", c, dt] =>
    match c.toNat?, dt.toInt? with
    | some c, some dt => finishOp (envs d [.advance c dt]) "-"
    | _, _ => (d, some "bad-op")
  | ["pause", r] => match r.toNat? with | some r => sendCmd d r .pause true | none => (d, some "bad-op")
  | ["resume", r] => match r.toNat? with | some r => sendCmd d r .resume true | none => (d, some "bad-op")
  | ["sendp", r] => match r.toNat? with | some r => sendCmd d r .pause false | none => (d, some "bad-op")
  | ["sendr", r] => match r.toNat? with | some r => sendCmd d r .resume false | none => (d, some "bad-op")
  | ["mapply", r, ups] =>
    match r.toNat?, parsePairs? ups with
    | some r, some ups => sendCmd d r (.meshApply ups) false
    | _, _ => (d, some "bad-op")
  | ["msnap", r, ns] =>
    match r.toNat?, parseNatList? ns with
    | some r, some ns => sendCmd d r (.meshSnap ns) false
    | _, _ => (d, some "bad-op")
  | ["stop", r] =>
    match r.toNat? with
    | some r =>
      if r ≥ d.n then (d, some "bad-op") else
      finishOp (envs d [.setStop r, .interrupt (d.cfgs.getD r {}).clk]) "-"
    | none => (d, some "bad-op")
  | ["open"] => finishOp (envs d [.openGate]) "-"
  | ["hold", r] =>
    match r.toNat? with
    | some r => if r ≥ d.n then (d, some "bad-op") else finishOp { d with hold := d.hold.setIfInBounds r true } "-"
    | none => (d, some "bad-op")
  | ["release", r] =>
    match r.toNat? with
    | some r => if r ≥ d.n then (d, some "bad-op") else finishOp { d with hold := d.hold.setIfInBounds r false } "-"
    | none => (d, some "bad-op")
  | ["setin", r, v] =>
    match r.toNat?, v.toInt? with
    | some r, some v => if r ≥ d.n then (d, some "bad-op") else finishOp { d with inp := d.inp.setIfInBounds r v } "-"
    | _, _ => (d, some "bad-op")
  | ["poison"] => (d, none)  -- panic scenario, outside the model; evaluated by checks/c20.py
  | ["abort"] => (d, none)   -- the harness gave up on this case after a hang (already reported)
  | ["join"] =>
    -- end of the script (every thread has been sent `stop` by ordinary `stop r` operations):
    -- remove every obstacle of the script and let everything run to the end
    finishOp { d with free := true, hold := Array.replicate d.n false } "-"
  -- stress cases
  | ["scyc", r, inp] =>
    match r.toNat?, inp.toInt? with
    | some r, some inp => if r ≥ d.n then (d, some "bad-op") else
        let (d', o) := stressCycle d r inp; (d', some o)
    | _, _ => (d, some "bad-op")
  | ["spaused", r] =>
    match r.toNat? with
    | some r => ({ d with stressPaused := d.stressPaused.setIfInBounds r true }, none)
    | none => (d, some "bad-op")
  | ["sresume", r] =>
    match r.toNat? with
    | some r => ({ d with stressPaused := d.stressPaused.setIfInBounds r false }, none)
    | none => (d, some "bad-op")
  | ["fromrt", ns] =>
    match parseNatList? ns with
    | some ns =>
      (d, some (if (fromRuntime ns (counterInit d.c0 d.p0)).isSome then "m ok" else "m err-undefined"))
    | none => (d, some "bad-op")
  | ["sjoin", r] =>
    -- after `stop`: a thread that faulted stays Faulted and saved nothing; every other thread is
    -- Stopped and saved its retained counter (= number of its cycles that returned Ok) exactly once
    match r.toNat? with
    | some r =>
      if r ≥ d.n then (d, some "bad-op") else
      let e := d.stressExecs.getD r 0
      if d.stressEnded.getD r false then
        (d, some s!"m D,faulted,e{e},v0,{showErr (d.stressErr.getD r none)}")
      else
        (d, some s!"m D,stopped,e{e},v1={showOpt ((d.stressStores.getD r Store.empty) 4)},-")
    | none => (d, some "bad-op")
  | ["sfinal"] =>
    (d, some s!"m {showOpt (d.stressShared 0)},{showOpt (d.stressShared 1)},{showOpt (d.stressShared 2)}")
  | _ => (d, some "bad-op")

def main (lines : Array String) (_args : List String) : IO Unit := do
  let mut d : D := {}
  for line in lines do
    let (d', out) := step d line
    d := d'
    match out with
    | some o => IO.println o
    | none => pure ()

end TrustVerif.Drv.C20
