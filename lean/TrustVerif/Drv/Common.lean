/-
Shared helpers of the line-protocol driver (import-free).
-/
namespace TrustVerif.Drv

partial def readLines (h : IO.FS.Stream) (acc : Array String := #[]) : IO (Array String) := do
  let line ← h.getLine
  if line.isEmpty then return acc
  readLines h (acc.push line.trimAscii.toString)

def words (s : String) : List String :=
  (s.splitOn " ").filter (· ≠ "")

def joinWith (sep : String) (xs : List String) : String := sep.intercalate xs

def showNats (xs : List Nat) : String := joinWith "," (xs.map toString)
def showInts (xs : List Int) : String := joinWith "," (xs.map toString)

def parseBool? (s : String) : Option Bool :=
  if s = "1" then some true else if s = "0" then some false else none

def parseInts? (ws : List String) : Option (List Int) := ws.mapM (·.toInt?)
def parseNats? (ws : List String) : Option (List Nat) := ws.mapM (·.toNat?)
def parseBools? (ws : List String) : Option (List Bool) := ws.mapM parseBool?

def hexVal? (c : Char) : Option Nat :=
  if '0' ≤ c ∧ c ≤ '9' then some (c.toNat - '0'.toNat)
  else if 'a' ≤ c ∧ c ≤ 'f' then some (c.toNat - 'a'.toNat + 10)
  else if 'A' ≤ c ∧ c ≤ 'F' then some (c.toNat - 'A'.toNat + 10)
  else none

/-- Decode a hex string (`-` denotes the empty string) into bytes. -/
def parseHex? (s : String) : Option (List Nat) :=
  if s = "-" then some [] else
  let rec go : List Char → List Nat → Option (List Nat)
    | [], acc => some acc.reverse
    | [_], _ => none
    | a :: b :: rest, acc => do
      let x ← hexVal? a
      let y ← hexVal? b
      go rest ((x * 16 + y) :: acc)
  go s.toList []

def hexDigit (n : Nat) : Char :=
  if n < 10 then Char.ofNat ('0'.toNat + n) else Char.ofNat ('a'.toNat + n - 10)

def showHex (bs : List Nat) : String :=
  if bs.isEmpty then "-" else
  String.ofList (bs.flatMap fun b => [hexDigit (b / 16 % 16), hexDigit (b % 16)])

end TrustVerif.Drv
