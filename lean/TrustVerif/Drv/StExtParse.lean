import TrustVerif.Model.StExt
import TrustVerif.Drv.StParse

/-!
Parser of stage-S4 programs (FUNCTIONs and calls) in the S-expression form of the harness:

  func <name> <RET> ( ( pname TYPE in|out|inout default|- )* ) ( ( lname TYPE init|- )* ) block
  expr  ::= … | ( c F ( ( name|- 0|1 expr )* ) )
  stmt  ::= … | ( retv expr ) | ( expr expr )
-/
namespace TrustVerif.Drv.St
open TrustVerif.StCore TrustVerif.StExt

mutual
partial def toXExpr : SExp → Option XExpr
  | .list [.atom "l", .atom t, .atom v] => do
    let ty ← parseOptKind? t
    let n ← v.toInt?
    pure (.lit ty n)
  | .list [.atom "t"] => some (.blit true)
  | .list [.atom "f"] => some (.blit false)
  | .list [.atom "v", .atom x] => some (.var x)
  | .list [.atom "u", .atom op, e] => do
    let o ← parseUnOp? op
    let e' ← toXExpr e
    pure (.un o e')
  | .list [.atom "b", .atom op, l, r] => do
    let o ← parseBinOp? op
    let l' ← toXExpr l
    let r' ← toXExpr r
    pure (.bin o l' r')
  | .list [.atom "c", .atom f, .list args] => do
    let as ← toXArgs args
    pure (.call f as)
  | .list [.atom "fld", .atom c, .atom f] => some (.fld c f)
  | .list [.atom "idx", .atom a, i] => do
    let i' ← toXExpr i
    pure (.idx a i')
  | _ => none

partial def toXArgs : List SExp → Option XArgs
  | [] => some .nil
  | .list [.atom name, .atom arrow, e] :: rest => do
    let e' ← toXExpr e
    let r ← toXArgs rest
    let a ← parseBool? arrow
    pure (.cons (if name = "-" then none else some name) a e' r)
  | _ => none
end

def toOptXExpr : SExp → Option (Option XExpr)
  | .atom "-" => some none
  | other => (toXExpr other).map some

mutual
partial def toXStmt : SExp → Option XStmt
  | .list [.atom "asg", .atom x, e] => do
    let e' ← toXExpr e
    pure (.assign x e')
  | .list [.atom "expr", e] => do
    let e' ← toXExpr e
    pure (.expr e')
  | .list [.atom "asgi", .atom a, i, e] => do
    let i' ← toXExpr i
    let e' ← toXExpr e
    pure (.assignIdx a i' e')
  | .list [.atom "asgf", .atom sv, .atom f, e] => do
    let e' ← toXExpr e
    pure (.assignFld sv f e')
  | .list [.atom "fbcall", .atom c, .list args] => do
    let as ← toXArgs args
    pure (.fbcall c as)
  | .list [.atom "if", c, t, .list elifs, el] => do
    let c' ← toXExpr c
    let t' ← toXBlock t
    let es ← toXElifs elifs
    let el' ← toXBlock el
    pure (.ite c' t' es el')
  | .list [.atom "case", sel, .list brs, el] => do
    let s' ← toXExpr sel
    let bs ← toXBranches brs
    let el' ← toXBlock el
    pure (.case s' bs el')
  | .list [.atom "for", .atom x, s, e, step, body] => do
    let s' ← toXExpr s
    let e' ← toXExpr e
    let st ← toOptXExpr step
    let b ← toXBlock body
    pure (.for x s' e' st b)
  | .list [.atom "while", c, body] => do
    let c' ← toXExpr c
    let b ← toXBlock body
    pure (.while c' b)
  | .list [.atom "repeat", body, c] => do
    let b ← toXBlock body
    let c' ← toXExpr c
    pure (.repeat b c')
  | .list [.atom "exit"] => some .exit
  | .list [.atom "cont"] => some .continue
  | .list [.atom "ret"] => some (.ret none)
  | .list [.atom "retv", e] => do
    let e' ← toXExpr e
    pure (.ret (some e'))
  | _ => none

partial def toXBlock : SExp → Option XBlock
  | .list xs => xs.foldr (fun x acc => do
      let rest ← acc
      let s ← toXStmt x
      pure (.cons s rest)) (some .nil)
  | _ => none

partial def toXElifs : List SExp → Option XElifs
  | [] => some .nil
  | .list [c, b] :: rest => do
    let c' ← toXExpr c
    let b' ← toXBlock b
    let r ← toXElifs rest
    pure (.cons c' b' r)
  | _ => none

partial def toXBranches : List SExp → Option XBranches
  | [] => some .nil
  | .list [.list ls, b] :: rest => do
    let ls' ← ls.mapM toLabel
    let b' ← toXBlock b
    let r ← toXBranches rest
    pure (.cons ls' b' r)
  | _ => none
end

def parseDir? : String → Option Dir
  | "in" => some .inp
  | "out" => some .out
  | "inout" => some .inout
  | _ => none

def toParam : SExp → Option Param
  | .list [.atom n, .atom t, .atom d, dflt] => do
    let ty ← parseTy? t
    let dir ← parseDir? d
    let df ← toOptXExpr dflt
    pure { name := n, ty := ty, dir := dir, default := df }
  | _ => none

def toLocal : SExp → Option Local
  | .list [.atom n, .atom t, init] => do
    let ty ← parseTy? t
    let i ← toOptXExpr init
    pure { name := n, ty := ty, init := i }
  | _ => none

/-- Parse all S-expressions of a token list. -/
partial def parseSExps (ts : List String) (acc : List SExp := []) : Option (List SExp) :=
  match ts with
  | [] => some acc.reverse
  | _ =>
    match parseSExp ts with
    | some (x, rest) => parseSExps rest (x :: acc)
    | none => none

/-- `func <name> <RET> (params) (locals) body` (tokens after the word `func`). -/
def parseFunc? (tokens : List String) : Option FuncDef :=
  match tokens with
  | name :: ret :: rest =>
    match parseTy? ret, parseSExps rest with
    | some rt, some [.list ps, .list ls, body] => do
      let ps' ← ps.mapM toParam
      let ls' ← ls.mapM toLocal
      let b ← toXBlock body
      pure { name := name, ret := rt, params := ps', locals := ls', body := b }
    | _, _ => none
  | _ => none

/-- `fb <name> (params) (vars) body` (tokens after the word `fb`). -/
def parseFb? (tokens : List String) : Option FbDef :=
  match tokens with
  | name :: rest =>
    match parseSExps rest with
    | some [.list ps, .list ls, body] => do
      let ps' ← ps.mapM toParam
      let ls' ← ls.mapM toLocal
      let b ← toXBlock body
      pure { name := name, params := ps', vars := ls', body := b }
    | _ => none
  | _ => none

/-- `arr <name> <lo> <hi> <TYPE>` / `svar <name> <TypeName> ( ( field TYPE )* )`. -/
def parseAgg? (tokens : List String) : Option (String × AggDecl) :=
  match tokens with
  | ["arr", a, lo, hi, t] => do
    let l ← lo.toInt?
    let h ← hi.toInt?
    let ty ← parseTy? t
    pure (a, .arr l h ty)
  | "svar" :: v :: tn :: rest =>
    match parseSExps rest with
    | some [.list fs] => do
      let fs' ← fs.mapM fun x =>
        match x with
        | .list [.atom f, .atom t] => (parseTy? t).map fun ty => (f, ty)
        | _ => none
      pure (v, .str tn fs')
    | _ => none
  | _ => none

def parseXBlock? (tokens : List String) : Option XBlock :=
  match parseSExp tokens with
  | some (sx, []) => toXBlock sx
  | _ => none

end TrustVerif.Drv.St
