import TrustVerif.Model.StCore
import TrustVerif.Drv.Common

/-!
Parser of the S-expression form in which the harness sends generated ST-core programs to the
driver (shared by the C01/C02/C03 drivers).  Grammar (tokens separated by blanks):

  block  ::= ( stmt* )
  stmt   ::= ( asg x expr ) | ( if expr block ( (expr block)* ) block )
           | ( case expr ( ( (label*) block )* ) block )
           | ( for x expr expr step block )      step ::= - | expr
           | ( while expr block ) | ( repeat block expr ) | ( exit ) | ( cont ) | ( ret )
           | ( asgi a expr expr ) | ( asgf s f expr )                       (stage S3)
  label  ::= ( s T v ) | ( r T v T v )           T ::= - | SINT | INT | …
  expr   ::= ( l T v ) | ( t ) | ( f ) | ( v x ) | ( u op expr ) | ( b op expr expr )
           | ( idx a expr ) | ( fld s f )                                   (stage S3)
-/
namespace TrustVerif.Drv.St
open TrustVerif.StCore

inductive SExp
  | atom (s : String)
  | list (xs : List SExp)
  deriving Inhabited

/-- Parse one S-expression from a token list; returns it with the remaining tokens. -/
partial def parseSExp : List String → Option (SExp × List String)
  | [] => none
  | "(" :: rest =>
    let rec go (acc : List SExp) (ts : List String) : Option (SExp × List String) :=
      match ts with
      | [] => none
      | ")" :: rest' => some (.list acc.reverse, rest')
      | ts' =>
        match parseSExp ts' with
        | some (x, rest') => go (x :: acc) rest'
        | none => none
    go [] rest
  | ")" :: _ => none
  | a :: rest => some (.atom a, rest)

def parseKind? (s : String) : Option IKind :=
  IKind.all.find? (fun k => k.name = s)

def parseTy? (s : String) : Option Ty :=
  if s = "BOOL" then some .bool else (parseKind? s).map Ty.int

def parseOptKind? (s : String) : Option (Option IKind) :=
  if s = "-" then some none else (parseKind? s).map some

def parseUnOp? : String → Option UnOp
  | "neg" => some .neg
  | "not" => some .not
  | _ => none

def parseBinOp? : String → Option BinOp
  | "add" => some .add | "sub" => some .sub | "mul" => some .mul | "div" => some .div
  | "mod" => some .mod | "pow" => some .pow
  | "and" => some .and | "or" => some .or | "xor" => some .xor
  | "eq" => some .eq | "ne" => some .ne | "lt" => some .lt | "le" => some .le
  | "gt" => some .gt | "ge" => some .ge
  | _ => none

partial def toExpr : SExp → Option Expr
  | .list [.atom "l", .atom t, .atom v] => do
    let ty ← parseOptKind? t
    let n ← v.toInt?
    pure (.lit ty n)
  | .list [.atom "t"] => some (.blit true)
  | .list [.atom "f"] => some (.blit false)
  | .list [.atom "v", .atom x] => some (.var x)
  | .list [.atom "u", .atom op, e] => do
    let o ← parseUnOp? op
    let e' ← toExpr e
    pure (.un o e')
  | .list [.atom "b", .atom op, l, r] => do
    let o ← parseBinOp? op
    let l' ← toExpr l
    let r' ← toExpr r
    pure (.bin o l' r')
  | .list [.atom "fld", .atom c, .atom f] => some (.fld c f)
  | .list [.atom "idx", .atom a, i] => do
    let i' ← toExpr i
    pure (.idx a i')
  | _ => none

def toLabLit (t v : String) : Option LabLit := do
  let ty ← parseOptKind? t
  let n ← v.toInt?
  pure { ty := ty, v := n }

def toLabel : SExp → Option Label
  | .list [.atom "s", .atom t, .atom v] => (toLabLit t v).map Label.single
  | .list [.atom "r", .atom t1, .atom v1, .atom t2, .atom v2] => do
    let a ← toLabLit t1 v1
    let b ← toLabLit t2 v2
    pure (.range a b)
  | _ => none

mutual
partial def toStmt : SExp → Option Stmt
  | .list [.atom "asg", .atom x, e] => do
    let e' ← toExpr e
    pure (.assign x e')
  | .list [.atom "asgi", .atom a, i, e] => do
    let i' ← toExpr i
    let e' ← toExpr e
    pure (.assignIdx a i' e')
  | .list [.atom "asgf", .atom sv, .atom f, e] => do
    let e' ← toExpr e
    pure (.assignFld sv f e')
  | .list [.atom "if", c, t, .list elifs, el] => do
    let c' ← toExpr c
    let t' ← toBlock t
    let es ← toElifs elifs
    let el' ← toBlock el
    pure (.ite c' t' es el')
  | .list [.atom "case", sel, .list brs, el] => do
    let s' ← toExpr sel
    let bs ← toBranches brs
    let el' ← toBlock el
    pure (.case s' bs el')
  | .list [.atom "for", .atom x, s, e, step, body] => do
    let s' ← toExpr s
    let e' ← toExpr e
    let st ← (match step with
      | .atom "-" => some none
      | other => (toExpr other).map some)
    let b ← toBlock body
    pure (.for x s' e' st b)
  | .list [.atom "while", c, body] => do
    let c' ← toExpr c
    let b ← toBlock body
    pure (.while c' b)
  | .list [.atom "repeat", body, c] => do
    let b ← toBlock body
    let c' ← toExpr c
    pure (.repeat b c')
  | .list [.atom "exit"] => some .exit
  | .list [.atom "cont"] => some .continue
  | .list [.atom "ret"] => some .ret
  | _ => none

partial def toBlock : SExp → Option Block
  | .list xs => xs.foldr (fun x acc => do
      let rest ← acc
      let s ← toStmt x
      pure (.cons s rest)) (some .nil)
  | _ => none

partial def toElifs : List SExp → Option Elifs
  | [] => some .nil
  | .list [c, b] :: rest => do
    let c' ← toExpr c
    let b' ← toBlock b
    let r ← toElifs rest
    pure (.cons c' b' r)
  | _ => none

partial def toBranches : List SExp → Option Branches
  | [] => some .nil
  | .list [.list ls, b] :: rest => do
    let ls' ← ls.mapM toLabel
    let b' ← toBlock b
    let r ← toBranches rest
    pure (.cons ls' b' r)
  | _ => none
end

def parseBlock? (tokens : List String) : Option Block :=
  match parseSExp tokens with
  | some (sx, []) => toBlock sx
  | _ => none

/-! Canonical printing of the observables. -/

def showVal : Val → String
  | .b v => s!"Bool:{if v then 1 else 0}"
  | .i k v => s!"{k.tag}:{v}"

def showEnv (e : Env) : String :=
  joinWith " " (e.map fun (x, v) => s!"{x}={showVal v}")

def showOut (o : CycleOut) : String :=
  match o with
  | none => "ok"
  | some (.fault e _) => e.name
  | some (.panic _) => "panic"

/-- Parse `Tag:value` as printed by the harness. -/
def parseVal? (s : String) : Option Val :=
  match s.splitOn ":" with
  | ["Bool", "1"] => some (.b true)
  | ["Bool", "0"] => some (.b false)
  | [t, v] => do
    let k ← IKind.all.find? (fun k => k.tag = t)
    let n ← v.toInt?
    pure (.i k n)
  | _ => none

end TrustVerif.Drv.St
